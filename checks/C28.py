"""C28 — MPI point-to-point matching and non-overtaking.
Coq (Smpi/Match*.v): match_common as a pure function; match iff communicator/source/tag compatible (wildcards, tag >= 0),
status source/tag exact, truncation flag; the message-id counters deliver one (source,destination,tag) class in send order.
Tie/oracle: generated MPI programs (Isend/Issend/Send/Bsend x Recv/Irecv/Probe/Iprobe/Sendrecv, wildcards, pre-posted
receives, sizes around smpi/async-small-thresh and smpi/send-is-detached-thresh) run under smpirun; every receive log is
compared with the MPI semantics computed with the extracted match predicate (first pending message of the sender, in
send order, that the verified predicate accepts)."""
import json, os
import fw

ANY_SOURCE, ANY_TAG = -555, -444
CFGS = [(0, 65536), (64, 128), (64, 64), (32, 256), (96, 100000), (128, 1024)]   # (async-small-thresh, send-is-detached-thresh) bytes; the library requires small <= detached


def sizes_around(rng, a, d):
    pts = [16, 20]
    for t in (a, d):
        if 16 < t < 4096:
            pts += [t - 4, t, t + 4, t + 40]
    return max(4, rng.choice(pts) // 4)          # count of ints, >= 4


def gen_program(rng, np_max):
    np_ = rng.randint(2, np_max)
    a, d = rng.choice(CFGS)
    sends = {r: [] for r in range(np_)}          # rank -> list of (dest, tag, count, mode)
    for s in range(np_):
        for _ in range(rng.randint(0, 2 * np_)):
            dst = rng.choice([x for x in range(np_) if x != s])
            count = sizes_around(rng, a, d)
            mode = rng.choice([0, 0, 1, 3] + ([2] if 4 * count < d else []))
            sends[s].append((dst, rng.choice([0, 1, 1, 2]), count, mode))
    recvs = {r: [] for r in range(np_)}          # rank -> list of (src, tag, bufcount, kind, pre)
    for r in range(np_):
        inbox = {s: [(i, m) for i, m in enumerate(sends[s]) if m[0] == r] for s in range(np_) if s != r}
        total = sum(len(v) for v in inbox.values())
        if total == 0:
            continue
        if rng.random() < 0.25:                  # all-wildcard receiver
            mx = max(m[2] for v in inbox.values() for _, m in v)
            recvs[r] = [(-1, -1, mx, rng.choice([0, 1, 2, 3, 4]), 0) for _ in range(total)]
            continue
        per_sender = []
        for s, msgs in inbox.items():
            pending = list(msgs)
            lst = []
            while pending:
                if rng.random() < 0.4:
                    tag, (i, m) = -1, pending[0]
                else:
                    i, m = rng.choice(pending)
                    tag = m[1]
                    i, m = next((i2, m2) for i2, m2 in pending if m2[1] == tag)
                pending.remove((i, m))
                cnt = m[2]
                buf = rng.choice([cnt, cnt, cnt + 3, max(4, cnt - rng.randint(1, 3))]) if cnt > 4 else cnt
                lst.append((s, tag, buf, rng.choice([0, 0, 1, 2, 3, 4])))
            per_sender.append(lst)
        merged = []
        while any(per_sender):
            l = rng.choice([x for x in per_sender if x])
            merged.append(l.pop(0))
        # a prefix of the posting order may be pre-posted (receive-first path): those must be Irecv
        npre = rng.choice([0, 0, 1, 2, len(merged)]) if merged else 0
        out = []
        for i, (s, t, b, k) in enumerate(merged):
            pre = 1 if i < npre else 0
            if pre and 4 * b < a and rng.random() < 0.9:
                b = max(b, max(m[2] for _, m in inbox[s]))        # see finding truncation-deadlock-preposted
            out.append((s, t, b, 1 if pre else k, pre))
        recvs[r] = out
    return {"np": np_, "async_small": a, "detached": d, "sends": {str(k): v for k, v in sends.items()},
            "recvs": {str(k): v for k, v in recvs.items()}}


CORPUS = [
    # same tag, large then small message (different mailboxes), small receive buffer scanned first
    {"np": 2, "async_small": 64, "detached": 128, "sends": {"0": [(1, 1, 40, 0), (1, 1, 4, 0)], "1": []},
     "recvs": {"0": [], "1": [(0, 1, 40, 0, 0), (0, 1, 4, 0, 0)]}},
    # different tags, large then small, wildcard-tag receives
    {"np": 2, "async_small": 64, "detached": 128, "sends": {"0": [(1, 1, 40, 0), (1, 2, 4, 0)], "1": []},
     "recvs": {"0": [], "1": [(0, -1, 40, 0, 0), (0, -1, 40, 0, 0)]}},
    # truncation
    {"np": 2, "async_small": 0, "detached": 65536, "sends": {"0": [(1, 0, 10, 0)], "1": []},
     "recvs": {"0": [], "1": [(0, 0, 6, 0, 0)]}},
    # pre-posted receive smaller than async-small-thresh, message above it: must be reported as truncated
    {"np": 2, "async_small": 32, "detached": 256, "sends": {"0": [(1, 1, 9, 0)], "1": []},
     "recvs": {"0": [], "1": [(0, 1, 6, 1, 1)]}},
    # pre-posted wildcard receive, ssend
    {"np": 3, "async_small": 64, "detached": 64, "sends": {"0": [(2, 1, 20, 1)], "1": [(2, 2, 4, 3)], "2": []},
     "recvs": {"0": [], "1": [], "2": [(-1, -1, 20, 1, 1), (-1, -1, 20, 2, 0)]}},
    # two pre-posted receives accept the same small messages, the first with a buffer < async-small-thresh (small mailbox), the
    # second with a buffer >= it (large mailbox): same tag, then wildcard tag (finding overtaking-preposted-small-buffer-before-large-buffer)
    {"np": 2, "async_small": 32, "detached": 256, "sends": {"0": [(1, 0, 4, 0), (1, 0, 5, 0)], "1": []},
     "recvs": {"0": [], "1": [(0, 0, 7, 1, 1), (0, 0, 8, 1, 1)]}},
    {"np": 2, "async_small": 32, "detached": 256, "sends": {"0": [(1, 0, 4, 0), (1, 1, 7, 2), (1, 0, 5, 3)], "1": []},
     "recvs": {"0": [], "1": [(0, -1, 7, 1, 1), (0, -1, 7, 1, 1), (0, -1, 8, 1, 1)]}},
    # a message that is too large for the buffer is refused for its id (its predecessor, an Issend, waits in the large mailbox); the
    # receive then takes the small message of rank 2: no truncation (regression of the fix "a receive kept the truncation flag ...")
    {"np": 3, "async_small": 64, "detached": 256, "sends": {"0": [(1, 1, 4, 1), (1, 1, 8, 0)], "1": [], "2": [(1, 1, 4, 0)]},
     "recvs": {"0": [], "1": [(-1, 1, 6, 0, 0), (-1, 1, 8, 0, 0), (-1, 1, 8, 0, 0)], "2": []}},
    # an Iprobe loop that never sees its message because a wildcard-tag receive took it (finding overtaking-anytag-different-tags):
    # the give-up marker of the driver is not a payload
    {"np": 2, "async_small": 32, "detached": 256, "sends": {"0": [], "1": [(0, 2, 65, 3), (0, 1, 5, 1), (0, 1, 7, 2)]},
     "recvs": {"0": [(1, 1, 8, 2, 0), (1, -1, 65, 4, 0), (1, 1, 5, 3, 0)], "1": []}},
]


def script_of(p):
    out = []
    for r in range(p["np"]):
        for (dst, tag, cnt, mode) in p["sends"][str(r)]:
            out.append("S %d %d %d %d %d" % (r, dst, tag, cnt, mode))
        for (src, tag, buf, kind, pre) in p["recvs"][str(r)]:
            out.append("R %d %d %d %d %d %d" % (r, src, tag, buf, kind, pre))
    return "\n".join(out) + "\n"


def judge(ctx, p, out, rc, err):
    """compare the receive logs of one program with the MPI semantics; returns number of receives judged"""
    np_ = p["np"]
    logs, consts = {}, None
    for l in out.split("\n"):
        w = l.split()
        if w and w[0] == "K":
            consts = (int(w[1]), int(w[2]))
        if w and w[0] == "V" and len(w) == 12:
            v = [int(x) for x in w[1:]]
            if v[2] == -99:
                continue          # marker of the driver: the Iprobe loop gave up, this receive got nothing (treated as a receive that never completed)
            logs[(v[0], v[1])] = v[2:]
    nrecv = sum(len(p["recvs"][str(r)]) for r in range(np_))
    incomplete = rc != 0 or len(logs) != nrecv
    if consts is None:
        ctx.fail("run-failed", "program did not start (rc=%d): %s" % (rc, (err or out)[-300:]), p)
        return 0
    nfail0 = len(ctx.failures)
    ok_code, trunc_code = consts
    # the verified predicate decides every (message, receive) compatibility
    pairs, queries = [], []
    for r in range(np_):
        for j, (src, tag, buf, kind, pre) in enumerate(p["recvs"][str(r)]):
            for s in range(np_):
                for i, (dst, mtag, cnt, mode) in enumerate(p["sends"][str(s)]):
                    if dst == r:
                        pairs.append((r, j, s, i))
                        queries.append([0, s, mtag, 4 * cnt, 0, ANY_SOURCE if src < 0 else src, ANY_TAG if tag < 0 else tag, 4 * buf, 0, 1])
    ans = fw.run_model("c28", "run_c28_match", queries) if queries else []
    compat = {k: a for k, a in zip(pairs, ans)}
    for r in range(np_):
        rl = p["recvs"][str(r)]
        order = [j for j in range(len(rl)) if rl[j][4]] + [j for j in range(len(rl)) if not rl[j][4]]   # posting order
        taken = set()
        presumed = set()
        for j in order:
            src, tag, buf, kind, pre = rl[j]
            if (r, j) not in logs:
                # the program hung and this receive has no log.  If it was posted (pre-posted ones are), it holds a message we cannot see:
                # presume the one MPI gives it (first pending message it accepts; of every sender for a wildcard source), so that
                # this message is not counted as "still pending" against the receives posted after it
                if pre:
                    for s in (range(np_) if src < 0 else [src]):
                        for i, m in enumerate(p["sends"][str(s)]):
                            if m[0] == r and (s, i) not in taken and (s, i) not in presumed and compat[(r, j, s, i)][0] == 1:
                                presumed.add((s, i))
                                break
                continue
            rcode, ssrc, stag, cnt, m0, m1, m2, m3, fill = logs[(r, j)]
            case = dict(p, receive=[r, j])
            # which message did it get (from the payload)?
            if not (0 <= m0 < np_ and 0 <= m1 < len(p["sends"][str(m0)]) and p["sends"][str(m0)][m1][0] == r):
                ctx.fail("wrong-payload", "receive %d of rank %d got bytes that are no message sent to it: %s" % (j, r, logs[(r, j)]), case)
                continue
            got = (m0, m1)
            dst, mtag, mcnt, mode = p["sends"][str(m0)][m1]
            a = compat[(r, j, m0, m1)]
            if got in taken:
                ctx.fail("duplicate-delivery", "message %s delivered twice at rank %d" % (got, r), case)
            taken.add(got)
            if a[0] != 1:
                ctx.fail("incompatible-match", "receive (src %d tag %d) of rank %d got message from %d tag %d" % (src, tag, r, m0, mtag), case)
                continue
            # non-overtaking: no earlier message of the same sender that this receive accepts is still pending
            earlier = [i for i in range(m1) if p["sends"][str(m0)][i][0] == r and (m0, i) not in taken and (m0, i) not in presumed
                       and compat[(r, j, m0, i)][0] == 1]
            if earlier:
                e = earlier[0]
                etag = p["sends"][str(m0)][e][1]
                ecnt = p["sends"][str(m0)][e][2]
                kindsig = "anytag-different-tags" if (tag < 0 and etag != mtag) else "same-tag"
                sig = "overtaking-" + kindsig + ("-preposted" if pre else "")
                if pre and ecnt > buf and 4 * buf < p["async_small"] <= 4 * ecnt:
                    sig = "truncation-deadlock-preposted"      # same root cause: the receive sits in the small mailbox, the message goes to the large one
                elif pre and 4 * buf < p["async_small"] and 4 * ecnt < p["async_small"]:
                    # this receive waits in the small mailbox; a small message looks for a posted receive in the large mailbox first:
                    # a receive posted LATER with a buffer >= the threshold (large mailbox) that accepts the message gets it
                    later = [j2 for j2 in order[order.index(j) + 1:] if rl[j2][4] and 4 * rl[j2][2] >= p["async_small"]
                             and compat[(r, j2, m0, e)][0] == 1 and ((r, j2) not in logs or tuple(logs[(r, j2)][4:6]) == (m0, e))]
                    if later:
                        sig = "overtaking-preposted-small-buffer-before-large-buffer"
                ctx.fail(sig,
                         "rank %d receive %d (src %d tag %d%s) got message #%d (tag %d, %d bytes) of rank %d while its earlier message #%d "
                         "(tag %d, %d bytes) was still pending; async-small-thresh %d detached-thresh %d" % (
                             r, j, src, tag, ", pre-posted" if pre else "", m1, mtag, 4 * mcnt, m0, e, etag,
                             4 * p["sends"][str(m0)][e][2], p["async_small"], p["detached"]), case)
            # status and data
            truncated = a[3] == 1
            if ssrc != a[1] or stag != a[2]:
                ctx.fail("wrong-status", "rank %d receive %d: status (%d,%d), message is (%d,%d)" % (r, j, ssrc, stag, a[1], a[2]), case)
            if truncated:
                if rcode != trunc_code:
                    ctx.fail("truncation-not-reported", "rank %d receive %d: buffer %d ints, message %d ints, return code %d" % (r, j, buf, mcnt, rcode), case)
            else:
                if rcode != ok_code:
                    ctx.fail("spurious-error", "rank %d receive %d returned %d" % (r, j, rcode), case)
                if cnt != mcnt:
                    ctx.fail("wrong-count", "rank %d receive %d: count %d, message has %d" % (r, j, cnt, mcnt), case)
            if m2 != mtag or m3 != mcnt or fill != 1:
                ctx.fail("wrong-payload", "rank %d receive %d: payload header %s filler_ok %d for message %s" % (r, j, [m0, m1, m2, m3], fill, got), case)
    if incomplete and len(ctx.failures) == nfail0:
        # nothing wrong in what was logged: the program itself hung.  Recognise the two known shapes (a pre-posted receive
        # that waits in the small mailbox never gets its message):
        #  - the message is >= async-small-thresh and larger than the buffer (goes to the large mailbox: no truncation error)
        #  - the message is < async-small-thresh and a receive posted later in the large mailbox accepts it (and got it, if it was logged)
        shape = shape2 = False
        for r in range(np_):
            rl = p["recvs"][str(r)]
            for j, (src, tag, buf, kind, pre) in enumerate(rl):
                if pre and 4 * buf < p["async_small"] and (r, j) not in logs:
                    for s in range(np_):
                        for i, (dst, mtag, cnt, mode) in enumerate(p["sends"][str(s)]):
                            if dst == r and compat.get((r, j, s, i), [0])[0] == 1:
                                if cnt > buf and 4 * cnt >= p["async_small"]:
                                    shape = True
                                if 4 * cnt < p["async_small"] and any(
                                        rl[j2][4] and 4 * rl[j2][2] >= p["async_small"] and compat[(r, j2, s, i)][0] == 1
                                        and ((r, j2) not in logs or tuple(logs[(r, j2)][4:6]) == (s, i)) for j2 in range(j + 1, len(rl))):
                                    shape2 = True
        ctx.fail("truncation-deadlock-preposted" if shape else "overtaking-preposted-small-buffer-before-large-buffer" if shape2 else "run-failed",
                 "program ended with rc=%d and %d/%d receive logs (async-small-thresh %d): %s" % (
                     rc, len(logs), nrecv, p["async_small"], " ".join((err or out)[-260:].split())), p)
    return len(logs)


def run(ctx):
    ctx.simgrid(["simgrid", "smpimain"])
    ctx.prove()
    prog = fw.build_smpi_prog("smpi_c28")
    rng = ctx.rng
    if ctx.replay:
        rp = json.load(open(ctx.replay))["case"]
        rp.pop("receive", None)
        progs = [rp]
    else:
        progs = [json.loads(json.dumps(c)) for c in CORPUS] + [gen_program(rng, ctx.n(4, 6)) for _ in range(ctx.n(60, 1200))]
    ctx.cov["rule"] = ("generated programs of 2..6 ranks; every rank sends 0..2np messages (tags 0..2, sizes at +-4 bytes of both thresholds, "
                       "Isend/Issend/Bsend, blocking Send when detached) and receives them with Recv/Irecv/Probe+Recv/Iprobe+Recv/Sendrecv, "
                       "specific or wildcard source/tag, exact, larger or too small buffers, a prefix of the receives pre-posted; "
                       "non-trivial = a receive with a wildcard, a truncation, or a sender whose messages straddle a threshold; "
                       "one evaluation = one receive")
    dist = {"programs": 0, "receives": 0, "np": {}, "cfg": {}, "wildcard_receives": 0, "preposted": 0, "truncating": 0}
    cf = os.path.join(fw.B, "c28_script_%d.txt" % os.getpid())
    for p in progs:
        open(cf, "w").write(script_of(p))
        rc, out, err = fw.smpirun(prog, p["np"], [cf], cfg=["smpi/async-small-thresh:%d" % p["async_small"],
                                                              "smpi/send-is-detached-thresh:%d" % p["detached"]], timeout=40)
        n = judge(ctx, p, out, rc, err)
        dist["programs"] += 1
        dist["receives"] += n
        dist["np"][p["np"]] = dist["np"].get(p["np"], 0) + 1
        k = "%d/%d" % (p["async_small"], p["detached"])
        dist["cfg"][k] = dist["cfg"].get(k, 0) + 1
        for r in range(p["np"]):
            for j, (src, tag, buf, kind, pre) in enumerate(p["recvs"][str(r)]):
                wild = src < 0 or tag < 0
                dist["wildcard_receives"] += wild
                dist["preposted"] += pre
                ctx.case((json.dumps(p, sort_keys=True), r, j), wild or pre == 1,
                         {"np": p["np"], "cfg": k, "receive": [src, tag, buf, kind, pre]} if wild and pre else None)
    if os.path.exists(cf):
        os.remove(cf)
    ctx.cov["input_distribution"] = dist
    ctx.assumptions += [
        "the order in which messages of different senders reach a wildcard-source receive is not constrained (any is accepted)",
        "receivers with specific sources: the expected message is the first pending one of that sender the verified predicate accepts, receives taken in posting order (pre-posted first)",
        "when a program hangs, a pre-posted receive without a log is presumed to hold the message MPI gives it (it is not counted as pending against later receives); "
        "an Iprobe loop that gives up (driver marker -99) counts as a receive that never completed; a hang with no rejected log is itself a failure",
        "communicator ids other than MPI_COMM_WORLD's and MPI_UNDEFINED communicators are covered by the theorem only, not by the runs",
        "count/status of a truncated receive are not checked beyond the error code (undefined in MPI)"]


META = {
    "level": "proof",
    "claimed": True,
    "text": "Coq (Smpi/Match*.v): match_common matches iff communicator, source and tag are compatible incl. wildcards (C28_match_iff, "
            "C28_no_cross_comm), status source/tag are the sender's and the truncation flag is exact (C28_truncation_flag); the message-id "
            "counters accept the messages of one (source,destination,tag) class in send order whatever mailbox they sit in "
            "(C28_non_overtaking_partial, C28_next_message_found). Generated MPI programs around both thresholds are run and every receive "
            "log is judged against the MPI semantics computed with the extracted predicate.",
    "note": "Non-overtaking is proved only per (source,destination,tag) class (granularity of the counters); wildcard-tag receives across "
            "tags and the receive-posted-first path are judged on runs only. Trusted: Coq kernel, extraction, MPI driver, generator and "
            "the python replay of MPI matching semantics.",
    "technique": "Coq proof of the match predicate and counter discipline + extracted predicate as oracle on generated MPI programs",
}
