"""C03 — simulated time is monotone, events happen exactly at their date.
Shared machinery of C03 / C11 / C12 (the three checks run the same Coq engine model SGV.Kernel.Engine and the same
interpreter harness/eng1_interp.cpp; they differ by program mix, theorems and oracle).
K: per-actor logs (operation returns with clock before/after, on_exit callbacks, terminations) of the extracted model vs.
   the rebuilt library, compared exactly on dyadic durations (tick 2^-k s, precision/timing = p ticks).
O: the inequalities/equalities of the property text evaluated directly on the implementation's log."""
import json
from fractions import Fraction
import fw

SLEEP, EXEC, WAIT, WANY, JOIN, KILL, KALL, SKT, DAEMON, ONEXIT, SUSP, RESUME, EXIT, YIELD = 1, 3, 4, 5, 6, 7, 8, 9, 10, 11, 12, 13, 14, 15
NONBLOCK = {EXEC, KILL, KALL, SKT, DAEMON, ONEXIT, RESUME, YIELD}


# ------------------------------------------------------------------------------------------------- cases
def encode(case):
    out = [case["k"], case["p"], len(case["progs"])]
    for pr in case["progs"]:
        out.append(len(pr))
        for o in pr:
            if o[0] == WANY:
                out += [WANY, o[1], len(o[2])] + list(o[2])
            else:
                out += list(o)
    return out


def gen_case(rng, focus):
    k, p = rng.choice([(32, 4), (32, 4), (30, 1), (34, 16)])
    U = 1 << (k - 2)                                   # a quarter of a second
    n = rng.randint(1, 4)
    hid = [0]

    def dur(allow_sub=True):
        r = rng.random()
        if allow_sub and r < 0.12:
            return rng.choice([0, 1, max(1, p // 2), p - 1 if p > 1 else 1, p, p + 1])
        d = U * rng.randint(0, 10)
        if r > 0.93:
            d += rng.choice([1, p - 1 if p > 1 else 1, p, p + 1, -1 if d > 0 else 0])     # closer than / at / beyond the precision
        return d

    progs = []
    for a in range(1, n + 1):
        pr, mine = [], []
        if rng.random() < (0.7 if focus == "life" else 0.3):
            pr.append((ONEXIT, rng.randint(1, 9)))
        for _ in range(rng.randint(1, 6)):
            r = rng.random()
            other = rng.randint(1, n + (1 if rng.random() < 0.03 else 0))
            if focus == "wait" and r < 0.75 or focus != "wait" and r < 0.15:
                if not mine or rng.random() < 0.45:
                    hid[0] += 1
                    d = dur()
                    mine.append((hid[0], d))
                    pr.append((EXEC, hid[0], d))
                    if rng.random() < 0.3:
                        pr.append((SLEEP, dur()))
                elif len(mine) >= 2 and rng.random() < 0.4:
                    hs = rng.sample(mine, rng.randint(1, min(3, len(mine))))
                    base = min(d for _, d in hs)
                    t = rng.choice([-1, 0, base, base, max(0, base - U), base + U, base + 1, max(0, base - 1), base + p])
                    pr.append((WANY, t, [h for h, _ in hs]))
                else:
                    h, d = rng.choice(mine)
                    t = rng.choice([-1, 0, d, d, max(0, d - U), d + U, d + 1, max(0, d - 1), d + p, max(0, d - p)])
                    pr.append((WAIT, h, t))
            elif r < 0.55 or focus == "time" and r < 0.8:
                pr.append((SLEEP, dur()))
            elif focus == "wait":
                pr.append((SLEEP, dur()))
            elif r < 0.62:
                pr.append((SKT, U * rng.randint(0, 12) + rng.choice([0, 0, 0, 1, p])))
            elif r < 0.66:
                pr.append((ONEXIT, rng.randint(1, 9)))
            elif r < 0.69:
                pr.append((YIELD,))
            elif focus == "time":
                pr.append((SLEEP, dur()))
            elif r < 0.78:
                pr.append((JOIN, other, rng.choice([-1, -1, 0, dur(), dur(), 1])))
            elif r < 0.83:
                pr.append((KILL, other))
            elif r < 0.85:
                pr.append((KALL,))
            elif r < 0.89:
                pr.append((DAEMON,))
            elif r < 0.94:
                pr.append((SUSP, other))
            elif r < 0.98:
                pr.append((RESUME, other))
            else:
                pr.append((EXIT,))
        progs.append(pr)
    return {"k": k, "p": p, "progs": progs}


S = 1 << 32
CORPUS = [
    # sleep 1 s then a sub-precision sleep (clamped to the precision), then sleep 0
    {"k": 32, "p": 4, "progs": [[(SLEEP, S), (SLEEP, 2), (SLEEP, 0)]]},
    # wait_for with the deadline exactly at the natural completion: completed, not timed out
    {"k": 32, "p": 4, "progs": [[(EXEC, 1, 2 * S), (WAIT, 1, 2 * S)]]},
    {"k": 32, "p": 4, "progs": [[(EXEC, 1, 2 * S), (WAIT, 1, 2 * S - 1)], [(EXEC, 2, 2 * S), (WAIT, 2, 2 * S + 1)]]},
    {"k": 32, "p": 4, "progs": [[(EXEC, 1, 2 * S), (WANY, 2 * S, [1])], [(EXEC, 2, 2 * S), (EXEC, 3, 3 * S), (WANY, 4 * S, [3, 2])]]},
    {"k": 32, "p": 4, "progs": [[(EXEC, 1, 2 * S), (WAIT, 1, 0), (WAIT, 1, -1), (WAIT, 1, 5)]]},
    # kill time coinciding with the end of a sleep; kill time in the past
    {"k": 32, "p": 4, "progs": [[(ONEXIT, 1), (SKT, 2 * S), (SLEEP, 2 * S), (SLEEP, S)], [(SKT, 0), (SLEEP, 3 * S)]]},
    # join with timeout, target dying at the deadline; join on a dead actor; on_exit order
    {"k": 32, "p": 4, "progs": [[(ONEXIT, 1), (ONEXIT, 2), (SLEEP, 2 * S)], [(JOIN, 1, 2 * S), (JOIN, 1, -1), (JOIN, 1, 3)], [(JOIN, 1, S), (JOIN, 1, -1)]]},
    # daemons are killed when the last regular actor ends
    {"k": 32, "p": 4, "progs": [[(ONEXIT, 4), (DAEMON,), (SLEEP, 9 * S)], [(DAEMON,), (JOIN, 1, -1)], [(SLEEP, S)]]},
    # suspend during a sleep that ends before the resume; exec frozen while its owner is suspended
    {"k": 32, "p": 4, "progs": [[(SLEEP, 2 * S), (SLEEP, S)], [(SLEEP, S), (SUSP, 1), (SLEEP, 3 * S), (RESUME, 1)]]},
    {"k": 32, "p": 4, "progs": [[(EXEC, 1, 4 * S), (WAIT, 1, -1), (SLEEP, S)], [(SLEEP, S), (SUSP, 1), (SLEEP, 2 * S), (RESUME, 1)]]},
    # regression (fixed e6bd85acee): suspending an actor that still owns a terminated exec crashed
    {"k": 32, "p": 4, "progs": [[(EXEC, 1, S), (SLEEP, 10 * S)], [(SLEEP, 2 * S), (SUSP, 1), (SLEEP, S), (RESUME, 1)]]},
    # kill_all / kill of a suspended actor / self-suspend resumed by somebody else / exit
    {"k": 32, "p": 4, "progs": [[(ONEXIT, 5), (SLEEP, 2 * S), (SLEEP, S)], [(SLEEP, S), (SUSP, 1), (KILL, 1)]]},
    {"k": 32, "p": 4, "progs": [[(SUSP, 1), (SLEEP, S)], [(SLEEP, 2 * S), (RESUME, 1)], [(ONEXIT, 1), (EXIT,), (SLEEP, S)]]},
    {"k": 32, "p": 4, "progs": [[(SLEEP, S), (KALL,), (SLEEP, S)], [(ONEXIT, 3), (SLEEP, 5 * S)], [(ONEXIT, 2), (SKT, 3 * S), (SLEEP, 5 * S)]]},
    # two sleeps closer than the precision are merged by the engine (the later one ends early by < precision)
    {"k": 32, "p": 4, "progs": [[(SLEEP, 2 * S)], [(SLEEP, 2 * S + 2)], [(SLEEP, 2 * S + 4)]]},
    # known finding: suspend and resume of the same actor handled in one scheduling round
    {"k": 32, "p": 4, "progs": [[(YIELD,), (SLEEP, 5 * S), (SLEEP, S)], [(SUSP, 1)], [(RESUME, 1)]]},
]


# ------------------------------------------------------------------------------------------------- observations
def ticks(x, k):
    f = Fraction(float(x)) * (1 << k)
    return int(f) if f.denominator == 1 else f


def parse_impl(line, k):
    """-> dict(actors = {pid: [entries]}, acts = [(h, start, fin)], end, crash)"""
    obs = {"actors": {}, "acts": [], "end": None, "crash": None}
    for ent in line.split("|"):
        t = ent.split()
        if not t:
            continue
        if "CRASH" in t:
            obs["crash"] = " ".join(t[t.index("CRASH"):])
            t = t[:t.index("CRASH")]
            if not t:
                continue
        if t[0] == "R":
            obs["actors"].setdefault(int(t[1]), []).append(("R", int(t[2]), ticks(t[3], k), ticks(t[4], k), int(t[5])))
        elif t[0] == "X":
            obs["actors"].setdefault(int(t[1]), []).append(("X", int(t[2]), ticks(t[3], k), int(t[4])))
        elif t[0] == "T":
            obs["actors"].setdefault(int(t[1]), []).append(("T", ticks(t[2], k)))
        elif t[0] == "A":
            obs["acts"].append((int(t[1]), ticks(t[2], k), ticks(t[3], k)))
        elif t[0] == "E":
            obs["end"] = ticks(t[1], k)
    return obs


def parse_model(m):
    flags = {"ended": m[0], "amb": m[1], "race": m[2], "stuck": m[3]}
    obs = {"actors": {}, "acts": [], "end": m[4], "crash": None, "dist": set()}
    i = 5
    while i < len(m):
        c = m[i]
        if c == 1:
            obs["actors"].setdefault(m[i + 1], []).append(("R", m[i + 2], m[i + 3], m[i + 4], m[i + 5]))
            if m[i + 6]:
                obs["dist"].add((m[i + 1], m[i + 2]))
            i += 7
        elif c == 2:
            obs["actors"].setdefault(m[i + 1], []).append(("X", m[i + 2], m[i + 3], m[i + 4]))
            i += 5
        elif c == 3:
            obs["acts"].append((m[i + 1], m[i + 2], m[i + 3]))
            i += 4
        else:
            obs["actors"].setdefault(m[i + 1], []).append(("T", m[i + 2]))
            i += 3
    return flags, obs


# ------------------------------------------------------------------------------------------------- oracle
def clamp(p, d):
    return max(d, p) if d > 0 else d


def static_info(case):
    ops = [o for pr in case["progs"] for o in pr]
    codes = {o[0] for o in ops}
    return {"susp_targets": {o[1] for o in ops if o[0] == SUSP},
            "codes": codes,
            "quiet": not (codes & {KILL, KALL, EXIT, DAEMON, SUSP, JOIN}),
            "n": len(case["progs"])}


def oracle(case, obs, which):
    """Evaluate the property text on an implementation observation. Returns [(signature, explanation)]."""
    bad = []
    p, progs, st = case["p"], case["progs"], static_info(case)
    n = st["n"]
    if obs["crash"]:
        return [("crash", "the simulation died: %s" % obs["crash"])]
    A = obs["actors"]
    death, rets, exec_start = {}, {}, {}
    for pid in range(1, n + 1):
        es = A.get(pid, [])
        rets[pid] = [e for e in es if e[0] == "R"]
        ts = [e[1] for e in es if e[0] == "T"]
        death[pid] = ts[0] if len(ts) == 1 else None
        if len(ts) != 1:
            bad.append(("termination-count", "actor %d: %d termination signals" % (pid, len(ts))))
        for e in rets[pid]:
            o = progs[pid - 1][e[1]] if e[1] < len(progs[pid - 1]) else None
            if o and o[0] == EXEC and e[4] == 0:
                exec_start[o[1]] = (e[3], o[2], pid)
    if any(d is None for d in death.values()):
        return bad
    end = obs["end"]
    for pid in range(1, n + 1):
        es, pr, undisturbed = A.get(pid, []), progs[pid - 1], pid not in st["susp_targets"]
        now, phase = 0, 0
        for j, e in enumerate(rets[pid]):
            if e[1] != j or j >= len(pr):
                bad.append(("op-sequence", "actor %d returns from operation %d as its %d-th return" % (pid, e[1], j)))
                break
            o, t0, t1, res = pr[j], e[2], e[3], e[4]
            if which == "C03":
                if t0 != now:
                    bad.append(("clock-jump", "actor %d op %d called at %s but its previous observation was at %s" % (pid, j, t0, now)))
                if t1 < t0:
                    bad.append(("clock-backwards", "actor %d op %d: clock %s before the call, %s after" % (pid, j, t0, t1)))
                if o[0] == SLEEP:
                    want = t0 + clamp(p, o[1])
                    if o[1] <= 0 and t1 != t0:
                        bad.append(("sleep-inexact", "actor %d: sleep_for(%s) took %s ticks" % (pid, o[1], t1 - t0)))
                    if o[1] > 0 and undisturbed and not (t1 <= want < t1 + p):
                        bad.append(("sleep-inexact", "actor %d op %d: sleep_for(%s ticks) called at %s returned at %s, expected %s (precision %s)" % (pid, j, o[1], t0, t1, want, p)))
                    if o[1] > 0 and not undisturbed and not (want < t1 + p):
                        bad.append(("sleep-early", "actor %d op %d: sleep_for(%s) called at %s returned early at %s" % (pid, j, o[1], t0, t1)))
                elif (o[0] in NONBLOCK or res == -9 or (o[0] == SUSP and o[1] != pid)) and undisturbed and t1 != t0:
                    bad.append(("instant-op-took-time", "actor %d op %d %s: called at %s returned at %s" % (pid, j, o, t0, t1)))
            if which == "C12" and undisturbed and res != -9:
                if o[0] == WAIT and o[1] in exec_start:
                    start, d, _ = exec_start[o[1]]
                    comp = max(t0, start + d)
                    if o[2] < 0 or comp <= t0 + o[2]:
                        if not (res == 0 and t1 <= comp < t1 + p):
                            bad.append(("wait-not-completed", "actor %d op %d: wait_for(%s) called at %s on an exec completing at %s returned %d at %s" % (pid, j, o[2], t0, comp, res, t1)))
                    elif comp >= t0 + o[2] + p:
                        if not (res == 1 and t1 == t0 + o[2]):
                            bad.append(("timeout-inexact", "actor %d op %d: wait_for(%s) called at %s on an exec completing at %s returned %d at %s, expected a timeout at %s" % (pid, j, o[2], t0, comp, res, t1, t0 + o[2])))
                    elif not ((res == 0 and t1 <= comp < t1 + p) or (res == 1 and t1 == t0 + o[2])):
                        bad.append(("timeout-inexact", "actor %d op %d: wait_for(%s) at %s, completion %s: returned %d at %s" % (pid, j, o[2], t0, comp, res, t1)))
                if o[0] == WANY and all(h in exec_start for h in o[2]):
                    comps = {h: max(t0, exec_start[h][0] + exec_start[h][1]) for h in o[2]}
                    first = min(comps.values()) if comps else None
                    dl = t0 + o[1] if o[1] >= 0 else None
                    if res >= 0:
                        if res not in comps or not (comps[res] < t1 + p) or not (t1 <= first < t1 + p) or (dl is not None and t1 > dl):
                            bad.append(("waitany-wrong", "actor %d op %d: wait_any_for(%s) at %s over completions %s returned activity %s at %s" % (pid, j, o[1], t0, comps, res, t1)))
                    elif res == -1:
                        if dl is None or t1 != dl or (first is not None and first + p <= dl):
                            bad.append(("waitany-timeout-wrong", "actor %d op %d: wait_any_for(%s) at %s over completions %s timed out at %s" % (pid, j, o[1], t0, comps, t1)))
            if which == "C11" and undisturbed and o[0] == JOIN and res == 0 and 1 <= o[1] <= n:
                dth = death[o[1]]
                want = max(t0, dth) if o[2] < 0 else min(max(t0, dth), t0 + clamp(p, o[2]))
                if not (t1 <= want < t1 + p):
                    bad.append(("join-inexact", "actor %d op %d: join(%d, %s) called at %s, target died at %s: returned at %s, expected %s" % (pid, j, o[1], o[2], t0, dth, t1, want)))
            now = t1
        # after the last return: callbacks then termination, all at one date, never before the last observation
        tail = [e for e in es if e[0] != "R"]
        if which in ("C03", "C11"):
            pos = [i for i, e in enumerate(es) if e[0] == "R"]
            if pos and any(e[0] != "R" for e in es[:pos[-1]]):
                bad.append(("exit-before-return", "actor %d returns from an operation after its exit callbacks ran" % pid))
            for e in tail:
                t = e[2] if e[0] == "X" else e[1]
                if t != death[pid] or t < now or (end is not None and t > end):
                    bad.append(("exit-date", "actor %d: exit observation %s at %s, termination at %s, last return at %s, end %s" % (pid, e[0], t, death[pid], now, end)))
        if which == "C11":
            nret = len(rets[pid])
            reg = [o[1] for o in pr[:nret] if o[0] == ONEXIT]
            maybe = reg + ([pr[nret][1]] if nret < len(pr) and pr[nret][0] == ONEXIT else [])
            got = [e[1] for e in es if e[0] == "X"]
            if got != reg[::-1] and got != maybe[::-1]:
                bad.append(("on-exit-order", "actor %d registered on_exit callbacks %s, they ran as %s" % (pid, reg, got)))
            if es and es[-1][0] != "T":
                bad.append(("on-exit-after-termination", "actor %d: observation after its termination" % pid))
        # kill time
        for j, e in enumerate(rets[pid]):
            if pr[j][0] == SKT and e[4] == 0 and pr[j][1] > e[3] and which in ("C03", "C11"):
                kt = pr[j][1]
                late = [x for x in es if (x[3] if x[0] == "R" else x[2] if x[0] == "X" else x[1]) > kt]
                if late or death[pid] > kt:
                    bad.append(("kill-time-late", "actor %d has kill time %s but is observed at %s (termination %s)" % (pid, kt, late[:1], death[pid])))
                elif death[pid] < kt and st["quiet"] and len(rets[pid]) < len(pr):
                    bad.append(("kill-time-early", "actor %d has kill time %s but terminated at %s before finishing" % (pid, kt, death[pid])))
    if which == "C11":
        # after the last date at which some actor was not a daemon, nobody is alive
        last = 0
        for pid in range(1, n + 1):
            z = [e[3] for j, e in enumerate(rets[pid]) if progs[pid - 1][j][0] == DAEMON and e[4] == 0]
            last = max(last, z[0] if z else death[pid])
        for pid in range(1, n + 1):
            if death[pid] > last:
                bad.append(("daemon-outlives", "actor %d terminates at %s, after the last regular actor ended (%s)" % (pid, death[pid], last)))
        # suspended actors make no progress: no return strictly between a suspension and the first possible resumption
        for tg in st["susp_targets"]:
            if not (1 <= tg <= n):
                continue
            susp_times = [e[3] for q in range(1, n + 1) if q != tg for j, e in enumerate(rets[q]) if progs[q - 1][j] == (SUSP, tg) and e[4] == 0]
            res_times = []
            for q in range(1, n + 1):
                for j, o in enumerate(progs[q - 1]):
                    if o == (RESUME, tg):
                        if j < len(rets[q]):
                            res_times.append(rets[q][j][2])
                        elif j == len(rets[q]):
                            res_times.append(rets[q][j - 1][3] if j else 0)
            for ts in susp_times:
                tr = min([t for t in res_times if t >= ts] + [death[tg]])
                for e in rets[tg]:
                    if ts < e[3] < tr:
                        bad.append(("progress-while-suspended", "actor %d suspended at %s (first possible resume %s) returns from op %d at %s" % (tg, ts, tr, e[1], e[3])))
    if which == "C03":
        for h, start, fin in obs["acts"]:
            if h in exec_start and not (exec_start[h][0] == start <= fin):
                bad.append(("activity-dates", "exec %d created/started at %s reports start %s finish %s" % (h, exec_start[h][0], start, fin)))
        if end is not None and any(d > end for d in death.values()):
            bad.append(("clock-backwards", "a termination after the final clock %s" % end))
    return bad


# ------------------------------------------------------------------------------------------------- driver
RACE_SIG = "resume-reschedules-running-actor"


def run_family(ctx, pid, mix, nq, nt, extra_assumptions=()):
    ctx.simgrid(["simgrid"])
    ctx.prove()
    drv = fw.build_harness("eng1_interp")
    cases = list(CORPUS)
    for i in range(ctx.n(nq, nt)):
        cases.append(gen_case(ctx.rng, mix[i % len(mix)]))
    if ctx.replay:
        cases = [json.load(open(ctx.replay))["case"]]
    enc = [encode(c) for c in cases]
    model = fw.run_model("c03", "run_eng", enc)
    rc, impl, err = fw.run_lines(drv, [], [" ".join(map(str, e)) for e in enc], timeout=3000)
    if rc != 0 or len(impl) != len(cases):
        raise fw.BuildError("eng1_interp ended with rc=%d after %d/%d cases: %s" % (rc, len(impl), len(cases), err[-300:]))
    dist = {"cases": len(cases), "ambiguous_ties": 0, "race": 0, "model_out_of_fuel": 0, "compared_exactly": 0, "ops": {}}
    for c, m, il in zip(cases, model, impl):
        flags, mo = parse_model(m)
        io = parse_impl(il, c["k"])
        for pr in c["progs"]:
            for o in pr:
                dist["ops"][o[0]] = dist["ops"].get(o[0], 0) + 1
        nontrivial = sum(len(v) for v in io["actors"].values()) > len(c["progs"]) and io["end"] not in (None, 0)
        ctx.case((c["k"], c["p"], str(c["progs"])), nontrivial,
                 {"case": c, "impl": il[:300]} if nontrivial else None)
        same = mo["actors"] == io["actors"] and mo["end"] == io["end"] and sorted(mo["acts"]) == sorted(io["acts"]) and not io["crash"]
        verdict = oracle(c, io, pid)
        if flags["race"]:
            dist["race"] += 1
            for sig, what in verdict:
                ctx.fail(RACE_SIG, "resume() of an actor that is scheduled or has an unhandled simcall: " + what, c)
            continue
        for sig, what in verdict:
            ctx.fail(sig, what + " | case " + json.dumps(c), c)
        if not flags["ended"] or flags["stuck"]:
            dist["model_out_of_fuel"] += 1
            continue
        if flags["amb"]:
            dist["ambiguous_ties"] += 1
            if not same:
                ctx.notes.append("tie order differs (not an alarm) on %s" % json.dumps(c)) if len(ctx.notes) < 5 else None
            continue
        dist["compared_exactly"] += 1
        if not same and not verdict:
            ctx.mismatch("correspondence SGV.Kernel.Engine.run_eng vs eng1_interp",
                         "model %s\nimpl  %s\nend model %s impl %s" % (mo["actors"], io["actors"], mo["end"], io["end"]), c)
    ctx.cov["input_distribution"] = dist
    ctx.cov["rule"] = ("generated S4U programs (1-4 actors, <= 7 ops each; durations on a dyadic grid incl. 0, sub-precision, +-1 tick and "
                       "+-precision around coinciding dates; deadlines before/at/after natural completion); non-trivial = the simulated "
                       "clock advanced and some operation returned; distinct = distinct programs")
    ctx.assumptions += ["time unit 2^-k s, precision/timing = p ticks (2^-30 s in most cases) so that all dates are exact in binary64",
                        "each exec runs alone on its own host (duration = flops/speed computed by the generator); activities are waited by their creator only",
                        "actors are created before Engine::run; no dynamic creation, restart, host failure, comm/io/mess activities",
                        "join timeouts are >= 0 or exactly -1; set_kill_time is used at most once per actor and on oneself",
                        "ties between wake-ups of one batch: the model flags them and only the oracle judges those cases"] + list(extra_assumptions)
    ctx.cov["trusted_base"] = ctx.cov.get("trusted_base", []) + ["the oracle of checks/C03.py (python, evaluates the property text on the implementation log)"]


def run(ctx):
    run_family(ctx, "C03", ["time", "time", "wait", "life"], 500, 12000)


META = {
    "level": "proof",
    "text": "Coq theorems over an executable model of EngineImpl::run (sub-rounds, solve, Timer::execute_all before handle_ended_actions, "
            "CpuCas01::sleep clamp, double_equals pop of the action heap) for all programs and all run prefixes: the clock never decreases and "
            "changes only in solve (C03_clock_monotone, C03_clock_changes_only_in_solve); solve stops at the earliest pending timer/kill-time/"
            "deadline/action date (C03_no_date_jumped_over); every logged observation has t0 <= t1, the log is time-ordered, and every "
            "undisturbed sleep_for(d) returns at t1 with t1 <= t0 + max(d, precision) < t1 + precision, sleep_for(d<=0) at once "
            "(C03_sleep_exact_and_log_ordered, C03_sleep_exact: exact up to the engine's own timing precision, never late). The model is tied "
            "to the rebuilt library by exact comparison of per-actor logs (call/return clocks, on_exit, terminations, exec start/finish) of "
            "generated programs on dyadic durations incl. 0, sub-precision and coinciding dates; an oracle evaluates the property's "
            "equalities on every implementation log.",
    "note": "Time is integer ticks (any common denominator), so exec durations are inputs (flops/speed computed by the generator, each exec "
            "alone on its host). Kill-time and timer firing are proved as step theorems (date never jumped over, fired when date <= clock), "
            "not as a log-level theorem. The ghost flag 'dist' (suspension hit the sleeping actor) is model state; the oracle uses a static "
            "over-approximation of it. Tie order inside one wake-up batch (boost heaps) is not modelled: such cases are flagged and judged by "
            "the oracle only. Not modelled: comms/io/mess, host failures, dynamic actor creation. Known finding: resume() race (see KNOWN_FINDINGS).",
    "technique": "Coq proof (invariants of an executable engine model over all programs and rounds) + extracted-model differential correspondence + oracle on implementation logs",
    "claimed": True,
}
