"""C24 — hierarchical routes are composed correctly.
Generated nested platforms (2 and 3 levels below the root; Full/Floyd/Dijkstra/DijkstraCache/Star/Torus zones) are built
by harness/routing_drv through the C++ platform API.  One process dumps: the zone tree (parents, netpoints, default
gateways), EVERY zone's own get_local_route for all ordered pairs of its vertices, every link's latency, and
Host::route_to for all ordered host pairs.
K/O: the extracted Coq function global_route (proved equal to the declarative composition up ++ across ++ down,
   C24_composition) is instantiated with the zones' own local routes and must give exactly the link sequence and latency of
   route_to — which of several equivalent local routes a zone picks is taken from the zone itself, so only the composition is
   judged.  O also checks latency = sum of link latencies and symmetric declared routes reversed (Full and Star zones)."""
import json
import fw
from routing_lib import run_platforms, run_model_par

LEAF_KINDS = ["full", "floyd", "dijkstra", "dijkstracache", "star", "torus"]
TOP_KINDS = ["full", "floyd", "dijkstra", "star"]


class Gen:
    def __init__(self, rng):
        self.rng, self.lines, self.k, self.hosts, self.sym = rng, [], 0, 0, []

    def links(self, zone, n=None, split_ok=True):
        """declare n fresh links in zone; returns route tokens"""
        n = n or self.rng.choice([1, 1, 2, 2, 3])
        toks = []
        for _ in range(n):
            name = "k%d" % self.k
            self.k += 1
            split = split_ok and self.rng.random() < 0.2
            self.lines.append("link %s %s %d%s" % (name, zone, self.rng.randint(1, 50), " split" if split else ""))
            toks.append(name + (":" + self.rng.choice("UD") if split else ""))
        return toks

    def leaf(self, name, parent, kind, nh):
        """a leaf zone with nh hosts and a gateway router; returns gateway name"""
        L = self.lines
        gw = name + "_gw"
        if kind == "torus":
            dims = self.rng.choice([[2], [3], [2, 2], [3, 2], [4]])
            L.append("torus %s %s %s %d %d %s %d gw" % (name, parent, ",".join(map(str, dims)), self.rng.randint(0, 1),
                                                     self.rng.randint(0, 1), self.rng.choice(["shared", "split"]), self.rng.randint(1, 9)))
            n = 1
            for d in dims:
                n *= d
            self.hosts += n
            return gw
        L.append("zone %s %s %s" % (name, parent, kind))
        hs = ["%s_h%d" % (name, i) for i in range(nh)]
        self.hosts += nh
        for h in hs:
            L.append("host %s %s" % (h, name))
        L.append("router %s %s" % (gw, name))
        L.append("gateway %s %s" % (name, gw))
        if kind == "star":
            for h in hs:
                toks = self.links(name)
                L.append("route %s %s - - - 1 %s" % (name, h, " ".join(toks)))
                self.sym.append((name, h, None, toks))
        else:
            for h in hs:
                toks = self.links(name)
                L.append("route %s %s %s - - 1 %s" % (name, h, gw, " ".join(toks)))
                if kind == "full":
                    self.sym.append((name, h, gw, toks))
            for i in range(len(hs)):
                for j in range(i + 1, len(hs)):
                    if kind == "full" or self.rng.random() < 0.3:
                        sym = self.rng.random() < 0.7
                        toks = self.links(name)
                        L.append("route %s %s %s - - %d %s" % (name, hs[i], hs[j], 1 if sym else 0, " ".join(toks)))
                        if sym and kind == "full":
                            self.sym.append((name, hs[i], hs[j], toks))
                        if not sym and kind == "full":
                            L.append("route %s %s %s - - 0 %s" % (name, hs[j], hs[i], " ".join(self.links(name))))
        return gw

    def middle(self, name, parent, nchild):
        """a Star zone containing leaf zones and its own gateway router (the only kind that accepts zone<->router routes)"""
        L = self.lines
        L.append("zone %s %s star" % (name, parent))
        gw = name + "_gw"
        for c in range(nchild):
            cn = "%s%d" % (name, c)
            cgw = self.leaf(cn, name, self.rng.choice(LEAF_KINDS), self.rng.randint(1, 3))
            toks = self.links(name)
            L.append("route %s %s - %s - 1 %s" % (name, cn, cgw, " ".join(toks)))
        if self.rng.random() < 0.5:
            h = name + "_h"
            L.append("host %s %s" % (h, name))
            self.hosts += 1
            L.append("route %s %s - - - 1 %s" % (name, h, " ".join(self.links(name))))
        L.append("router %s %s" % (gw, name))
        L.append("gateway %s %s" % (name, gw))
        return gw

    def top(self, kind, children):
        """children: list of (zone name, gateway)"""
        L = self.lines
        if kind == "star":
            for c, g in children:
                L.append("route T %s - %s - 1 %s" % (c, g, " ".join(self.links("T"))))
            return
        pairs = [(i, j) for i in range(len(children)) for j in range(i + 1, len(children))]
        if kind != "full":
            # a connected subset: chain + a few extras
            keep = [(i, i + 1) for i in range(len(children) - 1)] + [p for p in pairs if p[1] != p[0] + 1 and self.rng.random() < 0.3]
            pairs = keep
        for i, j in pairs:
            (c1, g1), (c2, g2) = children[i], children[j]
            sym = self.rng.random() < 0.7
            L.append("route T %s %s %s %s %d %s" % (c1, c2, g1, g2, 1 if sym else 0, " ".join(self.links("T"))))
            if not sym:
                L.append("route T %s %s %s %s 0 %s" % (c2, c1, g2, g1, " ".join(self.links("T"))))


def gen_platform(rng, depth3):
    g = Gen(rng)
    kind = rng.choice(TOP_KINDS)
    g.lines.append("zone T - %s" % kind)
    children = []
    for c in range(rng.randint(2, 4)):
        name = "Z%d" % c
        if depth3 and (c == 0 or rng.random() < 0.5):
            children.append((name, g.middle(name, "T", rng.randint(1, 3))))
        else:
            children.append((name, g.leaf(name, "T", rng.choice(LEAF_KINDS), rng.randint(1, 3))))
        if g.hosts > 34:
            break
    if len(children) < 2:
        children.append(("Zx", g.leaf("Zx", "T", "full", 1)))
    g.top(kind, children)
    return g.lines + ["sealall", "dumptree", "dumplinks", "dumplocal", "dump"], g.sym


CORPUS = [
    # the witness of C24_pinned_refuted: Star middle zone whose route from sub-zone A to its gateway has two links
    (["zone T - full", "zone M T star", "zone A M full", "zone B T full", "host a1 A", "host a2 A", "router ga A",
      "link la A 1", "link la2 A 2", "route A a1 ga - - 1 la", "route A a2 ga - - 1 la2 la", "gateway A ga", "router gm M",
      "link m1 M 10", "link m2 M 20", "route M A - ga - 1 m1 m2", "gateway M gm", "host b1 B", "router gb B", "link lb B 3",
      "route B b1 gb - - 1 lb", "gateway B gb", "link r1 T 100", "link r2 T 200", "route T M B gm gb 1 r1 r2",
      "sealall", "dumptree", "dumplinks", "dumplocal", "dump"], [("A", "a2", "ga", ["la2", "la"])]),
]


def back_name(tok):
    if ":" in tok:
        n, d = tok.split(":")
        return n + ("_UP" if d == "U" else "_DOWN"), n + ("_DOWN" if d == "U" else "_UP")
    return tok, tok


def run(ctx):
    ctx.simgrid(["simgrid"])
    ctx.prove()
    drv = fw.build_harness("routing_drv")
    ctx.cov["rule"] = ("one case = one ordered host pair of one generated platform; non-trivial = the two hosts are in different zones "
                       "(the route crosses at least one gateway); distinct = distinct (platform, pair)")
    if ctx.replay:
        rp = json.load(open(ctx.replay))["case"]
        plats = [(rp["lines"], [tuple(x) for x in rp.get("sym", [])])]
    else:
        plats = list(CORPUS)
        for i in range(ctx.n(60, 800)):
            plats.append(gen_platform(ctx.rng, i % 3 != 0))
    outs = run_platforms(drv, [p[0] for p in plats])
    dist = {"platforms": 0, "pairs": 0, "cross_zone_pairs": 0, "three_level_pairs": 0, "zones": 0, "max_hosts": 0,
            "sym_routes_checked": 0, "local_routes": 0}
    mcases, minfo = [], []
    for (lines, sym), (rc, out, err) in zip(plats, outs):
        case = {"lines": lines, "sym": [list(x) for x in sym]}
        zones, nps, local, lat, routes, bad = [], [], [], {}, {}, []
        for l in out:
            t = l.split()
            if not t:
                continue
            if t[0] == "Z":
                zones.append(t[1:5])
            elif t[0] == "N":
                nps.append(t[1:4])
            elif t[0] == "K":
                lat[t[1]] = float(t[2])
            elif t[0] == "L" and len(t) < 7:
                bad.append(l)
            elif t[0] == "L":
                local.append((t[1], t[2], t[3], float(t[4]), t[5], t[6], t[7:]))
            elif t[0] == "LX":
                pass
            elif t[0] == "R" and len(t) < 4:
                bad.append(l)
            elif t[0] == "R":
                routes[(t[1], t[2])] = ("R", float(t[3]), t[4:])
            elif t[0] == "X":
                routes[(t[1], t[2])] = ("X", " ".join(t[3:]))
            else:
                bad.append(l)
        hosts = sorted(n[0] for n in nps if n[2] == "host")
        if rc == 124:
            ctx.fail("hang", "route computation did not finish on this platform (timeout)", case)
            continue
        if rc != 0 or bad or len(routes) != len(hosts) ** 2 or not hosts:
            ctx.fail("build", "platform: driver rc=%d, %d routes for %d hosts, %s %s" % (rc, len(routes), len(hosts), bad[:2], err[-300:]), case)
            continue
        lat.setdefault("__loopback__", 0.0)
        zid = {z[0]: i for i, z in enumerate(zones)}
        nid = {n[0]: i for i, n in enumerate(nps)}
        names = sorted(lat)
        lid = {x: i for i, x in enumerate(names)}
        enc = [0, len(zones)]
        for z in zones:
            enc += [zid.get(z[1], -1), nid.get(z[2], -1), nid.get(z[3], -1)]
        enc += [len(nps)]
        for n in nps:
            enc += [zid[n[1]], 1 if n[2] == "zone" else 0]
        ents = []
        okl = True
        for (z, a, b, la, gs, gd, ls) in local:
            if la != int(la) or any(x not in lid for x in ls):
                okl = False
                continue
            ents += [zid[z], nid[a], nid[b], int(la), nid.get(gs, -1), nid.get(gd, -1), len(ls)] + [lid[x] for x in ls]
            dist["local_routes"] += 1
            # hypothesis of C24_latency_sum, checked on every local route the zones produce
            if abs(la - sum(lat[x] for x in ls)) > 1e-9:
                lims = sum(lat[x] for x in ls if "_lim" in x)
                sig = "limiter-latency-not-counted" if lims and abs(la + lims - sum(lat[x] for x in ls)) < 1e-9 else "local-latency-sum"
                ctx.fail(sig, "zone %s local route %s->%s: latency %s but its links %s have latencies summing to %s" % (
                    z, a, b, la, ls, sum(lat[x] for x in ls)), dict(case, zone=z, src=a, dst=b))
        enc += [len(local)]
        if not okl:
            ctx.fail("local-dump", "a local route has a non-integer latency or an unknown link", case)
            continue
        enc += ents
        pairs = [(a, b) for a in hosts for b in hosts]
        enc += [len(pairs)]
        for a, b in pairs:
            enc += [nid[a], nid[b]]
        mcases.append(enc)
        minfo.append((case, pairs, routes, names, lat, {n[0]: n[1] for n in nps}, {z[0]: z[1] for z in zones}))
        dist["platforms"] += 1
        dist["zones"] += len(zones)
        dist["max_hosts"] = max(dist["max_hosts"], len(hosts))
        # symmetric declared routes are used reversed (Full: table entries; Star: links_up / links_down)
        loc = {(z, a, b): ls for (z, a, b, _, _, _, ls) in local}
        for (z, a, b, toks) in sym:
            fwd = [back_name(t)[0] for t in toks]
            bwd = [back_name(t)[1] for t in reversed(toks)]
            dist["sym_routes_checked"] += 1
            if b is None:
                continue      # star up/down lists are covered by C26; here only through the composition
            if loc.get((z, a, b)) != fwd or loc.get((z, b, a)) != bwd:
                ctx.fail("symmetric-not-reversed", "zone %s: route %s->%s declared symmetrical with links %s; forward is %s, backward is %s (expected %s)" % (
                    z, a, b, fwd, loc.get((z, a, b)), loc.get((z, b, a)), bwd), dict(case, zone=z, src=a, dst=b))
    model = run_model_par("c24", "run_global", mcases, chunk=4)
    for (case, pairs, routes, names, lat, np_zone, zparent), m in zip(minfo, model):
        i = 0
        for a, b in pairs:
            if m[i] == 1:
                la, k = m[i + 1], m[i + 2]
                exp = ("R", float(la), [names[x] for x in m[i + 3:i + 3 + k]])
                i += 3 + k
            else:
                exp = ("X",)
                i += 1
            r = routes[(a, b)]
            cross = np_zone[a] != np_zone[b]
            deep = cross and (zparent.get(np_zone[a], "-") != zparent.get(np_zone[b], "-") or zparent.get(zparent.get(np_zone[a], "-"), "-") not in ("-", "_world_"))
            dist["pairs"] += 1
            dist["cross_zone_pairs"] += cross
            dist["three_level_pairs"] += bool(deep)
            ctx.case((tuple(case["lines"]), a, b), cross, {"src": a, "dst": b, "impl": r[2] if r[0] == "R" else r[1][:80],
                                                            "composition": exp[2] if exp[0] == "R" else None} if deep and r[0] == "R" and len(r[2]) > 5 else None)
            c2 = dict(case, src=a, dst=b, impl=list(r), composition=list(exp))
            if r[0] == "X" or exp[0] == "X":
                if r[0] != exp[0]:
                    ctx.fail("composition-exists", "route %s->%s: implementation %s, composition of the zones' local routes %s" % (a, b, r, exp), c2)
                continue
            if r[2] != exp[2]:
                ctx.fail("composition", "route %s->%s is %s; the concatenation of the local routes of the zones crossed (up through the "
                         "gateways, across the common ancestor, down) is %s" % (a, b, r[2], exp[2]), c2)
            elif abs(r[1] - exp[1]) > 1e-9:
                ctx.fail("composition-latency", "route %s->%s: latency %s, sum over the composed local routes %s" % (a, b, r[1], exp[1]), c2)
            s = sum(lat[x] for x in r[2])
            if abs(r[1] - s) > 1e-9:
                lims = sum(lat[x] for x in r[2] if "_lim" in x)
                sig = "limiter-latency-not-counted" if lims and abs(r[1] + lims - s) < 1e-9 else "latency-sum"
                ctx.fail(sig, "route %s->%s: latency %s but its links have latencies summing to %s" % (a, b, r[1], s), c2)
    ctx.cov["input_distribution"] = dist
    ctx.assumptions += ["no bypass routes, no Vivaldi zones in the generated platforms (not modelled)",
                        "gateways of a zone are netpoints directly inside that zone; zones that contain sub-zones and are not the top zone are "
                        "Star zones (routed zones refuse zone<->router routes, which get_interzone_route needs)",
                        "link latencies are small integers, so binary64 sums are exact"]


META = {
    "level": "proof",
    "text": "Coq theorems over every zone tree, gateway assignment and family of local routes: the route computed by the model of "
            "get_global_route_with_netzones / find_common_ancestors / get_interzone_route equals up(src) ++ route of the lowest common "
            "ancestor ++ down(dst), with up/down the local routes of the zones crossed through the gateways in travel order "
            "(C24_composition, C24_interzone_up/_down); its latency is the sum of its links' latencies when each zone's local route has "
            "that property (C24_latency_sum); a symmetrical declaration stores the reversed list for the way back "
            "(C24_symmetric_reversed). The pinned code is refuted (C24_pinned_refuted, rbegin()/rend() on the way up), reproduced on "
            "the real code and repaired. Tie: on generated 2- and 3-level platforms the extracted function, instantiated with each real "
            "zone's own get_local_route answers, must reproduce Host::route_to (links and latency) for all host pairs.",
    "note": "Not modelled: bypass routes, the Vivaldi coordinate term, Wifi/Empty zones, FatTree/Dragonfly leaves. The latency "
            "hypothesis is checked on every local route dumped; cluster zones push limiter links without adding their latency "
            "(finding limiter-latency-not-counted). Trusted: Coq kernel, extraction, routing_drv (uses private access to call "
            "get_local_route), the Python generator/encoder.",
    "technique": "Coq proof over abstract local routes + extracted-model correspondence instantiated with the zones' own answers",
    "claimed": True,
}
