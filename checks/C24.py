"""C24 — hierarchical routes are composed correctly.
Generated nested platforms (2 and 3 levels below the root, in the second batch also 4; Full/Floyd/Dijkstra/DijkstraCache/Star/Torus zones) are built
by harness/routing_drv through the C++ platform API.  One process dumps: the zone tree (parents, netpoints, default
gateways), EVERY zone's own get_local_route for all ordered pairs of its vertices, every link's latency, and
Host::route_to for all ordered host pairs.
K/O: the extracted Coq function global_route (proved equal to the declarative composition up ++ across ++ down,
   C24_composition) is instantiated with the zones' own local routes and must give exactly the link sequence and latency of
   route_to — which of several equivalent local routes a zone picks is taken from the zone itself, so only the composition is
   judged.  O also checks latency = sum of link latencies and symmetric declared routes reversed (Full and Star zones).
Bypass routes: about two platforms in three also declare zone-level bypass routes (between zones at any depth of two
   different branches below a zone, gateways anywhere inside them) and host-level ones (two netpoints of one zone); the
   driver dumps every zone's bypass_routes_ table and the extracted groute (get_bypass_route + the recursion through the
   bypass gateways, C24_bypass_composition / C24_bypass_winner) must reproduce route_to."""
import json
import fw
from routing_lib import run_platforms, run_model_par

LEAF_KINDS = ["full", "floyd", "dijkstra", "dijkstracache", "star", "torus"]
TOP_KINDS = ["full", "floyd", "dijkstra", "star"]


class Gen:
    def __init__(self, rng):
        self.rng, self.lines, self.k, self.hosts, self.sym = rng, [], 0, 0, []
        self.nest = False     # a fourth level (only in the second batch of platforms, so that the first keeps its stream)
        self.tree = {}        # zone -> dict(parent, kind, nps=[hosts and routers directly inside], children=[zones])

    def node(self, name, parent, kind, nps):
        self.tree[name] = {"parent": parent, "kind": kind, "nps": list(nps), "children": []}
        if parent in self.tree:
            self.tree[parent]["children"].append(name)

    def subtree(self, z):
        """zones of the subtree rooted at z (z first)"""
        out = [z]
        for c in self.tree[z]["children"]:
            out += self.subtree(c)
        return out

    def bypasses(self):
        """zone-level bypass routes in zones with at least two branches, host-level ones between netpoints of one zone"""
        rng, L, done = self.rng, self.lines, set()
        hubs = [z for z, t in self.tree.items() if len(t["children"]) >= 2]
        for _ in range(rng.randint(1, 4) if hubs else 0):
            c = rng.choice(hubs)
            b1, b2 = rng.sample(self.tree[c]["children"], 2)
            if rng.random() < 0.15:
                b2 = b1                                   # both keys in one branch: never looked up
            # prefer keys at unequal depths: the branch itself on one side, something deeper on the other
            x = rng.choice(self.subtree(b1)) if rng.random() < 0.5 else b1
            y = rng.choice(self.subtree(b2)) if rng.random() < 0.5 else b2
            if x == y or (c, x, y) in done:
                continue
            done.add((c, x, y))
            gs = rng.choice([n for z in self.subtree(x) for n in self.tree[z]["nps"]])
            gd = rng.choice([n for z in self.subtree(y) for n in self.tree[z]["nps"]])
            L.append("bypass %s %s %s %s %s %s" % (c, x, y, gs, gd, " ".join(self.links(c))))
        for _ in range(rng.randint(0, 2)):
            z = rng.choice(sorted(self.tree))
            nps = self.tree[z]["nps"]
            if len(nps) < 2:
                continue
            a, b = rng.sample(nps, 2)
            if (z, a, b) in done:
                continue
            done.add((z, a, b))
            lz = self.tree[z]["parent"] if self.tree[z]["kind"] == "torus" else z      # a torus zone is sealed at creation
            L.append("bypass %s %s %s - - %s" % (z, a, b, " ".join(self.links(lz))))

    def links(self, zone, n=None, split_ok=True):
        """declare n fresh links in zone; returns route tokens"""
        n = n or self.rng.choice([1, 1, 2, 2, 3])
        toks = []
        for _ in range(n):
            name = "k%d" % self.k
            self.k += 1
            split = split_ok and self.rng.random() < 0.2
            self.lines.append("link %s %s %d%s" % (name, zone, self.rng.randint(1, 50), " split" if split else ""))
            toks.append(name + (":" + self.rng.choice("UD") if split else ""))
        return toks

    def leaf(self, name, parent, kind, nh):
        """a leaf zone with nh hosts and a gateway router; returns gateway name"""
        L = self.lines
        gw = name + "_gw"
        if kind == "torus":
            dims = self.rng.choice([[2], [3], [2, 2], [3, 2], [4]])
            L.append("torus %s %s %s %d %d %s %d gw" % (name, parent, ",".join(map(str, dims)), self.rng.randint(0, 1),
                                                     self.rng.randint(0, 1), self.rng.choice(["shared", "split"]), self.rng.randint(1, 9)))
            n = 1
            for d in dims:
                n *= d
            self.hosts += n
            self.node(name, parent, "torus", ["%s_h%d" % (name, i) for i in range(n)] + [gw])
            return gw
        L.append("zone %s %s %s" % (name, parent, kind))
        hs = ["%s_h%d" % (name, i) for i in range(nh)]
        self.hosts += nh
        self.node(name, parent, kind, hs + [gw])
        for h in hs:
            L.append("host %s %s" % (h, name))
        L.append("router %s %s" % (gw, name))
        L.append("gateway %s %s" % (name, gw))
        if kind == "star":
            for h in hs:
                toks = self.links(name)
                L.append("route %s %s - - - 1 %s" % (name, h, " ".join(toks)))
                self.sym.append((name, h, None, toks))
        else:
            for h in hs:
                toks = self.links(name)
                L.append("route %s %s %s - - 1 %s" % (name, h, gw, " ".join(toks)))
                if kind == "full":
                    self.sym.append((name, h, gw, toks))
            for i in range(len(hs)):
                for j in range(i + 1, len(hs)):
                    if kind == "full" or self.rng.random() < 0.3:
                        sym = self.rng.random() < 0.7
                        toks = self.links(name)
                        L.append("route %s %s %s - - %d %s" % (name, hs[i], hs[j], 1 if sym else 0, " ".join(toks)))
                        if sym and kind == "full":
                            self.sym.append((name, hs[i], hs[j], toks))
                        if not sym and kind == "full":
                            L.append("route %s %s %s - - 0 %s" % (name, hs[j], hs[i], " ".join(self.links(name))))
        return gw

    def middle(self, name, parent, nchild, level=0):
        """a Star zone containing leaf zones (with self.nest also one more level of Star zones) and its own gateway router
        (the only kind that accepts zone<->router routes)"""
        L = self.lines
        L.append("zone %s %s star" % (name, parent))
        gw = name + "_gw"
        self.node(name, parent, "star", [gw])
        for c in range(nchild):
            cn = "%s%d" % (name, c)
            if self.nest and level == 0 and self.rng.random() < 0.3:
                cgw = self.middle(cn, name, self.rng.randint(1, 2), 1)
            else:
                cgw = self.leaf(cn, name, self.rng.choice(LEAF_KINDS), self.rng.randint(1, 3))
            toks = self.links(name)
            L.append("route %s %s - %s - 1 %s" % (name, cn, cgw, " ".join(toks)))
        if self.rng.random() < 0.5:
            h = name + "_h"
            L.append("host %s %s" % (h, name))
            self.hosts += 1
            self.tree[name]["nps"].append(h)
            L.append("route %s %s - - - 1 %s" % (name, h, " ".join(self.links(name))))
        L.append("router %s %s" % (gw, name))
        L.append("gateway %s %s" % (name, gw))
        return gw

    def top(self, kind, children):
        """children: list of (zone name, gateway)"""
        L = self.lines
        if kind == "star":
            for c, g in children:
                L.append("route T %s - %s - 1 %s" % (c, g, " ".join(self.links("T"))))
            return
        pairs = [(i, j) for i in range(len(children)) for j in range(i + 1, len(children))]
        if kind != "full":
            # a connected subset: chain + a few extras
            keep = [(i, i + 1) for i in range(len(children) - 1)] + [p for p in pairs if p[1] != p[0] + 1 and self.rng.random() < 0.3]
            pairs = keep
        for i, j in pairs:
            (c1, g1), (c2, g2) = children[i], children[j]
            sym = self.rng.random() < 0.7
            L.append("route T %s %s %s %s %d %s" % (c1, c2, g1, g2, 1 if sym else 0, " ".join(self.links("T"))))
            if not sym:
                L.append("route T %s %s %s %s 0 %s" % (c2, c1, g2, g1, " ".join(self.links("T"))))


DUMPS = ["sealall", "dumptree", "dumplinks", "dumplocal", "dumpbypass", "dump"]


def gen_platform(rng, depth3, bypass=False):
    g = Gen(rng)
    g.nest = bypass
    kind = rng.choice(TOP_KINDS)
    g.lines.append("zone T - %s" % kind)
    g.node("T", "-", kind, [])
    children = []
    for c in range(rng.randint(2, 4)):
        name = "Z%d" % c
        if depth3 and (c == 0 or rng.random() < 0.5):
            children.append((name, g.middle(name, "T", rng.randint(1, 3))))
        else:
            children.append((name, g.leaf(name, "T", rng.choice(LEAF_KINDS), rng.randint(1, 3))))
        if g.hosts > 34:
            break
    if len(children) < 2:
        children.append(("Zx", g.leaf("Zx", "T", "full", 1)))
    g.top(kind, children)
    if bypass:
        g.bypasses()
    return g.lines + DUMPS, g.sym


CORPUS = [
    # the witness of C24_pinned_refuted: Star middle zone whose route from sub-zone A to its gateway has two links
    (["zone T - full", "zone M T star", "zone A M full", "zone B T full", "host a1 A", "host a2 A", "router ga A",
      "link la A 1", "link la2 A 2", "route A a1 ga - - 1 la", "route A a2 ga - - 1 la2 la", "gateway A ga", "router gm M",
      "link m1 M 10", "link m2 M 20", "route M A - ga - 1 m1 m2", "gateway M gm", "host b1 B", "router gb B", "link lb B 3",
      "route B b1 gb - - 1 lb", "gateway B gb", "link r1 T 100", "link r2 T 200", "route T M B gm gb 1 r1 r2",
      "sealall", "dumptree", "dumplinks", "dumplocal", "dump"], [("A", "a2", "ga", ["la2", "la"])]),
    # bypass routes with endpoints at unequal depths: hA1 sits two zones below T, hB/hB2 one.  Keys A->B and B->A are index
    # pairs (1,0)/(0,1) of the search; A1->C1 (0,0) wins over A->C1 (1,0) and A->C (1,1); B is a Dijkstra zone (its local
    # route is built backwards: must still come AFTER the bypass links); a host-level bypass inside B
    (["zone T - full",
      "zone A T star", "zone A1 A full", "host hA1 A1", "router rA1 A1", "link lA1 A1 1", "route A1 hA1 rA1 - - 1 lA1", "gateway A1 rA1",
      "router rA A", "link lAA A 2", "route A A1 - rA1 - 1 lAA", "gateway A rA",
      "zone B T dijkstra", "host hB B", "host hB2 B", "router rB B", "link lB B 3", "link lB2 B 4", "route B hB rB - - 1 lB",
      "route B hB2 hB - - 1 lB2", "gateway B rB",
      "zone C T star", "zone C1 C floyd", "host hC1 C1", "router rC1 C1", "link lC1 C1 5", "route C1 hC1 rC1 - - 1 lC1", "gateway C1 rC1",
      "router rC C", "link lCC C 6", "route C C1 - rC1 - 1 lCC", "gateway C rC",
      "link lAB T 10", "link lAC T 11", "link lBC T 12", "route T A B rA rB 1 lAB", "route T A C rA rC 1 lAC", "route T B C rB rC 1 lBC",
      "link fAB T 20", "link fBA T 21", "link fA1C1 T 22", "link fAC1 T 23", "link fAC T 24", "link fCB T 25", "link fh B 26",
      "bypass T A B rA rB fAB", "bypass T B A rB rA1 fBA", "bypass T A1 C1 rA1 hC1 fA1C1", "bypass T A C1 rA rC1 fAC1",
      "bypass T A C rA rC fAC", "bypass T C B rC hB2 fCB", "bypass B hB hB2 - - fh"] + DUMPS, []),
]


def back_name(tok):
    if ":" in tok:
        n, d = tok.split(":")
        return n + ("_UP" if d == "U" else "_DOWN"), n + ("_DOWN" if d == "U" else "_UP")
    return tok, tok


def run(ctx):
    ctx.simgrid(["simgrid"])
    ctx.prove()
    drv = fw.build_harness("routing_drv")
    ctx.cov["rule"] = ("one case = one ordered host pair of one generated platform; non-trivial = the two hosts are in different zones "
                       "(the route crosses at least one gateway); distinct = distinct (platform, pair)")
    if ctx.replay:
        rp = json.load(open(ctx.replay))["case"]
        plats = [(rp["lines"], [tuple(x) for x in rp.get("sym", [])])]
    else:
        plats = list(CORPUS)
        for i in range(ctx.n(60, 800)):
            plats.append(gen_platform(ctx.rng, i % 3 != 0))
        for i in range(ctx.n(50, 700)):
            plats.append(gen_platform(ctx.rng, i % 4 != 0, bypass=True))
    outs = run_platforms(drv, [p[0] for p in plats])
    dist = {"platforms": 0, "pairs": 0, "cross_zone_pairs": 0, "three_level_pairs": 0, "zones": 0, "max_hosts": 0,
            "sym_routes_checked": 0, "local_routes": 0, "platforms_with_bypass": 0, "bypass_routes": 0,
            "bypass_routes_host_level": 0, "pairs_using_bypass": 0, "pairs_using_bypass_unequal_depth": 0,
            "pairs_using_two_bypasses": 0}
    mcases, minfo = [], []
    for (lines, sym), (rc, out, err) in zip(plats, outs):
        case = {"lines": lines, "sym": [list(x) for x in sym]}
        zones, nps, local, lat, routes, bad, byp = [], [], [], {}, {}, [], []
        for l in out:
            t = l.split()
            if not t:
                continue
            if t[0] == "Z":
                zones.append(t[1:5])
            elif t[0] == "N":
                nps.append(t[1:4])
            elif t[0] == "K":
                lat[t[1]] = float(t[2])
            elif t[0] == "L" and len(t) < 7:
                bad.append(l)
            elif t[0] == "L":
                local.append((t[1], t[2], t[3], float(t[4]), t[5], t[6], t[7:]))
            elif t[0] == "LX":
                pass
            elif t[0] == "P" and len(t) >= 8:
                byp.append((t[1], t[2], t[3], float(t[4]), t[5], t[6], t[7:]))
            elif t[0] == "R" and len(t) < 4:
                bad.append(l)
            elif t[0] == "R":
                routes[(t[1], t[2])] = ("R", float(t[3]), t[4:])
            elif t[0] == "X":
                routes[(t[1], t[2])] = ("X", " ".join(t[3:]))
            else:
                bad.append(l)
        hosts = sorted(n[0] for n in nps if n[2] == "host")
        if rc == 124:
            ctx.fail("hang", "route computation did not finish on this platform (timeout)", case)
            continue
        if rc != 0 or bad or len(routes) != len(hosts) ** 2 or not hosts:
            ctx.fail("build", "platform: driver rc=%d, %d routes for %d hosts, %s %s" % (rc, len(routes), len(hosts), bad[:2], err[-300:]), case)
            continue
        lat.setdefault("__loopback__", 0.0)
        zid = {z[0]: i for i, z in enumerate(zones)}
        nid = {n[0]: i for i, n in enumerate(nps)}
        names = sorted(lat)
        lid = {x: i for i, x in enumerate(names)}
        # zones whose get_local_route inserts in front of the list it is given (only used by the model of the pinned code)
        zkind = {t[1]: t[3] for t in (l.split() for l in lines) if t and t[0] == "zone" and len(t) > 3}
        enc = [0, len(zones)]
        for z in zones:
            enc += [zid.get(z[1], -1), nid.get(z[2], -1), nid.get(z[3], -1), 1 if zkind.get(z[0], "").startswith("dijkstra") else 0]
        enc += [len(nps)]
        for n in nps:
            enc += [zid[n[1]], 1 if n[2] == "zone" else 0]
        ents = []
        okl = True
        for (z, a, b, la, gs, gd, ls) in local:
            if la != int(la) or any(x not in lid for x in ls):
                okl = False
                continue
            ents += [zid[z], nid[a], nid[b], int(la), nid.get(gs, -1), nid.get(gd, -1), len(ls)] + [lid[x] for x in ls]
            dist["local_routes"] += 1
            # hypothesis of C24_latency_sum, checked on every local route the zones produce
            if abs(la - sum(lat[x] for x in ls)) > 1e-9:
                lims = sum(lat[x] for x in ls if "_lim" in x)
                sig = "limiter-latency-not-counted" if lims and abs(la + lims - sum(lat[x] for x in ls)) < 1e-9 else "local-latency-sum"
                ctx.fail(sig, "zone %s local route %s->%s: latency %s but its links %s have latencies summing to %s" % (
                    z, a, b, la, ls, sum(lat[x] for x in ls)), dict(case, zone=z, src=a, dst=b))
        enc += [len(local)]
        if not okl:
            ctx.fail("local-dump", "a local route has a non-integer latency or an unknown link", case)
            continue
        enc += ents
        # the bypass tables, as dumped from the zones: same entry layout
        bents, okb = [], True
        for (z, a, b, la, gs, gd, ls) in byp:
            if la != int(la) or any(x not in lid for x in ls) or a not in nid or b not in nid or z not in zid:
                okb = False
                continue
            bents += [zid[z], nid[a], nid[b], int(la), nid.get(gs, -1), nid.get(gd, -1), len(ls)] + [lid[x] for x in ls]
        if not okb:
            ctx.fail("bypass-dump", "a bypass route has a non-integer latency or an unknown link/netpoint", case)
            continue
        enc += [len(byp)] + bents
        declared = sum(1 for l in lines if l.startswith("bypass "))
        if declared != len(byp):
            ctx.fail("bypass-table", "%d bypass routes declared, the zones' tables hold %d: %s" % (declared, len(byp), byp[:3]), case)
            continue
        dist["platforms_with_bypass"] += bool(byp)
        dist["bypass_routes"] += len(byp)
        dist["bypass_routes_host_level"] += sum(1 for x in byp if x[5] == "-")
        pairs = [(a, b) for a in hosts for b in hosts]
        enc += [len(pairs)]
        for a, b in pairs:
            enc += [nid[a], nid[b]]
        mcases.append(enc)
        minfo.append((case, pairs, routes, names, lat, {n[0]: n[1] for n in nps}, {z[0]: z[1] for z in zones},
                      [set(x[6]) for x in byp]))
        dist["platforms"] += 1
        dist["zones"] += len(zones)
        dist["max_hosts"] = max(dist["max_hosts"], len(hosts))
        # symmetric declared routes are used reversed (Full: table entries; Star: links_up / links_down)
        loc = {(z, a, b): ls for (z, a, b, _, _, _, ls) in local}
        for (z, a, b, toks) in sym:
            fwd = [back_name(t)[0] for t in toks]
            bwd = [back_name(t)[1] for t in reversed(toks)]
            dist["sym_routes_checked"] += 1
            if b is None:
                continue      # star up/down lists are covered by C26; here only through the composition
            if loc.get((z, a, b)) != fwd or loc.get((z, b, a)) != bwd:
                ctx.fail("symmetric-not-reversed", "zone %s: route %s->%s declared symmetrical with links %s; forward is %s, backward is %s (expected %s)" % (
                    z, a, b, fwd, loc.get((z, a, b)), loc.get((z, b, a)), bwd), dict(case, zone=z, src=a, dst=b))
    model = run_model_par("c24", "run_global_bp", mcases, chunk=4)
    for (case, pairs, routes, names, lat, np_zone, zparent, bplinks), m in zip(minfo, model):
        i = 0

        def zdepth(z):
            d = 0
            while z in zparent:
                z, d = zparent[z], d + 1
            return d
        for a, b in pairs:
            if m[i] == 1:
                la, k = m[i + 1], m[i + 2]
                exp = ("R", float(la), [names[x] for x in m[i + 3:i + 3 + k]])
                i += 3 + k
            else:
                exp = ("X",)
                i += 1
            r = routes[(a, b)]
            cross = np_zone[a] != np_zone[b]
            deep = cross and (zparent.get(np_zone[a], "-") != zparent.get(np_zone[b], "-") or zparent.get(zparent.get(np_zone[a], "-"), "-") not in ("-", "_world_"))
            dist["pairs"] += 1
            dist["cross_zone_pairs"] += cross
            dist["three_level_pairs"] += bool(deep)
            used = sum(1 for bl in bplinks if r[0] == "R" and bl & set(r[2])) if bplinks else 0
            dist["pairs_using_bypass"] += used > 0
            dist["pairs_using_two_bypasses"] += used > 1
            dist["pairs_using_bypass_unequal_depth"] += used > 0 and zdepth(np_zone[a]) != zdepth(np_zone[b])
            ctx.case((tuple(case["lines"]), a, b), cross, {"src": a, "dst": b, "impl": r[2] if r[0] == "R" else r[1][:80],
                                                            "composition": exp[2] if exp[0] == "R" else None} if deep and r[0] == "R" and len(r[2]) > 5 else None)
            c2 = dict(case, src=a, dst=b, impl=list(r), composition=list(exp))
            if r[0] == "X" or exp[0] == "X":
                if r[0] != exp[0]:
                    ctx.fail("composition-exists", "route %s->%s: implementation %s, composition of the zones' local routes %s" % (a, b, r, exp), c2)
                continue
            if r[2] != exp[2]:
                ctx.fail("composition", "route %s->%s is %s; the concatenation of the local routes of the zones crossed (up through the "
                         "gateways, across the common ancestor, down) is %s" % (a, b, r[2], exp[2]), c2)
            elif abs(r[1] - exp[1]) > 1e-9:
                ctx.fail("composition-latency", "route %s->%s: latency %s, sum over the composed local routes %s" % (a, b, r[1], exp[1]), c2)
            s = sum(lat[x] for x in r[2])
            if abs(r[1] - s) > 1e-9:
                lims = sum(lat[x] for x in r[2] if "_lim" in x)
                sig = "limiter-latency-not-counted" if lims and abs(r[1] + lims - s) < 1e-9 else "latency-sum"
                ctx.fail(sig, "route %s->%s: latency %s but its links have latencies summing to %s" % (a, b, r[1], s), c2)
    ctx.cov["input_distribution"] = dist
    ctx.assumptions += ["no Vivaldi zones in the generated platforms (not modelled)",
                        "bypass routes: the gateways of a zone-level bypass X->Y are netpoints inside X resp. Y (so the recursion through "
                        "get_bypass_route descends); keys are zone netpoints or, host-level, two netpoints of the declaring zone",
                        "gateways of a zone are netpoints directly inside that zone; zones that contain sub-zones and are not the top zone are "
                        "Star zones (routed zones refuse zone<->router routes, which get_interzone_route needs)",
                        "link latencies are small integers, so binary64 sums are exact"]


META = {
    "level": "proof",
    "text": "Coq theorems over every zone tree, gateway assignment and family of local routes: the route computed by the model of "
            "get_global_route_with_netzones / find_common_ancestors / get_interzone_route equals up(src) ++ route of the lowest common "
            "ancestor ++ down(dst), with up/down the local routes of the zones crossed through the gateways in travel order "
            "(C24_composition, C24_interzone_up/_down); its latency is the sum of its links' latencies when each zone's local route has "
            "that property (C24_latency_sum); a symmetrical declaration stores the reversed list for the way back "
            "(C24_symmetric_reversed). Bypass routes (Routing/Bypass.v mirrors get_bypass_route: host-level key when both endpoints sit "
            "in the common ancestor, else the two chains of zones below it, the (i,j) search up to the LONGER chain, the recursion "
            "through the bypass gateways): for every bypass table the search returns the declared pair of least rank - smallest "
            "max(i,j), then (0,m) (m,0) (1,m) (m,1) .. (m,m) - and never misses a declared pair whatever the two depths "
            "(C24_bypass_winner, C24_bypass_never_missed); the route is sound and complete for the fuel-free declarative route_spec = "
            "C24_composition when no bypass applies, else route(src -> bypass source gateway) ++ bypass links ++ route(bypass "
            "destination gateway -> dst), recursively (C24_bypass_composition, _complete); with no bypass declared it is the route of "
            "C24_composition (C24_bypass_none_declared); latency = sum of link latencies (C24_bypass_latency_sum). Two defects of the "
            "pinned code are refuted in Coq, reproduced on the real code and repaired: rbegin()/rend() on the way up "
            "(C24_pinned_refuted) and the local route that completes a bypass inside a Dijkstra zone being put in front of the "
            "links found before (C24_bypass_pinned_refuted, witness with endpoints at unequal depths). Tie: on generated 2-, 3- and "
            "4-level platforms (about half of them with zone-level bypass routes between zones at any depth of two branches and "
            "host-level ones; a corpus platform with endpoints at unequal depths) the extracted groute, instantiated with each real "
            "zone's own get_local_route answers and bypass_routes_ table, must reproduce Host::route_to (links and latency) for all "
            "host pairs.",
    "note": "Not modelled: the Vivaldi coordinate term, Wifi/Empty zones, FatTree/Dragonfly leaves, the early exit of "
            "get_bypass_route on an empty table (no lookup can succeed then). The recursion through bypass gateways is fuelled; "
            "soundness holds for any fuel and completeness for all large enough fuel; the run uses 2*zones+4. Generated bypass "
            "gateways lie inside the keyed zones. The latency hypothesis is checked on every local route dumped; cluster zones push "
            "limiter links without adding their latency (finding limiter-latency-not-counted). Trusted: Coq kernel, extraction, "
            "routing_drv (private access to get_local_route and bypass_routes_), the Python generator/encoder. Mutants "
            "(corpus/C24/mutants): m1 up segments reversed, m2 down segments in front, m3 revert of fix 55e64c69b6, m4 bypass links "
            "before the way up, m5 search skips (0,0), m6 last hop of the way down in front, seeded min-instead-of-max loop bound "
            "all fire (m2 only differs from 4 levels on: the second batch nests one more Star level); harmless h1 larger loop "
            "bound, h2 reordered tests stay quiet.",
    "technique": "Coq proof over abstract local routes and bypass tables + extracted-model correspondence instantiated with the zones' own answers",
    "claimed": True,
}
