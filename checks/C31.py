"""C31 — predefined reduction operators compute MPI results.
T: gen/ops.py regenerates Gen/OpTable.v (datatype declarations, operator families, dispatch chains) from smpi_op.cpp and
   smpi_datatype.cpp; Properties_C31.v re-proves the finite table theorems over it.
K/O: harness/smpi_c31.cpp (MPI_Reduce_local, -np 1) on EVERY (operator, datatype) pair of the tables with extreme and random
   values, buffers laid out with the C type an MPI user associates with the datatype; the result must equal the extracted
   model's (element-wise MPI semantics proved in Coq), a pair MPI supports must not be rejected, a pair MPI does not support
   must be rejected."""
import importlib.util, json, os
import fw

# the MPI user's view of each datatype: ("int", bits, signed) | ("bool",) | ("fp",) | ("cplx",) | ("pair", value kind, index kind)
I = lambda b, s: ("int", b, s)
FP, BOOL, CPLX = ("fp",), ("bool",), ("cplx",)
USER = {
    "MPI_DOUBLE": FP, "MPI_INT": I(32, 1), "MPI_CHAR": I(8, 1), "MPI_SHORT": I(16, 1), "MPI_LONG": I(64, 1), "MPI_FLOAT": FP,
    "MPI_BYTE": I(8, 0), "MPI_LONG_LONG": I(64, 1), "MPI_SIGNED_CHAR": I(8, 1), "MPI_UNSIGNED_CHAR": I(8, 0),
    "MPI_UNSIGNED_SHORT": I(16, 0), "MPI_UNSIGNED": I(32, 0), "MPI_UNSIGNED_LONG": I(64, 0), "MPI_UNSIGNED_LONG_LONG": I(64, 0),
    "MPI_LONG_DOUBLE": FP, "MPI_WCHAR": I(32, 1), "MPI_C_BOOL": BOOL, "MPI_INT8_T": I(8, 1), "MPI_INT16_T": I(16, 1),
    "MPI_INT32_T": I(32, 1), "MPI_INT64_T": I(64, 1), "MPI_UINT8_T": I(8, 0), "MPI_UINT16_T": I(16, 0), "MPI_UINT32_T": I(32, 0),
    "MPI_UINT64_T": I(64, 0), "MPI_C_FLOAT_COMPLEX": CPLX, "MPI_C_DOUBLE_COMPLEX": CPLX, "MPI_C_LONG_DOUBLE_COMPLEX": CPLX,
    "MPI_AINT": I(64, 1), "MPI_OFFSET": I(64, 1), "MPI_FLOAT_INT": ("pair", FP, I(32, 1)), "MPI_LONG_INT": ("pair", I(64, 1), I(32, 1)),
    "MPI_DOUBLE_INT": ("pair", FP, I(32, 1)), "MPI_SHORT_INT": ("pair", I(16, 1), I(32, 1)), "MPI_2INT": ("pair", I(32, 1), I(32, 1)),
    "MPI_2FLOAT": ("pair", FP, FP), "MPI_2DOUBLE": ("pair", FP, FP), "MPI_2LONG": ("pair", I(64, 1), I(64, 1)), "MPI_REAL": FP,
    "MPI_REAL4": FP, "MPI_REAL8": FP, "MPI_REAL16": FP, "MPI_COMPLEX8": CPLX, "MPI_COMPLEX16": CPLX, "MPI_COMPLEX32": CPLX,
    "MPI_INTEGER1": I(8, 1), "MPI_INTEGER2": I(16, 1), "MPI_INTEGER4": I(32, 1), "MPI_INTEGER8": I(64, 1),
    "MPI_INTEGER16": ("pair", I(64, 1), I(64, 1)), "MPI_LONG_DOUBLE_INT": ("pair", FP, I(32, 1)), "MPI_CXX_BOOL": BOOL,
    "MPI_CXX_FLOAT_COMPLEX": CPLX, "MPI_CXX_DOUBLE_COMPLEX": CPLX, "MPI_CXX_LONG_DOUBLE_COMPLEX": CPLX, "MPI_COUNT": I(64, 1),
    "MPI_PACKED": I(8, 1), "MPI_PTR": None,
}


def rng_of(k):
    if k[0] == "int" and k[1] == 64 and not k[2]:
        return (0, (1 << 63) - 1)          # the case file carries signed 64-bit numbers; results are compared modulo 2^64
    if k[0] == "int":
        return (-(1 << (k[1] - 1)), (1 << (k[1] - 1)) - 1) if k[2] else (0, (1 << k[1]) - 1)
    if k[0] == "bool":
        return (0, 1)
    return (-100, 100)


def draw(rng, k):
    lo, hi = rng_of(k)
    x = rng.random()
    if x < 0.35:
        return rng.choice([lo, hi, 0, 1, max(lo, -1), hi - 1, lo + 1])
    if x < 0.7:
        return rng.randint(max(lo, -9), min(hi, 9))
    return rng.randint(lo, hi)


def fits(k, z):
    lo, hi = rng_of(k)
    return lo <= z <= hi


def gen_elems(rng, op, k, n):
    """n pairs (a, b) of elements (v, i); signed overflow (undefined in C) is avoided and counted by the caller"""
    A, Bv, skipped = [], [], 0
    for _ in range(n):
        for _try in range(40):
            if k[0] == "pair":
                a = (draw(rng, k[1]), rng.randint(0, 5) if k[2][0] == "int" else rng.randint(-5, 5))
                b = (a[0] if rng.random() < 0.4 else draw(rng, k[1]), rng.randint(0, 5))
                if op in ("MPI_SUM", "MPI_PROD"):
                    a = (rng.randint(-30, 30), rng.randint(-30, 30))
                    b = (rng.randint(-30, 30), rng.randint(-30, 30))
            elif k[0] == "cplx":
                a = (rng.randint(-30, 30), rng.randint(-30, 30))
                b = (rng.randint(-30, 30), rng.randint(-30, 30))
            else:
                a, b = (draw(rng, k), 0), (draw(rng, k), 0)
                if k[0] == "int" and k[2] and op in ("MPI_SUM", "MPI_PROD"):
                    r = a[0] + b[0] if op == "MPI_SUM" else a[0] * b[0]
                    if not fits(k, r):
                        skipped += 1
                        continue
            break
        else:
            a, b = (1, 0), (1, 0)
        A.append(a)
        Bv.append(b)
    return A, Bv, skipped


def run(ctx):
    ctx.simgrid(["simgrid", "smpimain"])
    spec = importlib.util.spec_from_file_location("gen_ops", os.path.join(fw.ROOT, "gen", "ops.py"))
    gen = importlib.util.module_from_spec(spec)
    spec.loader.exec_module(gen)
    dts, ops, funcs, changed = gen.write(fw.REPO, fw.COQ)
    ctx.notes.append("Gen/OpTable.v regenerated from %s (%d datatypes, %d operators, %d functions)%s"
                     % (fw.REPO, len(dts), len(ops), len(funcs), ", content changed" if changed else ""))
    # the extracted model embeds the generated tables: rebuild it whenever their content differs from what it was built from
    # (file dates alone are not enough when the Coq tree is a restored copy, as under bin/mutcheck)
    import hashlib
    h = hashlib.sha1(b"".join(open(os.path.join(fw.COQ, "theories", x), "rb").read() for x in ("Gen/OpTable.v", "Smpi/Op.v"))).hexdigest()
    md = os.path.join(fw.B, "ocaml", "c31")
    os.makedirs(md, exist_ok=True)
    hp = os.path.join(md, "tables.sha")
    if not os.path.exists(hp) or open(hp).read() != h:
        if os.path.exists(os.path.join(md, "c31")):
            os.remove(os.path.join(md, "c31"))
        open(hp, "w").write(h)
    ctx.prove(["coq/theories/Extract_c31.v uses ExtrOcamlString (standard library) so that the generated string tables extract to char lists",
               "gen/ops.py (regular-expression reading of the macro tables of smpi_op.cpp and smpi_datatype.cpp)"])
    prog = fw.build_smpi_prog("smpi_c31", lang="cpp")
    rng = ctx.rng
    opn = [o[0] for o in ops]
    dtn = [d[0] for d in dts]
    cases = []     # (op, dt, n, A, B)
    skipped = 0
    if ctx.replay:
        rp = json.load(open(ctx.replay))["case"]
        cases = [(rp["op"], rp["dt"], len(rp["a"]), [tuple(x) for x in rp["a"]], [tuple(x) for x in rp["b"]])]
    else:
        corpus = [("MPI_PROD", "MPI_COMPLEX16", 2, [(0, 1), (2, 3)], [(0, 1), (4, -5)]),
                  ("MPI_PROD", "MPI_COMPLEX8", 1, [(1, 2)], [(3, 4)]),
                  ("MPI_MAX", "MPI_INTEGER1", 4, [(1, 0), (-2, 0), (3, 0), (-4, 0)], [(-1, 0), (2, 0), (-3, 0), (4, 0)]),
                  ("MPI_SUM", "MPI_CXX_DOUBLE_COMPLEX", 1, [(1, 2)], [(3, 4)]),
                  ("MPI_LAND", "MPI_CXX_BOOL", 2, [(1, 0), (1, 0)], [(1, 0), (0, 0)]),
                  ("MPI_MINLOC", "MPI_2INT", 3, [(3, 7), (3, 2), (1, 9)], [(3, 2), (3, 7), (2, 0)]),
                  ("MPI_MAXLOC", "MPI_DOUBLE_INT", 2, [(5, 4), (5, 1)], [(5, 1), (6, 9)]),
                  ("MPI_SUM", "MPI_UNSIGNED_CHAR", 1, [(200, 0)], [(100, 0)]),
                  ("MPI_SUM", "MPI_COMPLEX32", 1, [(1, 2)], [(3, 4)]),
                  ("MPI_BXOR", "MPI_INT8_T", 1, [(-128, 0)], [(127, 0)]),
                  ("MPI_BAND", "MPI_DOUBLE", 1, [(1, 0)], [(1, 0)]),
                  ("MPI_MAX", "MPI_C_BOOL", 1, [(1, 0)], [(0, 0)]),
                  ("MPI_REPLACE", "MPI_INT", 1, [(1, 0)], [(2, 0)])]
        cases += [c for c in corpus if c[0] in opn and c[1] in dtn]
        reps = ctx.n(3, 40)
        for o in opn:
            for d in dtn:
                k = USER.get(d)
                if k is None:
                    continue
                for _ in range(reps):
                    n = rng.choice([1, 1, 2, 3, 5])
                    A, Bv, sk = gen_elems(rng, o, k, n)
                    skipped += sk
                    cases.append((o, d, n, A, Bv))
    ctx.cov["rule"] = ("every (operator, datatype) pair of the regenerated tables (%d x %d), %s samples each of 1..5 elements: extremes of the "
                       "user's C type, small values, random values; ties in value for MINLOC/MAXLOC; floating point and complex restricted to "
                       "small integers (exact); signed SUM/PROD overflow excluded (undefined in C). non-trivial = the pair is accepted; "
                       "distinct = distinct (op, datatype, values)" % (len(opn), len(dtn), "3" if ctx.quick else "40"))
    flat = lambda l: [x for e in l for x in e]
    minp = [[1, opn.index(o), dtn.index(d), n] + flat(A) + flat(Bv) for o, d, n, A, Bv in cases]
    model = fw.run_model("c31", "run_c31", minp)
    pairs = sorted(set((o, d) for o, d, _, _, _ in cases))
    info = dict(zip(pairs, fw.run_model("c31", "run_c31_info", [[opn.index(o), dtn.index(d)] for o, d in pairs])))
    os.makedirs(os.path.join(fw.B, "run"), exist_ok=True)
    normal = [i for i, m in enumerate(model) if m != [2]]
    aborting = [i for i, m in enumerate(model) if m == [2]]
    cf = os.path.join(fw.B, "run", "c31_cases_%d.txt" % os.getpid())

    def line(i):
        o, d, n, A, Bv = cases[i]
        return "%s %s %d %s\n" % (o, d, n, " ".join(map(str, flat(A) + flat(Bv))))

    def case_of(i):
        o, d, n, A, Bv = cases[i]
        return {"op": o, "dt": d, "a": A, "b": Bv}

    open(cf, "w").write("".join(line(i) for i in normal))
    rc, so, se = fw.smpirun(prog, 1, [cf], timeout=1200)
    res = {}
    for l in so.split("\n"):
        t = l.split()
        if len(t) >= 2 and t[0].isdigit() and t[1] in "VRU":
            res[int(t[0])] = (t[1], [int(x) for x in t[2:]])
    dist = {"cases": len(cases), "accepted": 0, "rejected": 0, "aborting_pairs_run": 0, "signed_overflow_samples_skipped": skipped,
            "unknown_to_harness": 0}
    if rc != 0:
        j = min(len(res), len(normal) - 1)
        o, d = cases[normal[j]][:2]
        sig = ("accepted-then-abort" if info[(o, d)][3] == 1 else "accepted-then-abort-new") if info[(o, d)][0] == 1 and info[(o, d)][5] == 0 else "driver-crash"
        ctx.fail(sig, "smpi_c31 died (rc=%d) on %s %s: %s" % (rc, o, d, se[-300:]), case_of(normal[j]))
    for j, i in enumerate(normal):
        o, d, n, A, Bv = cases[i]
        m = model[i]
        inf = info[(o, d)]
        r = res.get(j)
        if r is None:
            continue
        kind, vals = r
        if USER.get(d) == ("int", 64, 0):
            vals = [v + (1 << 64) if v < 0 else v for v in vals]
        if kind == "U":
            dist["unknown_to_harness"] += 1
            continue
        ctx.case((o, d, A, Bv), kind == "V", {"op": o, "dt": d, "a": A, "b": Bv, "impl": vals, "mpi": m[1:]} if kind == "V" and len(ctx.cov["samples"]) < 6 and n > 1 else None)
        if kind == "V":
            dist["accepted"] += 1
            if inf[1] == 0:
                ctx.fail("accepts-unsupported" if inf[2] == 1 else "accepts-unsupported-new", "%s on %s is accepted, MPI-3.1 5.9.2 does not allow it" % (o, d), case_of(i))
            if m[0] == 0 and vals != m[1:]:
                sig = "wrong-size" if inf[4] == 1 else "result-" + o[4:].lower()
                ctx.fail(sig, "%s on %s, in=%s inout=%s: implementation %s, MPI (verified) %s" % (o, d, A, Bv, vals, m[1:]), case_of(i))
            elif m[0] == 1:
                ctx.mismatch("tables", "%s on %s accepted by the library, rejected by the model of CHECK_OP" % (o, d), case_of(i))
        else:
            dist["rejected"] += 1
            if inf[1] == 1:
                ctx.fail("rejects-supported", "%s on %s is rejected, MPI-3.1 5.9.2 allows it" % (o, d), case_of(i))
            elif m[0] == 0:
                ctx.mismatch("tables", "%s on %s rejected by the library, accepted by the model of CHECK_OP" % (o, d), case_of(i))
    # pairs accepted by CHECK_OP that have no entry in the dispatch chain: each in its own run
    seen = set()
    for i in aborting:
        o, d = cases[i][:2]
        if (o, d) in seen or (ctx.quick and len(seen) >= 2):
            continue
        seen.add((o, d))
        dist["aborting_pairs_run"] += 1
        open(cf, "w").write(line(i))
        rc, so, se = fw.smpirun(prog, 1, [cf], timeout=300)
        ctx.case((o, d, "abort"), True)
        if rc != 0 or " V" not in so:
            ctx.fail("accepted-then-abort" if info[(o, d)][3] == 1 else "accepted-then-abort-new", "%s on %s passes CHECK_OP but has no entry in the dispatch chain: the simulation aborts (rc=%d)" % (o, d, rc), case_of(i))
    os.remove(cf)
    ctx.cov["input_distribution"] = dist
    ctx.assumptions += ["LP64 x86-64 C types; floating-point and complex operands are small integers (the machine operations are exact on them); "
                        "signed integer overflow in SUM/PROD is undefined behaviour in C and not exercised",
                        "only MPI_Reduce_local is driven (MPI_Allreduce applies the same Op::apply element-wise; the collective algorithms are C29's)",
                        "MPI_REPLACE / MPI_NO_OP are RMA-only operators: CHECK_OP rejects them here (their RMA use belongs to C34)"]


META = {
    "level": "proof",
    "text": "Translator gen/ops.py regenerates the datatype declarations, operator families and dispatch chains from smpi_op.cpp/smpi_datatype.cpp; "
            "over the regenerated tables Coq proves (finite, vm_compute + forallb_forall): every dispatch entry uses the declared C type "
            "(C31_table_types); the accepted pairs are exactly MPI-3.1's allowed pairs plus a listed set of extensions (C31_supported_iff); every "
            "accepted pair is dispatched to its own operator's macro on a known C type, except the listed aborting pairs "
            "(C31_accepted_dispatched); every datatype is declared with a C type of the width/signedness/shape MPI gives it (C31_declared_kinds) and sized datatypes have the mandated size except MPI_COMPLEX32 (C31_sizes). The model computes values with the operator's own macro on MPI's C type for the datatype name, so a wrong dispatch entry shows as a wrong result. For all values Coq proves the "
            "element macros compute MPI's results: MAX/MIN (C31_max_min), SUM/PROD modulo 2^w in the type's range and exact when representable "
            "(C31_sum_wraps, C31_prod_wraps), logical and bitwise operators (C31_logical, C31_bitwise), MINLOC/MAXLOC with ties on the lowest "
            "index (C31_minloc_lowest_index, C31_maxloc_lowest_index), complex sum/product (C31_complex; the pinned component-wise product is "
            "refuted by C31_prod_complex_pinned_refuted and was repaired). Tied to the rebuilt library by MPI_Reduce_local on every pair of the "
            "tables with buffers laid out as an MPI user would.",
    "note": "Trusted: Coq kernel, extraction (ExtrOcamlBasic + ExtrOcamlString), gen/ops.py, the C++ harness and checks/C31.py (including its "
            "table of user C types). Floating-point/complex operands are restricted to small integers; no rounding behaviour is claimed. "
            "Recorded findings: extensions accepted beyond MPI (MPI_CHAR, logical operators on floating point), MPI_INTEGER16 accepted then "
            "aborts, MPI_COMPLEX32 declared as two doubles.",
    "technique": "source-to-Coq table translator + Coq proof (finite tables by computation, element semantics by lia) + extracted-model correspondence",
    "claimed": True,
}
