"""C13 — workflow dependencies are respected.
K: random workflow scripts (create / add_successor / remove_successor / assign / start / run_until / run) executed by
   harness/eng2_dag.cpp through the S4U activity API of the rebuilt library — and, for a second stream, DAGs written
   to JSON (wfformat) and DAX files and loaded by create_DAG_from_json / create_DAG_from_DAX — against the extracted
   Coq model (Kernel/Dag.v): per-activity state, start date, finish date, final clock, exactly (dyadic durations on
   dedicated resources, so every date is an exact binary64 number).
O: the verified trace monitor (Dag.monitor, C13_monitor_sound) on the implementation's own log of script operations and
   on_start/on_completion signals: every start signal must come after the assignment and after the completion signal
   of every predecessor declared so far, and carry the date max(latest predecessor completion, assignment, first
   start request)."""
import json, os, subprocess, tempfile
from concurrent.futures import ThreadPoolExecutor
from fractions import Fraction
import fw

TICK = 10
SP = 1 << 20
ST = {"INITED": 0, "STARTING": 1, "STARTED": 2, "FAILED": 3, "CANCELED": 4, "FINISHED": 5, "NONE": 0}
OPC = {"C": 0, "A": 1, "R": 2, "G": 3, "S": 4, "U": 5, "X": 6}          # script ops are tuples ("C",kind,dur) ("A",a,b) ...
VERDICT = {1: "start-unassigned", 2: "start-before-predecessor-finished", 3: "start-date-not-max"}


def enc_ops(ops):
    out = []
    for o in ops:
        out += [OPC[o[0]]] + list(o[1:])
    return out


# ------------------------------------------------------------------------------------------------ generators

def gen_dag(rng, n, allow_kinds=True):
    """random DAG on n nodes: hidden topological order, edge density drawn per case"""
    order = list(range(n))
    rng.shuffle(order)
    p = rng.choice([0.05, 0.1, 0.2, 0.4, 0.7])
    edges = []
    for i in range(n):
        for j in range(i + 1, n):
            if rng.random() < p and len(edges) < 80:
                edges.append((order[i], order[j]))
    rng.shuffle(edges)
    kinds = [rng.choice([0, 0, 0, 1, 2]) if allow_kinds else 0 for _ in range(n)]
    durs = []
    for k in kinds:
        d = rng.choice([1, 2, 3, 5, 8, 16, 100, 256, 512, 1024, 1536, 2048, rng.randint(1, 4096)])
        if k == 0 and rng.random() < 0.06:
            d = 0
        durs.append(d)
    return edges, kinds, durs


def gen_api(rng):
    n = rng.choice([1, 2, 3, 4, 5, 6, 8, 12, 20, 30])
    edges, kinds, durs = gen_dag(rng, n)
    dates = sorted(set(rng.choice([256, 512, 1024, 1536, 2048, 3072, 4096, 8192, rng.randint(1, 9000)]) for _ in range(rng.randint(0, 4))))
    late = lambda pr: (rng.choice(dates) if dates and rng.random() < pr else 0)
    items = []                                          # (date, phase, tiebreak, op)
    tcre = []
    lazy_all = rng.random() < 0.2                       # many late things in this case
    tcre = sorted(late(0.1 if not lazy_all else 0.4) for _ in range(n))      # ids are creation ranks
    for i in range(n):
        items.append((tcre[i], 0, i, ("C", kinds[i], durs[i])))
    for (a, b) in edges:
        t = max(tcre[a], tcre[b])
        if rng.random() < 0.05:
            t = max(t, late(1.0))
        items.append((t, 1, rng.random(), ("A", a, b)))
    has_pred = set(b for _, b in edges)
    for i in range(n):
        r = rng.random()
        if r < 0.985:                                   # assigned: right after creation / at some later date
            t = tcre[i] if rng.random() < 0.55 else max(tcre[i], late(0.8))
            items.append((t, 2 if kinds[i] == 1 and i in has_pred else rng.choice([0.5, 2]), rng.random(), ("G", i)))
            if rng.random() < 0.04:
                items.append((max(t, late(0.5)), 2, rng.random(), ("G", i)))
        if i not in has_pred or rng.random() < 0.5:
            if rng.random() < 0.985:
                items.append((max(tcre[i], late(0.25)), 2, rng.random(), ("S", i)))
                if rng.random() < 0.05:
                    items.append((max(tcre[i], late(0.5)), 2, rng.random(), ("S", i)))
    r = rng.random()
    if r < 0.05 and edges:                              # remove a dependency
        a, b = rng.choice(edges)
        items.append((max(tcre[a], tcre[b], late(0.5)), 2, rng.random(), ("R", a, b)))
    elif r < 0.08 and edges:                            # duplicate edge: throws
        a, b = rng.choice(edges)
        items.append((max(tcre[a], tcre[b], late(0.5)), 2, rng.random(), ("A", a, b)))
    elif r < 0.10:                                      # self edge / unknown dependency: throws
        a = rng.randrange(n)
        items.append((tcre[a], 2, rng.random(), rng.choice([("A", a, a), ("R", a, (a + 1) % n)])))
    elif r < 0.14 and edges:                            # close a cycle
        a, b = rng.choice(edges)
        items.append((max(tcre[a], tcre[b]), 1, rng.random(), ("A", b, a)))
    for _ in range(rng.randint(0, 2)):                  # extra stops, aimed at completion dates
        items.append((rng.choice([d for d in durs if d] + [1024, 2048]) * rng.randint(1, 3), 3, 0, None))
    items.sort(key=lambda x: (x[0], x[1], x[2]))
    ops, now = [], 0
    for (t, _, _, o) in items:
        if t > now:
            ops.append(("U", t))
            now = t
        if o:
            ops.append(o)
    ops.append(("X",))
    if rng.random() < 0.1:
        ops.append(("X",))
    return {"mode": 0, "ops": ops}


def gen_json(rng):
    """a wfformat file + the script the loader is expected to be equivalent to + the script run after loading"""
    n = rng.choice([2, 3, 4, 6, 8, 12, 20, 30])
    edges, _, durs = gen_dag(rng, n, False)
    durs = [d or 1 for d in durs]
    kinds = [0] * n
    machine = [rng.random() < 0.6 for _ in range(n)]
    parents = {i: [a for (a, b) in edges if b == i] for i in range(n)}
    # some single-parent nodes whose parent is an earlier exec with a machine become transfers (one per parent)
    used = set()
    for i in range(n):
        ps = parents[i]
        if len(ps) == 1 and ps[0] < i and kinds[ps[0]] == 0 and machine[ps[0]] and ps[0] not in used and rng.random() < 0.5:
            kinds[i] = 1
            used.add(ps[0])
            machine[i] = True
    tasks = []
    for i in range(n):
        t = {"name": "t%d" % i, "parents": ["t%d" % p for p in parents[i]]}
        if kinds[i] == 0:
            t.update(type="compute", runtimeInSeconds=durs[i] * SP / (1 << TICK))
            if machine[i]:
                t["machine"] = "h%d" % i
        else:
            t.update(type="transfer", writtenBytes=durs[i] * SP // (1 << TICK), machine="g%d" % parents[i][0])
            durs[i] = (durs[i] * SP // (1 << TICK)) * (1 << TICK) // SP
        tasks.append(t)
    doc = {"name": "gen", "schemaVersion": "1.4", "workflow": {"makespanInSeconds": 0, "executedAt": "2023-03-09T00:00:00-00:00",
                                                                 "tasks": tasks, "machines": []}}
    # what create_DAG_from_json does, as a script
    load = []
    for i in range(n):
        load.append(("C", kinds[i], durs[i]))
        if kinds[i] == 0 and machine[i]:
            load.append(("G", i))
        if kinds[i] == 1:
            load.append(("S", i))                       # set_source() calls start(): vetoed, no destination yet
    for p in sorted(set(a for a, _ in edges), key=lambda a: "t%d" % a):
        for i in range(n):
            if p in parents[i]:
                load.append(("A", p, i))
    for i in range(n):
        if kinds[i] == 1:
            load.append(("G", i))
    for i in range(n):
        if kinds[i] == 0 and not parents[i]:
            load.append(("S", i))
    post, now = [], 0
    todo = [i for i in range(n) if not machine[i]]
    rng.shuffle(todo)
    for i in todo:
        if rng.random() < 0.5:
            now += rng.choice([256, 1024, 1536, 4096])
            post.append(("U", now))
        post.append(("G", i))
    post.append(("X",))
    return {"mode": 1, "file": json.dumps(doc), "load": load, "ops": post, "n": n,
            "expect": {i: (kinds[i], sorted(parents[i])) for i in range(n)}}


def gen_dax(rng):
    n = rng.choice([2, 3, 4, 6, 8, 12, 20, 28])
    edges, _, durs = gen_dag(rng, n, False)
    durs = [rng.choice([1, 2, 3, 5, 8, 10, 50]) for _ in range(n)]          # runtime in seconds (x 4.2e9 flops)
    nfiles = rng.randint(0, 3)
    files = []                                                                # (name, size, producer|None, consumers)
    for f in range(nfiles):
        prod = rng.choice([None] + list(range(n)))
        cons = [c for c in rng.sample(range(n), min(n, rng.randint(0, 2))) if c != prod and (prod is None or (prod, c) in edges or
                all(False for _ in ()))]
        # keep it acyclic: a consumer must come after the producer in some edge order -> only consumers already reachable by an edge
        cons = [c for c in cons if prod is None or (prod, c) in edges]
        if prod is None and not cons:
            continue
        files.append(("f%d" % f, rng.choice([1, 2, 4, 8]) * SP, prod, cons))
    xml = ['<?xml version="1.0" encoding="UTF-8"?>', '<adag xmlns="http://pegasus.isi.edu/schema/DAX" version="2.1">']
    for i in range(n):
        xml.append('<job id="%d" name="t%d" runtime="%d">' % (i, i, durs[i]))
        for (fn, sz, prod, cons) in files:
            if prod == i:
                xml.append('<uses file="%s" link="output" register="true" transfer="true" optional="false" type="data" size="%d"/>' % (fn, sz))
            if i in cons:
                xml.append('<uses file="%s" link="input" register="true" transfer="true" optional="false" type="data" size="%d"/>' % (fn, sz))
        xml.append('</job>')
    for b in range(n):
        ps = [a for (a, bb) in edges if bb == b]
        if ps:
            xml.append('<child ref="%d">' % b + "".join('<parent ref="%d"/>' % a for a in ps) + '</child>')
    xml.append('</adag>')
    # expected structure by activity name
    jn = lambda i: "%d@t%d" % (i, i)
    exp = {"root": (0, []), "end": (0, [])}
    for i in range(n):
        exp[jn(i)] = (0, [jn(a) for (a, b) in edges if b == i])
    for (fn, sz, prod, cons) in files:
        if prod is None:
            for c in cons:
                nm = "root_%s_%s" % (fn, jn(c))
                exp[nm] = (1, ["root"])
                exp[jn(c)][1].append(nm)
        else:
            if not cons:
                nm = "%s_%s_end" % (jn(prod), fn)
                exp[nm] = (1, [jn(prod)])
                exp["end"][1].append(nm)
            for c in cons:
                nm = "%s_%s_%s" % (jn(prod), fn, jn(c))
                exp[nm] = (1, [jn(prod)])
                exp[jn(c)][1].append(nm)
    has_succ = set(p for v in exp.values() for p in v[1])
    for i in range(n):
        if not exp[jn(i)][1]:
            exp[jn(i)][1].append("root")
        if jn(i) not in has_succ:
            exp["end"][1].append(jn(i))
    post, now = [], 0
    todo = list(range(n))
    rng.shuffle(todo)
    for i in todo:
        if rng.random() < 0.3:
            now += rng.choice([1024, 2048, 5 * 1024])
            post.append(("U", now))
        post.append(("G", i))
    post.append(("ALL",))
    post.append(("X",))
    return {"mode": 2, "file": "\n".join(xml), "ops": post, "n": n, "durs": durs,
            "expect_named": {k: (v[0], sorted(v[1])) for k, v in exp.items()},
            "sizes": {fn: sz for (fn, sz, prod, cons) in files}}


# ------------------------------------------------------------------------------------------------ running

def run_impl(exe, case, tmpd, idx):
    args = [exe]
    ops = case["ops"]
    line = [case["mode"], TICK]
    if case["mode"]:
        path = os.path.join(tmpd, "dag%d.%s" % (idx, "json" if case["mode"] == 1 else "xml"))
        open(path, "w").write(case["file"])
        args += [path, str(case["n"] + 40)]
    for o in ops:
        line += [7] if o[0] == "ALL" else [OPC[o[0]]] + list(o[1:])
    try:
        p = subprocess.run(args, input=" ".join(map(str, line)) + "\n", stdout=subprocess.PIPE, stderr=subprocess.PIPE, text=True, timeout=120)
        return p.returncode, p.stdout, p.stderr
    except subprocess.TimeoutExpired:
        return 124, "", "timeout"


def parse_impl(out):
    """-> events [("O",k,date)|("S",b,date)|("F",b,date,state)|("D",id,kind,amount,preds,state,assigned,name)], err, states, clock"""
    t = out.split()
    ev, err, states, clock, i = [], None, [], None, 0
    fx = lambda s: Fraction(float.fromhex(s))
    while i < len(t):
        if t[i] == "O":
            ev.append(("O", int(t[i + 1]), fx(t[i + 2]))); i += 3
        elif t[i] == "S":
            ev.append(("S", int(t[i + 1]), fx(t[i + 2]))); i += 3
        elif t[i] == "F":
            ev.append(("F", int(t[i + 1]), fx(t[i + 2]), t[i + 3])); i += 4
        elif t[i] == "D":
            np_ = int(t[i + 5])
            ev.append(("D", int(t[i + 1]), int(t[i + 3]), fx(t[i + 4]), [int(x) for x in t[i + 6:i + 6 + np_]], t[i + 6 + np_], int(t[i + 7 + np_]), t[i + 2]))
            i += 8 + np_
        elif t[i] == "E":
            err = int(t[i + 1]); i += 2
        elif t[i] == "Z":
            i += 1
            while t[i] != "T":
                states.append(t[i]); i += 1
        elif t[i] == "T":
            clock = fx(t[i + 1]); i += 2
        else:
            raise ValueError("unparsable harness output at token %d: %r" % (i, t[i:i + 5]))
    return ev, err, states, clock


def oracle_words(ops_by_k, events, kinds, scale):
    """encode the implementation log for Dag.decode_evs; dates in units of 2^-scale s"""
    tk = lambda d: int(d * (1 << scale))
    words, pos = [], []
    last_s = None
    for e in events:
        if e[0] == "O":
            o = ops_by_k[e[1]]
            if o[0] == "C":
                words += [10, o[1], o[2] << (scale - TICK), tk(e[2])]
            elif o[0] in "AR":
                words += [11 if o[0] == "A" else 12, o[1], o[2], tk(e[2])]
            elif o[0] in "GS":
                words += [13 if o[0] == "G" else 14, o[1], tk(e[2])]
            elif o[0] == "U":
                words += [15, o[1] << (scale - TICK), tk(e[2])]
            else:
                words += [16, tk(e[2])]
            last_s = None
        elif e[0] == "S":
            # Comm::do_start fires on_start twice for host-to-host comms (s4u_Comm.cpp:375 and :421): one start
            if last_s == (e[1], e[2]) and kinds.get(e[1]) == 1:
                continue
            words += [1, e[1], tk(e[2])]
            last_s = (e[1], e[2])
        elif e[0] == "F":
            words += [2, e[1], tk(e[2])]
            last_s = None
        else:
            continue
        pos.append(e)
    return words, pos


def table_of(events, states, kinds):
    tab = {}
    for e in events:
        if e[0] == "S":
            tab.setdefault(e[1], [None, None, 0, 0])
            if tab[e[1]][0] is None or tab[e[1]][0] != e[2] or kinds.get(e[1]) != 1:
                tab[e[1]][2] += 1
            tab[e[1]][0] = e[2] if tab[e[1]][0] is None else tab[e[1]][0]
        elif e[0] == "F":
            tab.setdefault(e[1], [None, None, 0, 0])
            tab[e[1]][1] = e[2]
            tab[e[1]][3] += 1
    return tab


CORPUS = [
    {"mode": 0, "ops": [("C", 0, 1024), ("C", 0, 2048), ("C", 0, 1024), ("A", 0, 2), ("A", 1, 2), ("G", 0), ("G", 1), ("S", 0), ("S", 1), ("S", 2), ("U", 1536), ("G", 2), ("X",)]},
    {"mode": 0, "ops": [("C", 0, 1024), ("C", 1, 2048), ("C", 2, 1024), ("A", 0, 2), ("A", 1, 2), ("G", 0), ("G", 1), ("S", 0), ("S", 2), ("U", 4096), ("G", 2), ("X",)]},
    {"mode": 0, "ops": [("C", 0, 1024), ("A", 0, 0)]},
    {"mode": 0, "ops": [("C", 0, 1024), ("C", 0, 512), ("A", 0, 1), ("G", 0), ("G", 1), ("S", 1), ("R", 0, 1), ("X",), ("S", 1), ("X",), ("A", 1, 0), ("R", 0, 1)]},
    {"mode": 0, "ops": [("C", 0, 0), ("C", 0, 5), ("C", 0, 0), ("A", 0, 1), ("A", 1, 2), ("G", 0), ("G", 1), ("G", 2), ("S", 0), ("U", 1024), ("X",)]},
    {"mode": 0, "ops": [("C", 0, 1024), ("C", 0, 512), ("A", 0, 1), ("G", 0), ("G", 1), ("S", 0), ("U", 1024), ("U", 1024), ("U", 1536), ("X",)]},
    {"mode": 0, "ops": [("C", 0, 8), ("C", 0, 8), ("C", 0, 8), ("A", 0, 1), ("A", 1, 2), ("A", 2, 0), ("G", 0), ("G", 1), ("G", 2), ("S", 0), ("S", 1), ("X",)]},
]


def run(ctx):
    frac = float(os.environ.get("ENG2_SCALE", "1"))      # mutation runs use a fraction of the cases
    ctx.simgrid(["simgrid"])
    ctx.prove()
    exe = fw.build_harness("eng2_dag")
    rng = ctx.rng
    if ctx.replay:
        cases = [json.load(open(ctx.replay))["case"]]
        for c in cases:
            c["ops"] = [tuple(o) for o in c["ops"]]
            if "load" in c:
                c["load"] = [tuple(o) for o in c["load"]]
            if "expect" in c:
                c["expect"] = {int(k): (v[0], v[1]) for k, v in c["expect"].items()}
            if "expect_named" in c:
                c["expect_named"] = {k: (v[0], v[1]) for k, v in c["expect_named"].items()}
    else:
        cases = [dict(c) for c in CORPUS]
        cases += [gen_api(rng) for _ in range(int(frac * ctx.n(500, 6000)))]
        cases += [gen_json(rng) for _ in range(int(frac * ctx.n(120, 1500)))]
        cases += [gen_dax(rng) for _ in range(int(frac * ctx.n(80, 1000)))]
    ctx.cov["rule"] = ("random workflow scripts over <= 30 activities (execs, host-to-host comms, I/Os on dedicated resources, dyadic "
                       "durations, some of duration 0), hidden topological order, edge density 0.05..0.7, assignment before/after "
                       "creation/start/at later dates, start requests at dates 0 or later, run_until stops aimed at completion "
                       "dates, plus scripts with a removed dependency, a duplicate/self/unknown edge (throws) or a cycle; the same "
                       "DAG family written to JSON and DAX files. non-trivial = at least one activity with a predecessor was started "
                       "by the implementation; distinct = distinct scripts/files")
    dist = {"api": 0, "json": 0, "dax": 0, "with_comm_or_io": 0, "throws": 0, "dropped_unmodelled_ops": 0, "late_assign": 0,
            "not_all_finished": 0, "activities": 0, "edges": 0}

    # API scripts: ask the model first, cut a script where it leaves the modelled domain (e.g. start() of a started activity)
    api = [c for c in cases if c["mode"] == 0]
    ans = fw.run_model("c13", "run_c13_skips", [enc_ops(c["ops"]) for c in api])
    for c, a in zip(api, ans):
        for k in reversed(a):
            del c["ops"][k]
        dist["dropped_unmodelled_ops"] += len(a)

    tmpd = tempfile.mkdtemp(prefix="c13_", dir=os.environ.get("TMPDIR", "/tmp"))
    with ThreadPoolExecutor(max_workers=max(2, fw.NCPU // 2)) as ex:
        outs = list(ex.map(lambda ic: run_impl(exe, ic[1], tmpd, ic[0]), enumerate(cases)))

    # build, per case, the script the model runs and the log the monitor judges
    model_in, oracle_in, infos = [], [], []
    for c, (rc, so, se) in zip(cases, outs):
        info = {"case": c, "crash": None}
        infos.append(info)
        try:
            ev, err, states, clock = parse_impl(so) if rc == 0 else ([], None, [], None)
        except (ValueError, IndexError) as e:
            rc, se = 1, "unparsable output: %s" % e
        if rc != 0:
            info["crash"] = "rc=%d %s" % (rc, se[-300:])
            model_in.append([]); oracle_in.append([])
            continue
        info.update(ev=ev, err=err, states=states, clock=clock)
        dl = [e for e in ev if e[0] == "D"]
        if c["mode"] == 0:
            script, pre = list(c["ops"]), []
            kinds = {}
            for o in script:
                if o[0] == "C":
                    kinds[len(kinds)] = o[1]
            idmap = None
        elif c["mode"] == 1:
            pre = list(c["load"])
            script = pre + list(c["ops"])
            kinds = {i: k for i, (k, _) in c["expect"].items()}
            got = {e[1]: (e[2], sorted(e[4])) for e in dl}
            if got != {i: (k, ps) for i, (k, ps) in c["expect"].items()}:
                info["structure"] = "create_DAG_from_json built %s, the file says %s" % (got, c["expect"])
        else:
            # DAX: ids of root/end/transfers are chosen by the harness; rebuild the equivalent script from the file's
            # intended structure using the names reported by the harness
            byname = {e[7]: e[1] for e in dl}
            exp = c["expect_named"]
            got = {e[7]: (e[2], sorted(next(x[7] for x in dl if x[1] == p) for p in e[4])) for e in dl}
            if got != exp:
                info["structure"] = "create_DAG_from_DAX built %s, the file says %s" % (got, exp)
            if set(byname) != set(exp):
                model_in.append([]); oracle_in.append([])
                info["skip"] = True
                continue
            nid = max(byname.values()) + 1
            rev = {v: k for k, v in byname.items()}
            kinds, pre = {}, []
            for i in range(nid):
                nm = rev.get(i)
                if nm is None:                      # unused id between the jobs and the extra activities
                    pre.append(("C", 0, 0)); kinds[i] = 0
                    continue
                k = exp[nm][0]
                kinds[i] = k
                if k == 0:
                    dur = 0 if nm in ("root", "end") else c["durs"][i] * (1 << TICK)
                else:
                    sz = c["sizes"][nm.split("_")[1]]
                    dur = sz * (1 << TICK) // SP
                pre.append(("C", k, dur))
            for nm, (k, ps) in exp.items():
                for p in ps:
                    pre.append(("A", byname[p], byname[nm]))
            for nm in exp:
                pre.append(("S", byname[nm]))
            script = list(pre)
            for o in c["ops"]:
                if o[0] == "ALL":
                    assigned = set(x[1] for x in script if x[0] == "G")
                    script += [("G", byname[nm]) for nm in sorted(exp, key=lambda z: byname[z]) if byname[nm] not in assigned]
                else:
                    script.append(o)
        info.update(script=script, kinds=kinds)
        # the log: loader-phase operations (date 0), then what the harness printed
        npre = len(pre)
        events = [("O", k, Fraction(0)) for k in range(npre)]
        if c["mode"] == 2:
            # "ALL" expands to several assignments issued at the same op of the harness
            k2 = {}
            j = npre
            for hk, o in enumerate(c["ops"]):
                if o[0] == "ALL":
                    cnt = len(script) - npre - (len(c["ops"]) - 1)
                    k2[hk] = list(range(j, j + cnt)); j += cnt
                else:
                    k2[hk] = [j]; j += 1
            for e in ev:
                if e[0] == "O":
                    events += [("O", kk, e[2]) for kk in k2[e[1]]]
                elif e[0] != "D":
                    events.append(e)
        else:
            for e in ev:
                if e[0] == "O":
                    events.append(("O", e[1] + npre, e[2]))
                elif e[0] != "D":
                    events.append(e)
        # signals carrying the same date between two script operations form a set: completions first
        canon, blk = [], []
        def flush():
            i = 0
            while i < len(blk):
                j = i
                while j < len(blk) and blk[j][2] == blk[i][2]:
                    j += 1
                canon.extend(sorted(blk[i:j], key=lambda e: 0 if e[0] == "F" else 1))
                i = j
            blk.clear()
        for e in events:
            if e[0] == "O":
                flush(); canon.append(e)
            else:
                blk.append(e)
        flush()
        events = canon
        # loader-phase signals were printed before the D lines: they belong after the loader's operations — already the case
        dates = [e[2] for e in events] + [clock]
        scale = TICK
        while any((d * (1 << scale)).denominator != 1 for d in dates) and scale < 1100:
            scale += 1
        info.update(events=events, scale=scale)
        words, pos = oracle_words(script, events, kinds, scale)
        info["pos"] = pos
        model_in.append(enc_ops(script))
        oracle_in.append(words)

    fw.log("  harness runs done at %.1fs" % (__import__("time").time() - ctx.t0))
    model = fw.run_model("c13", "run_c13", model_in)
    verdicts = fw.run_model("c13", "run_c13_oracle", oracle_in)

    for info, m, v in zip(infos, model, verdicts):
        c = info["case"]
        dist[["api", "json", "dax"][c["mode"]]] += 1
        small = {k: c[k] for k in c}
        if info["crash"]:
            ctx.case(json.dumps(small, sort_keys=True, default=str), False)
            ctx.fail("driver-crash", "eng2_dag died on a valid workflow script: %s" % info["crash"], small)
            continue
        if info.get("structure"):
            ctx.case(json.dumps(small, sort_keys=True, default=str), False)
            ctx.mismatch("loader-structure", info["structure"], small)
        if info.get("skip"):
            continue
        script, kinds, events, scale = info["script"], info["kinds"], info["events"], info["scale"]
        tab = table_of(events, info["states"], kinds)
        nontriv = any(t[0] is not None and any(o[0] == "A" and o[2] == b for o in script) for b, t in tab.items())
        dist["activities"] += len(kinds)
        dist["edges"] += sum(1 for o in script if o[0] == "A")
        dist["with_comm_or_io"] += any(k for k in kinds.values())
        dist["throws"] += info["err"] is not None
        dist["throws_" + str(c["mode"])] = dist.get("throws_" + str(c["mode"]), 0) + (info["err"] is not None)
        dist["late_assign"] += any(o[0] == "G" and any(p[0] == "U" for p in script[:i]) for i, o in enumerate(script))
        dist["not_all_finished"] += any(s not in ("FINISHED", "NONE") for s in info["states"])
        ctx.case(json.dumps(small, sort_keys=True, default=str), nontriv,
                 {"script": script[:40], "impl": {b: [str(x) for x in t[:2]] for b, t in list(tab.items())[:6]}} if nontriv else None)
        # O: the verified monitor on the implementation's log
        if v:
            e = info["pos"][v[1]] if v[1] < len(info["pos"]) else None
            ctx.fail(VERDICT.get(v[0], "monitor-%d" % v[0]),
                     "activity %s: start signal at %s rejected by the verified monitor (%s); script %s" % (
                         e[1] if e else "?", float(e[2]) if e else "?", VERDICT.get(v[0]), script[:60]), small)
            continue
        for b, t in tab.items():
            if t[2] > 1 or t[3] > 1:
                ctx.fail("started-or-completed-twice", "activity %d: %d start and %d completion signals; script %s" % (b, t[2], t[3], script[:60]), small)
        # K: the model on the same script
        unit = 1 << (scale - TICK)
        stat, k, n = m[0], m[1], m[2]
        mt = [m[3 + 3 * i: 6 + 3 * i] for i in range(n)]
        mclock = m[3 + 3 * n]
        it = []
        for i in range(len(info["states"])):
            t = tab.get(i, [None, None])
            tk = lambda d: -1 if d is None else int(d * (1 << scale))
            it.append([ST.get(info["states"][i], 9), tk(t[0]), tk(t[1])])
        while len(it) > len(mt) and it[-1] == [0, -1, -1]:
            it.pop()
        mt_s = [[x[0], x[1] * unit if x[1] >= 0 else -1, x[2] * unit if x[2] >= 0 else -1] for x in mt]
        if stat == 2:
            ctx.mismatch("generator", "script leaves the modelled domain at op %d: %s" % (k, script), small)
            continue
        m_err = k if stat == 1 else None
        i_err = info["err"] + (len(script) - len(c["ops"]) if c["mode"] else 0) if info["err"] is not None else None
        if m_err != i_err:
            ctx.mismatch("exception", "model: exception at op %s, implementation: at op %s; script %s" % (m_err, i_err, script[:60]), small)
            continue
        if it == mt_s and int(info["clock"] * (1 << scale)) == mclock * unit:
            continue
        never = [i for i in range(min(len(it), len(mt_s))) if mt_s[i][0] == 5 and it[i][0] != 5]
        if never:
            ctx.fail("activity-never-finishes",
                     "activities %s are assigned with all dependencies satisfiable (the verified model finishes them) but end in state %s; script %s"
                     % (never, [info["states"][i] for i in never], script[:60]), small)
        else:
            ctx.mismatch("dates", "model (state,start,finish)/clock %s/%s, implementation %s/%s (unit 2^-%d s); script %s" % (
                mt_s, mclock * unit, it, info["clock"] * (1 << scale), scale, script[:60]), small)
    try:
        import shutil
        shutil.rmtree(tmpd)
    except OSError:
        pass
    ctx.cov["input_distribution"] = dist
    ctx.assumptions += [
        "every activity has dedicated resources (own host / link / disk), so its duration is amount/speed and independent of the others; "
        "resource sharing is C15-C21's subject",
        "nothing fails or is cancelled (C10 covers failures); start() is only called on INITED/STARTING activities and a predecessor "
        "is only added to a not yet started activity (scripts leaving this domain are cut there, the offending operation is dropped, counted as dropped_unmodelled_ops)",
        "the JSON and DAX parsers are glue: tied by comparing the structure they build (kinds, predecessor sets) and the resulting "
        "run with the script the file denotes; no theorem about parsing. DOT is not built in (HAVE_GRAPHVIZ 0)",
        "Comm::do_start fires on_start twice for host-to-host comms; two identical consecutive signals count as one start"]


META = {
    "level": "proof",
    "text": "Coq theorems over all scripts of the s4u::Activity dependency API (create, add_successor, remove_successor, assign, start, "
            "run_until, run; any number of activities, any order, any durations): C13_start_guard - in every reachable state a started or "
            "finished activity is assigned and every declared (not removed) predecessor is FINISHED with finish date <= its start date; "
            "C13_acyclic_all_finish - from any reachable state where all activities are assigned, every unstarted activity still waits for "
            "an unfinished dependency that lists it as successor, and dependencies decrease some rank (acyclic), Engine::run() finishes "
            "every activity; C13_start_at_max_pred_finish - (all scripts, remove_successor included) the start date equals max(latest "
            "predecessor finish, latest assignment date, latest start request); C13_monitor_sound - the trace monitor used as oracle only "
            "accepts logs where every start signal comes after the assignment and after the completion of all predecessors declared so far, "
            "at that max date. The model is tied to the rebuilt library by exact differential runs (state, start, finish of every activity, "
            "final clock, thrown exceptions) through the API and through the JSON and DAX loaders.",
    "note": "Modelled: Activity::{add_successor,remove_successor,start,complete,release_dependencies}, Exec::set_host, Comm::set_source/"
            "set_destination, Io::set_disk, the event loop for non-sharing activities including run_until's stop rule (what completions "
            "at the limit date start waits for the next run). Not modelled: failures/cancel/unset_host/suspend, resource sharing, start() or "
            "a new predecessor on an already started activity (the code re-starts it; scripts avoid it), the file parsers (correspondence "
            "only), DOT loader (not compiled in). Observed, not a violation: Comm::on_completion fires from CommImpl::finish after "
            "release_dependencies already started the successors (same date), and Comm::on_start fires twice for host-to-host comms.",
    "technique": "Coq proof (state invariants over op sequences, pointwise characterisation of release_dependencies, counting argument for "
                 "liveness) + extracted-model differential correspondence + verified trace monitor as oracle",
    "claimed": True,
}

# mutants tried with bin/mutcheck (git apply -p1 from the simgrid root)
MUTANTS = r"""
# --- m1: release_dependencies starts the successor whatever its other dependencies (start() still vetoes; INITED successors become STARTING early): fired as correspondence break (no-failing-input-found)
--- a/include/simgrid/s4u/Activity.hpp
+++ b/include/simgrid/s4u/Activity.hpp
@@ -79,9 +79,7 @@
       ActivityPtr b = successors_.back();
       XBT_CVERB(s4u_activity, "Remove a dependency from '%s' on '%s'", get_cname(), b->get_cname());
       b->dependencies_.erase(this);
-      if (b->dependencies_solved()) {
-        b->start();
-      }
+      b->start();
       successors_.pop_back();
     }
   }

# --- m3: Activity::start ignores dependencies_solved(): must fire start-before-predecessor-finished (not run to the end: build queue)
--- a/include/simgrid/s4u/Activity.hpp
+++ b/include/simgrid/s4u/Activity.hpp
@@ -138,7 +138,7 @@
   void start()
   {
     state_ = State::STARTING;
-    if (dependencies_solved() && is_assigned()) {
+    if (is_assigned()) {
       XBT_CVERB(s4u_activity, "'%s' is assigned to a resource and all dependencies are solved. Let's start", get_cname());
       do_start();
     } else {

# --- m2: Exec::set_host no longer starts a vetoed exec: must fire activity-never-finishes (not run to the end)
--- a/src/s4u/s4u_Exec.cpp
+++ b/src/s4u/s4u_Exec.cpp
@@ -184,10 +184,6 @@
 
   boost::static_pointer_cast<kernel::activity::ExecImpl>(pimpl_)->set_host(host);
 
-  if (state_ == State::STARTING)
-    // Setting the host may allow to start the activity, let's try
-    start();
-
   return this;
 }
 

# --- h1: harmless: release_dependencies walks successors_ from the front: must stay quiet (not run to the end)
--- a/include/simgrid/s4u/Activity.hpp
+++ b/include/simgrid/s4u/Activity.hpp
@@ -76,13 +76,13 @@
   void release_dependencies()
   {
     while (not successors_.empty()) {
-      ActivityPtr b = successors_.back();
+      ActivityPtr b = successors_.front();
       XBT_CVERB(s4u_activity, "Remove a dependency from '%s' on '%s'", get_cname(), b->get_cname());
       b->dependencies_.erase(this);
       if (b->dependencies_solved()) {
         b->start();
       }
-      successors_.pop_back();
+      successors_.erase(successors_.begin());
     }
   }
 
"""
