"""C43 — checker and application agree on every transition (serialization codec).

T: gen/ser.py regenerates Gen/SerSpec.v (per observer/type tag: packed wire items, resolved by clang; per tag: wire items
   the checker's constructor unpacks); the Coq theorems over these tables are re-checked.
K: harness/mc2_ser_drv drives the real Channel, the real observers' serialize() and the real deserialize_transition()
   over a socketpair; bytes and decoded values are compared with the extracted codec.
O: the property itself on the real code: what deserialize_transition() rebuilds from the bytes of a real observer must
   be the observer's own description (type, actors, objects, parameters), and small programs (one per simcall kind,
   random parameters) must finish under simgrid-mc - or stop with a clear message - within a timeout."""
import concurrent.futures, json, os, re, sys
import fw

sys.path.insert(0, os.path.join(fw.ROOT, "gen"))
import ser  # noqa: E402

DRV_FLAGS = ["-std=gnu++20", "-fno-access-control"]
MC_TIMEOUT = 20


# ---------------------------------------------------------------------------------------------- spec helpers
def parse_item(s):
    if s == "ICounted":
        return ("N",)
    m = re.fullmatch(r"IP \(WInt (\d+) (true|false)\)", s)
    if m:
        return ("I", int(m.group(1)), m.group(2) == "true")
    return {"IP WBool": ("B",), "IP WStr": ("S",), "IP WPtr": ("P",), "IP WOther": ("O",)}[s]


def compat(a, c):
    if a[0] != c[0]:
        return False
    return a[1] == c[1] if a[0] == "I" else a[0] != "O"


def seq_compat(a, c):
    return c is not None and len(a) == len(c) and all(compat(x, y) for x, y in zip(a, c))


class Spec:
    def __init__(self, raw):
        self.names = raw["names"]
        self.idx = {n: i for i, n in enumerate(self.names)}
        self.app = [(o, self.idx[t], [parse_item(i) for i in its]) for (o, t, its) in raw["app"]]
        self.chk = {self.idx[t]: (None if v is None else [parse_item(i) for i in v]) for t, v in raw["chk"].items()}
        self.nomc = {i for i, n in enumerate(self.names) if n.endswith("_NOMC")}
        self.nested = [self.idx[t] for t in raw["nested_tags"]]

    def app_items(self, obs, tag):
        for (o, t, its) in self.app:
            if o == obs and t == tag:
                return its
        return None

    def nested_items(self, tag):
        for (o, t, its) in self.app:
            if t == tag and ("N",) not in its:
                return its
        return None


# ---------------------------------------------------------------------------------------------- values <-> protocols
def parse_desc(tokens):
    """driver description '<tag> v v [k ( tag v.. ) ( .. ) ] s2:1,2' -> (tag, [values]); value = int | ('s', codes) |
    ('sub', [(tag, [values])])"""
    pos = 0

    def value():
        nonlocal pos
        t = tokens[pos]
        if t.startswith("["):
            k = int(t[1:])
            pos += 1
            subs = []
            for _ in range(k):
                assert tokens[pos] == "("
                pos += 1
                subs.append(trans(")"))
                pos += 1
            assert tokens[pos] == "]", tokens[pos:]
            pos += 1
            return ("sub", subs)
        pos += 1
        if t.startswith("s"):
            n, _, body = t[1:].partition(":")
            return ("s", [int(x) for x in body.split(",")] if body else [])
        return int(t)

    def trans(stop):
        nonlocal pos
        tag = int(tokens[pos])
        pos += 1
        vals = []
        while pos < len(tokens) and tokens[pos] != stop:
            vals.append(value())
        return (tag, vals)

    return trans(None)


def model_prims(items, vals):
    """value list typed by wire items -> the integer protocol of run_c43_enc"""
    out = []
    for it, v in zip(items, vals):
        if it[0] == "B":
            out += [0, int(v)]
        elif it[0] == "I":
            out += [1, it[1], 1 if it[2] else 0, int(v)]
        elif it[0] == "P":
            out += [2, int(v)]
        elif it[0] == "S":
            out += [3, len(v[1])] + list(v[1])
        else:
            raise ValueError("untyped value")
    return out


def parse_model_dec(ans):
    """run_c43_dec answer -> (tag, values, unread) in the same shape as parse_desc"""
    if ans[0] != 1:
        return None
    tag = ans[1]
    pos = 2

    def prim():
        nonlocal pos
        k = ans[pos]
        if k == 0:
            pos += 2
            return ans[pos - 1]
        if k == 1:
            pos += 4
            return ans[pos - 1]
        if k == 2:
            pos += 2
            return ans[pos - 1]
        if k == 3:
            n = ans[pos + 1]
            v = ("s", ans[pos + 2:pos + 2 + n])
            pos += 2 + n
            return v
        raise ValueError("bad model answer %r at %d" % (ans, pos))

    vals = []
    while ans[pos] != -7:
        if ans[pos] == 4:
            cnt = ans[pos + 1]
            pos += 2
            subs = []
            for _ in range(cnt):
                stag, n = ans[pos], ans[pos + 1]
                pos += 2
                subs.append((stag, [prim() for _ in range(n)]))
            vals.append(("sub", subs))
        else:
            vals.append(prim())
    return (tag, vals), ans[pos + 1]


def canon(tv):
    """comparable form: strings as tuples"""
    tag, vals = tv
    out = []
    for v in vals:
        if isinstance(v, tuple) and v[0] == "s":
            out.append(("s", tuple(v[1])))
        elif isinstance(v, tuple) and v[0] == "sub":
            out.append(("sub", tuple(canon(x) for x in v[1])))
        else:
            out.append(int(v))
    return (tag, tuple(out))


# ---------------------------------------------------------------------------------------------- generators
def rstr(rng, maxlen=12):
    return [rng.randint(1, 255) for _ in range(rng.choice([0, 1, 2, rng.randint(0, maxlen)]))]


def codes(l):
    return ",".join(map(str, l))


def gen_obs(rng):
    k = rng.choice(["random", "create", "join", "exit", "mutex", "sem", "barrier", "cvsig", "cvlock", "isend", "irecv",
                    "wait", "test", "waitany", "testany"])
    if k == "random":
        a = rng.choice([0, -1, rng.randint(-2 ** 31, 2 ** 31 - 4)])
        return "obs random %d %d" % (a, a + rng.randint(0, 3))
    if k == "create":
        return "obs create %d" % rng.randint(0, 30)
    if k == "join":
        return "obs join %d %d" % (rng.randint(0, 3), rng.choice([-1, 0, 1, 5]))
    if k == "exit":
        return "obs exit"
    if k == "mutex":
        return "obs mutex %d %d" % (rng.choice([14, 16, 17]), rng.randint(0, 3))
    if k == "sem":
        return "obs sem %d %d" % (rng.choice([20, 21]), rng.randint(0, 3))
    if k == "barrier":
        return "obs barrier %d" % rng.randint(0, 3)
    if k == "cvsig":
        return "obs cvsig %d %d" % (rng.choice([25, 26]), rng.randint(0, 3))
    if k == "cvlock":
        return "obs cvlock %d %d" % (rng.randint(0, 3), rng.randint(0, 3))
    if k in ("isend", "irecv"):
        return "obs %s %d %s" % (k, rng.randint(0, 5), codes(rstr(rng)))
    if k == "wait":
        return "obs wait %d %d %s" % (rng.randint(0, 5), rng.choice([-1, 0, 2]), codes(rstr(rng)))
    if k == "test":
        return "obs test %d 0 %s" % (rng.randint(0, 5), codes(rstr(rng)))
    n = rng.randint(0, 4)
    loc = codes(rstr(rng)) or "120"
    return "obs %s %d %s %s" % (k, rng.choice([-1, 3]), loc, " ".join(str(rng.randint(0, 5)) for _ in range(n)))


def gen_value(rng, it):
    if it[0] == "B":
        return rng.randint(0, 1)
    if it[0] == "S":
        return ("s", rstr(rng, 40))
    if it[0] == "I":
        n, sg = it[1], it[2]
        if n == 8 and sg:           # aid_t: converted to an Aid by the checker (INVALID or < max_threads - 1)
            return rng.choice([-1, 0, 1, rng.randint(0, 30)])
        lo, hi = (-(1 << (8 * n - 1)), (1 << (8 * n - 1)) - 1) if sg else (0, (1 << (8 * n)) - 1)
        return rng.choice([0, 1, lo, hi, rng.randint(lo, hi), rng.randint(0, 300)])
    raise ValueError(it)


def gen_synth(rng, spec):
    """a random well-typed transition as the application's table describes it"""
    cands = [(o, t, its) for (o, t, its) in spec.app if t not in spec.nomc and all(i[0] in "BISN" for i in its)]
    o, t, its = rng.choice(cands)
    vals = []
    for it in its:
        if it[0] == "N":
            subs = []
            for _ in range(rng.randint(0, 3)):
                st = rng.choice(spec.nested)
                sits = spec.nested_items(st)
                subs.append((st, [gen_value(rng, i) for i in sits]))
            vals.append(("sub", subs))
        else:
            vals.append(gen_value(rng, it))
    return o, (t, vals)


def reinterp(spec, tv, nested=False):
    """what the checker is expected to hold: values read with the checker's signedness"""
    tag, vals = tv
    cits = spec.chk.get(tag)
    out = []
    for it, v in zip(cits, vals):
        if it[0] == "I" and not isinstance(v, tuple):
            w = 1 << (8 * it[1])
            u = v % w
            out.append(u - w if it[2] and u >= w // 2 else u)
        elif it[0] == "N":
            out.append(("sub", [reinterp(spec, s, True) for s in v[1]]))
        else:
            out.append(v)
    return (tag, out)


# ---------------------------------------------------------------------------------------------- scenarios
SCENARIOS = [  # (name, observers exercised, parameters)
    ("mutex", ["MutexObserver", "MutexAcquisitionObserver"], lambda r: []),
    ("semaphore", ["SemaphoreObserver", "SemaphoreAcquisitionObserver"], lambda r: [r.randint(1, 3)]),
    ("barrier", ["BarrierObserver"], lambda r: []),
    ("condvar", ["ConditionVariableObserver"], lambda r: [r.randint(0, 1)]),
    ("comm", ["CommIsendSimcall", "CommIrecvSimcall", "ActivityWaitSimcall"], lambda r: [r.randint(0, 50), r.randint(0, 9)]),
    ("commtest", ["ActivityTestSimcall"], lambda r: []),
    ("waitany", ["ActivityWaitanySimcall"], lambda r: []),
    ("testany", ["ActivityTestanySimcall"], lambda r: []),
    ("iprobe", ["IprobeSimcall"], lambda r: []),
    ("actor", ["ActorCreateSimcall", "ActorJoinSimcall", "ActorSleepSimcall", "ActorExitSimcall"], lambda r: [r.randint(0, 3)]),
    ("random", ["RandomSimcall"], lambda r: [r.randint(-5, 5)]),
    ("messqueue", ["MessIputSimcall", "MessIgetSimcall"], lambda r: []),
    # several activities ready at once, every outcome of the TestAny explored (reduction none is passed as a parameter)
    ("testany2", ["ActivityTestanySimcall"], lambda r: ["--cfg=model-check/reduction:none"]),
]
CLEAR_ERROR = re.compile(r"not supported by the model checker|Invalid transition type|UNIMPLEMENTED|not implemented", re.I)


def run_scenario(prog, name, params):
    import time
    cmd = [fw.SIMGRID_MC, prog, fw.SMALL_PLATFORM, name] + [str(p) for p in params] + ["--log=xbt_cfg.thresh:warning"]
    rc, out = 127, ""
    for attempt in range(4):
        # a time-out is only believed after a second, three times longer, attempt (the machine may be very loaded)
        rc, out = fw.sh(cmd, timeout=MC_TIMEOUT * (3 if attempt else 1))
        if rc in (126, 127):          # binary being re-linked by a concurrent build: try again
            time.sleep(5)
            continue
        if rc == 124 and attempt == 0:
            continue
        break
    return rc, out, cmd


class Model:
    """the extracted model, built once (fw.run_model would take the shared Coq lock at every call)"""

    def __init__(self, area):
        self.exe = fw.build_model(area)

    def run(self, fn, cases):
        if not cases:
            return []
        inp = "\n".join(" ".join(str(int(x)) for x in c) for c in cases) + "\n"
        rc, so, se = fw.sh2([self.exe, fn], inp=inp, timeout=1800)
        lines = so.split("\n")
        if lines and lines[-1] == "":
            lines.pop()
        if rc != 0 or len(lines) != len(cases):
            # e.g. stack overflow of the unary element count when a broken table makes the decoder read garbage
            self.crashed = "model %s: rc %d, %d answers for %d cases: %s" % (fn, rc, len(lines), len(cases), se[-300:])
            return [[0] for _ in cases]
        return [[int(t) for t in l.split()] for l in lines]

    crashed = None


def run(ctx):
    import time
    t0 = time.time()
    timing = ctx.cov.setdefault("timing_s", {})

    def lap(name):
        nonlocal t0
        timing[name] = round(time.time() - t0, 1)
        t0 = time.time()
    ctx.simgrid(["simgrid", "simgrid-mc"])
    lap("build simgrid")
    rep = json.load(open(ctx.replay))["case"] if ctx.replay else None

    # ---- T: regenerate the tables from the source
    spec = None
    try:
        raw = ser.extract(fw.REPO, os.path.join(fw.B, "ser_cache"), fw.SG)
        ser.write_if_changed(os.path.join(fw.COQ, "theories", "Gen", "SerSpec.v"), ser.render(raw))
        spec = Spec(raw)
    except ser.Untranslatable as e:
        ctx.mismatch("gen/ser.py", "the translator no longer understands the (de)serialization code: %s" % e)
    ctx.prove(extra_trusted=["gen/ser.py (clang-14 JSON AST -> wire item sequences); construction sites of observers found by regex",
                             "little-endian two's-complement machine, sizeof as printed by the driver ('sizes')"])

    lap("translate+prove")
    model = Model("c43")
    drv = fw.build_harness("mc2_ser_drv", extra=DRV_FLAGS + ["-I" + fw.REPO + "/src/smpi/include"])
    prog = fw.build_harness("mc2_prog", extra=["-std=gnu++20"])
    lap("build model+harness")
    dist = {"obs": 0, "synthetic": 0, "prims": 0, "scenarios": 0}
    ctx.cov["rule"] = ("one case = one observer serialization with random parameters (obs), one random well-typed transition of the "
                       "application's table decoded by the real deserialize_transition (synthetic), one random primitive list through "
                       "Channel::pack/unpack (prims), or one program under simgrid-mc (scenario); non-trivial = at least one field "
                       "beyond the type tag / the program visits more than one state")

    def drive(lines):
        rc, out, err = fw.run_lines(drv, ["--log=root.thres:critical"], lines, timeout=600)
        if len(out) != len(lines):
            raise fw.BuildError("mc2_ser_drv answered %d lines for %d (rc %d): %s" % (len(out), len(lines), rc, err[-400:]))
        return out

    # ---- sizes
    sizes = drive(["sizes"])[0].split()
    sz = dict(zip(sizes[0::2], map(int, sizes[1::2])))
    want = {"bool": 1, "int": 4, "unsigned": 4, "long": 8, "aid_t": 8, "ptr": 8, "ushort": 2, "type": 4}
    if sz != want:
        ctx.mismatch("sizeof", "the widths assumed by the codec no longer hold: %s" % sz, {"sizes": sz})

    if spec is not None:
        # ---- the agreement of the tables, entry by entry (same rule as the Coq tables_agree)
        bad_entries = [(o, t, its) for (o, t, its) in spec.app if t not in spec.nomc and not seq_compat(its, spec.chk.get(t))]
        signs = [(o, spec.names[t]) for (o, t, its) in spec.app if t not in spec.nomc and seq_compat(its, spec.chk.get(t)) and its != spec.chk.get(t)]
        if signs:
            ctx.notes.append("same bytes, other sign (value unchanged below 2^31): %s" % signs)
        for (o, t, its) in bad_entries:
            # replay on the real code: the program that issues this simcall, under simgrid-mc
            scen = [s for s in SCENARIOS if o in s[1]]
            what = "%s packs %s for %s but the checker unpacks %s" % (o, its, spec.names[t], spec.chk.get(t))
            confirmed = False
            for (name, _, pg) in scen:
                rc, out, cmd = run_scenario(prog, name, pg(ctx.rng))
                if rc == 124 or (rc != 0 and not CLEAR_ERROR.search(out)):
                    ctx.fail("seq-mismatch-%s-%s" % (o, spec.names[t]),
                             what + "; simgrid-mc on scenario '%s' %s" % (name, "hangs (killed after %ds)" % (3 * MC_TIMEOUT) if rc == 124 else "ends with rc=%d: %s" % (rc, out[-300:])),
                             {"kind": "scenario", "scenario": name, "params": [], "observer": o, "tag": spec.names[t]})
                    confirmed = True
            if not confirmed:
                ctx.mismatch("C43_field_sequences_agree", what + " (no program showing it was found)", {"observer": o, "tag": spec.names[t]})

        # ---- K+O on real observers
        n_obs = ctx.n(300, 6000)
        corpus = ["obs random -3 7", "obs random 2147483644 2147483647", "obs create 30", "obs join 2 1", "obs exit", "obs mutex 14 1",
                  "obs sem 20 2", "obs barrier 1", "obs cvsig 26 1", "obs cvlock 1 2", "obs isend 3 119,97", "obs irecv 4 ",
                  "obs wait 0 -1 87,97", "obs test 1 0 116", "obs waitany -1 119 0 1 2", "obs testany 0 116 3 4", "obs waitany 3 120 ",
                  "obs messput 1", "obs messget 2"]
        lines = corpus + [gen_obs(ctx.rng) for _ in range(n_obs)]
        if rep:
            lines = [rep["line"]] if rep.get("kind") == "obs" else []
        outs = drive(lines) if lines else []
        enc_cases, todo = [], []
        for line, o in zip(lines, outs):
            dist["obs"] += 1
            if not o.startswith("B "):
                if " mess" in line:
                    ctx.case(("obs", line), False)
                    continue        # the repaired observers refuse to serialize: clear error, nothing on the wire
                ctx.fail("observer-crash", "serialize() of '%s' ends with %s" % (line, o), {"kind": "obs", "line": line})
                continue
            bpart, epart = o[2:].split(" E ")
            bts = [int(x) for x in bpart.split()]
            etok = epart.split()
            obs_name = etok[0]
            if etok[1:] == ["?"]:      # a message-queue observer did put bytes on the wire
                todo.append((line, obs_name, bts, None))
                continue
            exp = parse_desc(etok[1:])
            todo.append((line, obs_name, bts, exp))
        # model encodings
        enc_in, enc_ref = [], []
        for (line, obs_name, bts, exp) in todo:
            if exp is None:
                continue
            its = spec.app_items(obs_name, exp[0])
            if its is None:
                ctx.mismatch("app_table", "observer %s packs tag %s but gen/ser.py lists no such entry" % (obs_name, spec.names[exp[0]]), {"kind": "obs", "line": line})
                continue
            try:
                pieces = []
                flat_items, flat_vals = [], []
                for it, v in zip(its, exp[1]):
                    if it[0] == "N":
                        pieces.append(("prims", flat_items, flat_vals))
                        flat_items, flat_vals = [], []
                        pieces.append(("count", len(v[1])))
                        for (st, sv) in v[1]:
                            pieces.append(("simple", st, spec.nested_items(st), sv))
                    else:
                        flat_items.append(it)
                        flat_vals.append(v)
                pieces.append(("prims", flat_items, flat_vals))
                if len(its) != len(exp[1]):
                    raise ValueError("arity")
            except Exception as e:  # noqa: BLE001
                ctx.mismatch("app_table", "observer %s: expected values %s do not fit the generated entry %s (%s)" % (obs_name, exp, its, e), {"kind": "obs", "line": line})
                continue
            enc_ref.append((line, obs_name, bts, exp, len(enc_in), pieces))
            first = True
            for p in pieces:
                if p[0] == "prims":
                    enc_in.append([exp[0]] + model_prims(p[1], p[2]))       # tag stripped below unless first
                elif p[0] == "count":
                    enc_in.append([exp[0], 1, 4, 0, p[1]])
                else:
                    enc_in.append([p[1]] + model_prims(p[2], p[3]))
        enc_out = model.run("run_c43_enc", enc_in) if enc_in else []
        dec_out = model.run("run_c43_dec", [t[2] for t in todo]) if todo else []
        real = drive(["deser " + " ".join(map(str, t[2])) for t in todo]) if todo else []
        ref_by_line = {r[0]: r for r in enc_ref}
        for (line, obs_name, bts, exp), md, rl in zip(todo, dec_out, real):
            case = {"kind": "obs", "line": line}
            # O: the real checker side on the real application bytes
            if not rl.startswith("T "):
                ctx.fail("decode-dies-" + obs_name, "bytes of %s (%s) make deserialize_transition %s" % (obs_name, bts, "wait for ever" if rl.startswith(("TIMEOUT", "DIED 6")) else rl), case)
                continue
            rtok = rl[2:].split()
            unread = int(rtok[-1])
            got = parse_desc(rtok[:-2])
            want_v = reinterp(spec, exp) if spec.chk.get(exp[0]) else exp
            nontriv = len(exp[1]) > 0
            ctx.case(("obs", line), nontriv, {"case": line, "bytes": bts[:40], "decoded": rl} if nontriv else None)
            if canon(got) != canon(want_v) or unread != 0:
                ctx.fail("decode-differs-" + obs_name, "%s serialized %s; the checker decoded %s (%d bytes unread)" % (obs_name, exp, got, unread), case)
                continue
            # K: model encoder = real bytes, model decoder = real decoder
            r = ref_by_line.get(line)
            if r:
                k = r[4]
                mb = []
                firstp = True
                for p in r[5]:
                    b = enc_out[k]
                    k += 1
                    mb += b if (firstp or p[0] == "simple") else b[4:]
                    firstp = False
                if mb != bts:
                    ctx.mismatch("enc_tval", "model bytes %s != real bytes %s for %s" % (mb, bts, line), case)
            pm = parse_model_dec(md)
            if pm is None or canon(pm[0]) != canon(got) or pm[1] != unread:
                ctx.mismatch("dec_tval", "model decodes %s, the checker %s, for %s" % (pm, got, line), case)

        # ---- synthetic transitions of every tag: model encoder -> real deserialize_transition
        n_syn = ctx.n(400, 8000)
        syn = [gen_synth(ctx.rng, spec) for _ in range(n_syn)] if not rep else ([(rep["observer"], (rep["tv"][0], rep["tv"][1]))] if rep.get("kind") == "synthetic" else [])
        enc_in, plan = [], []
        for (o, tv) in syn:
            its = spec.app_items(o, tv[0])
            pcs = []
            fi, fv = [], []
            for it, v in zip(its, tv[1]):
                if it[0] == "N":
                    pcs.append([tv[0]] + model_prims(fi, fv))
                    fi, fv = [], []
                    pcs.append([tv[0], 1, 4, 0, len(v[1])])
                    for (st, sv) in v[1]:
                        pcs.append(("simple", [st] + model_prims(spec.nested_items(st), sv)))
                else:
                    fi.append(it)
                    fv.append(v)
            pcs.append([tv[0]] + model_prims(fi, fv))
            plan.append((len(enc_in), pcs))
            enc_in += [p[1] if isinstance(p, tuple) else p for p in pcs]
        enc_out = model.run("run_c43_enc", enc_in) if enc_in else []
        byts = []
        for (k, pcs) in plan:
            mb = []
            for i, p in enumerate(pcs):
                b = enc_out[k + i]
                mb += b if (i == 0 or isinstance(p, tuple)) else b[4:]
            byts.append(mb)
        real = drive(["deser " + " ".join(map(str, b)) for b in byts]) if byts else []
        mdec = model.run("run_c43_dec", byts) if byts else []
        for (o, tv), b, rl, md in zip(syn, byts, real, mdec):
            dist["synthetic"] += 1
            case = {"kind": "synthetic", "observer": o, "tv": tv}
            nontriv = len(tv[1]) > 0
            ctx.case(("syn", o, canon(tv)), nontriv)
            if not rl.startswith("T "):
                ctx.fail("decode-dies-" + o, "a %s transition as %s packs it (%s) makes deserialize_transition %s" % (spec.names[tv[0]], o, tv, rl), case)
                continue
            rtok = rl[2:].split()
            got, unread = parse_desc(rtok[:-2]), int(rtok[-1])
            if canon(got) != canon(reinterp(spec, tv)) or unread != 0:
                ctx.fail("decode-differs-" + o, "%s packs %s; the checker decodes %s (%d bytes unread)" % (o, tv, got, unread), case)
                continue
            pm = parse_model_dec(md)
            if pm is None or canon(pm[0]) != canon(got) or pm[1] != 0:
                ctx.mismatch("dec_tval", "model decodes %s, the checker %s" % (pm, got), case)

    lap("observers+synthetic")
    # ---- primitives through the real Channel vs the model encoder
    n_pr = ctx.n(200, 4000)
    kinds = [("b", ("B",)), ("i1s", ("I", 1, True)), ("i1u", ("I", 1, False)), ("i2s", ("I", 2, True)), ("i2u", ("I", 2, False)),
             ("i4s", ("I", 4, True)), ("i4u", ("I", 4, False)), ("i8s", ("I", 8, True)), ("i8u", ("I", 8, False)), ("s", ("S",))]
    plines, pmodel, pvals = [], [], []
    for _ in range(n_pr if not rep else 0):
        ks = [ctx.rng.choice(kinds) for _ in range(ctx.rng.randint(1, 6))]
        vals = []
        for (k, it) in ks:
            if it[0] == "I":
                n, sg = it[1], it[2]
                lo, hi = (-(1 << (8 * n - 1)), (1 << (8 * n - 1)) - 1) if sg else (0, (1 << (8 * n)) - 1)
                vals.append(ctx.rng.choice([lo, hi, 0, ctx.rng.randint(lo, hi)]))
            else:
                vals.append(gen_value(ctx.rng, it))
        plines.append("pack i4u:7 " + " ".join("%s:%s" % (k, codes(v[1]) if isinstance(v, tuple) else v) for (k, _), v in zip(ks, vals)))
        pmodel.append([7] + model_prims([it for _, it in ks], vals))
        pvals.append((ks, vals))
    if plines:
        real = drive(plines)
        mod = model.run("run_c43_enc", pmodel)
        ulines = []
        for l, r, m, (ks, vals) in zip(plines, real, mod, pvals):
            dist["prims"] += 1
            ctx.case(("prims", l), True)
            rb = [int(x) for x in r.split()]
            if rb != m:
                ctx.mismatch("enc_pval", "Channel::pack gives %s, the model %s for '%s'" % (rb, m, l), {"kind": "prims", "line": l})
            ulines.append("unpack i4u %s : %s" % (" ".join(k for k, _ in ks), " ".join(map(str, rb))))
        back = drive(ulines)
        for l, r, (ks, vals) in zip(ulines, back, pvals):
            toks = r.split()
            want_t = ["7"] + [("s%d:%s" % (len(v[1]), codes(v[1])) if isinstance(v, tuple) else str(v)) for v in vals] + ["R", "0"]
            if toks != want_t:
                ctx.fail("channel-roundtrip", "Channel::unpack(Channel::pack(x)) != x: sent %s, got back %s" % (want_t, toks), {"kind": "prims", "line": l})

    lap("primitives")
    # ---- O: one program per simcall kind under simgrid-mc
    todo = [(name, pg(ctx.rng)) for (name, _, pg) in SCENARIOS for _ in range(ctx.n(1, 4))]
    if rep:
        todo = [(rep["scenario"], rep.get("params", []))] if rep.get("kind") == "scenario" else []
    with concurrent.futures.ThreadPoolExecutor(max_workers=4) as ex:
        results = list(ex.map(lambda t: run_scenario(prog, t[0], t[1]), todo))
    for (name, params), (rc, out, cmd) in zip(todo, results):
        dist["scenarios"] += 1
        m = re.search(r"(\d+) unique states visited", out)
        states = int(m.group(1)) if m else 0
        case = {"kind": "scenario", "scenario": name, "params": params}
        ctx.case(("scenario", name, tuple(params)), states > 1, {"scenario": name, "params": params, "rc": rc, "states": states})
        if rc == 124:
            ctx.fail("hang-" + name, "simgrid-mc does not finish on scenario '%s %s' within %ds: %s" % (name, params, 3 * MC_TIMEOUT, out[-300:]), case)
        elif rc != 0 and "std::out_of_range" in out and "_M_range_check" in out and name.startswith("testany"):   # (frame names vary with inlining)
            ctx.fail("testany-none-outcome-crashes-checker",
                     "simgrid-mc aborts with an uncaught std::out_of_range in Transition::dispatch_depends on scenario '%s %s': "
                     "TestAnyTransition::get_current_transition() indexes its sub-transitions with times_considered, whose last value "
                     "means 'no activity completed'" % (name, params), case)
        elif rc != 0 and not CLEAR_ERROR.search(out):
            ctx.fail("unclear-error-" + name, "simgrid-mc ends with rc=%d and no clear message on scenario '%s %s': %s" % (rc, name, params, out[-400:]), case)
        elif rc == 0 and states == 0:
            ctx.mismatch("scenario-output", "no exploration summary for '%s': %s" % (name, out[-300:]), case)
    lap("scenarios")
    if model.crashed:
        ctx.mismatch("extracted model", model.crashed)
    ctx.cov["input_distribution"] = dist
    ctx.assumptions += ["application and checker run on the same machine (same endianness, same sizeof), as simgrid-mc requires",
                        "actor ids carried as aid_t are -1 or below max_threads-1 = 31 (larger ones make the checker raise AidCannotBeAboveMaxThreads, a clear error)",
                        "type tags of observers with a run-time type_ are those of the construction sites in src/ (regex); *_NOMC tags are never issued with the checker attached",
                        "strings (call locations) contain no NUL and are shorter than 65535 bytes (Channel::pack asserts the latter)",
                        "nesting deeper than one TestAny/WaitAny level is not modelled (the application never sends it)"]


META = {
    "level": "proof",
    "text": "Coq theorems over the tables regenerated from the source on every run: for every observer and type tag issuable under the "
            "checker the checker knows the tag and unpacks the same wire items (C43_field_sequences_agree), hence every well-typed "
            "transition, TestAny/WaitAny lists included, is decoded to the same type and fields with exactly the bytes sent and never a "
            "wait for more (C43_decode_encode); primitive pack/unpack round trips for unbounded values (C43_prim_roundtrip, C43_bytes_mod). "
            "The tables come from clang's AST of the observers' serialize() and of deserialize_transition + constructors; the codec and the "
            "tables are tied to the rebuilt library by driving the real Channel, observers and deserialize_transition over a socketpair, "
            "and one program per simcall kind must finish (or stop with a clear message) under simgrid-mc.",
    "note": "Defect found and repaired: the message-queue observers sent two raw pointers under the COMM_ASYNC_SEND/RECV tag and the "
            "checker waited for ever (C43_pinned_messqueue_refuted); they now report that message queues are unsupported. Not modelled: "
            "the memory-access trace that follows each transition on the wire, the conversion aid_t -> Aid, MPI tags of iprobe. Recorded "
            "finding (KNOWN_FINDINGS, judged by the model-checker runs only): with reduction none simgrid-mc aborts on a TestAny over "
            "several ready communications (get_current_transition indexes by times_considered, whose last value means 'none').",
    "technique": "translator (clang JSON AST -> Coq tables) + Coq proof of the byte codec + differential correspondence + model-checker runs",
    "claimed": True,
}
