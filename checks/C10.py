"""C10 — resource failures are reported to every live participant (fault enumeration).
For every generated communicating program (2-6 actors on 3 hosts; one link per host pair, optionally a backbone link that
every route crosses too; every link with the same dyadic latency, possibly 0; blocking put/get, local and remote
executions, sleeps; dyadic sizes; a family of programs aimed at several flows started at different dates on one link)
harness/eng2_fail.cpp runs it once fault-free, then once per (host or link) x (each distinct event date of the fault-free
run, one tick before, one tick after, and - with latencies - the middle and the end of the latency phase of every
operation), plus generated pairs of faults.  A control actor turns the resource off at that date from inside one kernel
call that first dumps what every actor is blocked on (the kernel's own view).  O: the verified oracle
Fail.failure_log_ok (C10_oracle_sound) judges what each actor then observed (killed + on_exit flag, exception kind,
successful return of the operation it was blocked on, blocked at the final deadlock report).  K: the verified outcome
function Fail.expected vs. the observed outcome of every actor."""
import os
import struct
import subprocess
from concurrent.futures import ThreadPoolExecutor
import json
import fw

H = 3
LINKS = [(i, j) for i in range(H) for j in range(i + 1, H)]
TICK = 1 / 4096
SIG = {1: "actor-of-failed-host-survives", 2: "on-exit-failed-false", 3: "waiter-gets-no-exception",
       4: "waiter-gets-wrong-exception", 5: "blocked-forever-on-failed-resource", 6: "completed-through-off-resource"}
LATS = [0, 0, 16, 64, 256]          # link latency in ticks


def nlinks(prog):
    return len(LINKS) + (1 if prog.get("topo", 0) == 1 else 0)


def gen_shared(rng):
    """2-3 sender/receiver pairs whose routes share a link (same host pair, or any pair through the backbone); the senders
    start at different dates (sleep / exec first) and the links have a latency, so that a link carries established flows and
    flows still in their latency phase at the same time"""
    npairs = rng.choice([2, 2, 3])
    topo = rng.choice([0, 1])
    lat = rng.choice([16, 64, 256, 1024])
    hosts, progs = [], []
    s0, r0 = rng.sample(range(H), 2)
    for k in range(npairs):
        if topo == 1 and rng.random() < 0.6:
            s, r = rng.sample(range(H), 2)
        else:
            s, r = (s0, r0) if rng.random() < 0.7 else (r0, s0)
        snd, rcv = [], []
        if k > 0 or rng.random() < 0.3:
            snd.append((rng.choice([3, 4]), 4 * rng.choice([8, 64, 100, 256, 300]), 0))
        if rng.random() < 0.25:
            rcv.append((4, 4 * rng.choice([8, 64, 300]), 0))
        for m in range(rng.choice([1, 1, 2])):
            snd.append((1, 2 * k + m, 4 * rng.choice([256, 300, 1024, 2048])))
            rcv.append((2, 2 * k + m, 0))
        hosts += [s, r]
        progs += [snd, rcv]
    return {"hosts": hosts, "progs": progs, "lat": lat, "topo": topo}


def gen_prog(rng):
    if rng.random() < 0.4:
        return gen_shared(rng)
    A = rng.choice([2, 2, 3, 3, 4])
    hosts = [rng.randrange(H) for _ in range(A)]
    if len(set(hosts)) == 1:
        hosts[0] = (hosts[0] + 1) % H
    progs = [[] for _ in range(A)]
    mb = 0
    for _ in range(rng.randint(2, 7)):
        r = rng.random()
        dur = 4 * rng.choice([1, 2, 8, 64, 256, 300, 1024])
        if r < 0.55:
            i, j = rng.sample(range(A), 2)
            if hosts[i] == hosts[j]:
                continue                                   # same-host comms use the loopback, not a link of ours
            m = mb
            mb += 1
            progs[i].append((1, m, dur))
            progs[j].append((2, m, 0))
        elif r < 0.7:
            progs[rng.randrange(A)].append((3, dur, 0))
        elif r < 0.85:
            progs[rng.randrange(A)].append((4, dur, 0))
        else:
            progs[rng.randrange(A)].append((5, rng.randrange(H), dur))
    return {"hosts": hosts, "progs": progs, "lat": rng.choice(LATS), "topo": rng.choice([0, 0, 1])}


# boundary / regression programs, enumerated in full (every resource x every candidate date) before the generated ones
CORPUS = [
    # two flows h0->h1 on the same link (latency 64 ticks), the second one starts at 1024: a fault inside its latency phase must
    # also fail it (lmm::Constraint::get_variable has to go on with the disabled variables after the enabled ones)
    # scripts (dates in ticks): the receiver / the sender of the second flow is suspended once the flow is established, then the
    # link or the peer's host goes off, then the actor is resumed (fixed 36e83ed0fb: that crashed); the suspended flow has a null
    # sharing penalty like a flow in its latency phase
    {"hosts": [0, 1, 0, 1], "progs": [[(1, 0, 4096)], [(2, 0, 0)], [(4, 1024, 0), (1, 1, 4096)], [(2, 1, 0)]], "lat": 64, "topo": 0,
     "scripts": [[(3, 3, 1100), (2, 0, 1200), (4, 3, 1300)], [(3, 2, 1100), (2, 0, 1100), (4, 2, 1101)],
                 [(3, 3, 1100), (1, 0, 1200), (4, 3, 1300)], [(3, 2, 1030), (1, 1, 1040), (4, 2, 2000)]]},
    # a remote execution waited by a suspended actor while its host goes off; another execution runs there
    {"hosts": [0, 2, 1], "progs": [[(5, 1, 2048)], [(4, 16, 0), (5, 1, 4096)], [(4, 8192, 0)]], "lat": 0, "topo": 0,
     "scripts": [[(3, 0, 100), (1, 1, 200), (4, 0, 300)], [(3, 1, 100), (1, 1, 100), (4, 1, 164)]]},
    # the same through a backbone shared by two different host pairs, three flows, the third one after an execution
    {"hosts": [0, 1, 2, 1, 2, 0], "progs": [[(1, 0, 8192)], [(2, 0, 0)], [(4, 512, 0), (1, 1, 4096)], [(2, 1, 0)],
                                            [(3, 1200, 0), (1, 2, 1024)], [(2, 2, 0)]], "lat": 256, "topo": 1},
]


def enc(prog, faults):
    l = [len(faults)]
    for f in faults:
        l += [f[0], f[1], bits(f[2])]
    l += [H, prog.get("lat", 0), prog.get("topo", 0), len(prog["hosts"])]
    for h, p in zip(prog["hosts"], prog["progs"]):
        l += [h, len(p)]
        for o in p:
            l += list(o)
    return l


def run_one(exe, prog, faults):
    try:
        p = subprocess.run([exe], input=" ".join(map(str, enc(prog, faults))) + "\n", stdout=subprocess.PIPE,
                           stderr=subprocess.PIPE, text=True, timeout=120)
        return p.returncode, p.stdout, p.stderr
    except subprocess.TimeoutExpired:
        return 124, "", "timeout"


def ticks(s):
    return float.fromhex(s)          # dates are exact binary64 values, compared exactly


def bits(x):
    return struct.unpack("<q", struct.pack("<d", x))[0]


def parse(out, A):
    """-> list of records in log order"""
    t = out.split()
    ev, i = [], 0
    while i < len(t):
        k = t[i]
        if k in ("S", "D"):
            ev.append((k, int(t[i + 1]), int(t[i + 2]), ticks(t[i + 3]))); i += 4
        elif k == "E":
            ev.append((k, int(t[i + 1]), int(t[i + 2]), ticks(t[i + 3]), int(t[i + 4]))); i += 5
        elif k == "X":
            ev.append((k, int(t[i + 1]), ticks(t[i + 2]), int(t[i + 3]))); i += 4
        elif k in ("F", "L", "T"):
            ev.append((k, ticks(t[i + 1]))); i += 2
        elif k in ("U", "R"):
            ev.append((k, int(t[i + 1]), ticks(t[i + 2]))); i += 3
        elif k in ("W", "B"):
            nl = int(t[i + 6])
            ev.append((k, int(t[i + 1]), int(t[i + 2]), int(t[i + 3]), int(t[i + 4]), [int(x) for x in t[i + 7:i + 7 + nl]], int(t[i + 5]))); i += 7 + nl
        else:
            raise ValueError("unparsable token %r at %d" % (k, i))
    return ev


def observations(prog, faults, ev):
    """one oracle/model input per fault that was actually applied"""
    A = len(prog["hosts"])
    res = []
    fpos = [i for i, e in enumerate(ev) if e[0] == "F"]
    dead = [i for i, e in enumerate(ev) if e[0] == "L"]
    endw = {e[1]: e for e in ev if e[0] == "B"}
    faults = [f for f in faults if f[0] in (1, 2)]       # the other control actions (suspend / resume) are not faults
    for n, p in enumerate(fpos):
        T = ev[p][1]
        f = faults[n]
        snap = {e[1]: e for e in ev[p + 1:p + 1 + A] if e[0] == "W"}
        nxt = fpos[n + 1] if n + 1 < len(fpos) else len(ev)
        if dead:
            nxt = min(nxt, dead[0])           # kills after the deadlock report are the engine's clean-up
        words = [f[0], f[1], A]
        outcome = []
        for a in range(A):
            alive = not any(e[0] == "X" and e[1] == a for e in ev[:p])
            w = snap[a]
            # operations begun after the resource went off are new activities (they fail at once on an off resource): not judged here
            newops = set(e[2] for e in ev[p + 1 + A:nxt] if e[0] == "S" and e[1] == a)
            after = [e for e in ev[p + 1 + A:nxt] if e[0] in "EX" and e[1] == a and (e[3] if e[0] == "E" else e[2]) == T
                     and not (e[0] == "E" and e[2] in newops)]
            if after and after[0][0] == "X" and newops:
                after = []                                  # the actor went on and ended by itself at the same date
            if w[6] == 1 and alive:
                # an actor that is suspended when the resource goes off makes no step until the control actor resumes it: it is
                # then that it is served (exception raised by the operation it was blocked on); when it is killed, that is at T
                end = dead[0] if dead else len(ev)
                after = [e for e in ev[p + 1 + A:end] if e[0] in "EXD" and e[1] == a][:1]
                if after and after[0][0] == "D":
                    after = []
            # the first thing that happens to the actor at date T after the resource went off
            killed = bool(after) and after[0][0] == "X" and (after[0][3] == 1 or (f[0] == 1 and prog["hosts"][a] == f[1]))
            failed = killed and after[0][3] == 1            # an on_exit with failed=0 elsewhere is a normal termination
            exc = 0
            if after and after[0][0] == "E":
                exc = after[0][4]
            # did the operation the actor was blocked on when the resource went off return successfully afterwards?
            cur = [e[2] for e in ev[:p] if e[0] == "S" and e[1] == a]
            done = bool(cur) and w[2] != 0 and any(e[0] == "D" and e[1] == a and e[2] == cur[-1] for e in ev[p + 1 + A:])
            b = endw.get(a, ("B", a, 0, -1, -1, []))
            # a deadlock report only counts against this fault when the resource is still off at the end: it is (no restart here)
            words += [prog["hosts"][a], 1 if alive else 0, w[2], w[3], w[4], len(w[5])] + w[5]
            words += [1 if killed else 0, 1 if failed else 0, exc, 1 if done else 0, b[2], b[3], b[4], len(b[5])] + b[5]
            outcome.append(1 if killed else (2 if exc == 1 else 3 if exc == 2 else 9 if exc else 0) if alive else 0)
        res.append((words, outcome, T, f, [snap[a][2] for a in range(A)]))
    return res


def flows_on(prog, ev, f, T):
    """coverage only: (number of flows on the failed link at the failure date, number of those started less than one latency
    before); a flow = the put/get pair of one mailbox, started when the later of the two was posted"""
    A = len(prog["hosts"])
    p = [i for i, e in enumerate(ev) if e[0] == "F" and e[1] == T][0]
    on = [e[1] for e in ev[p + 1:p + 1 + A] if e[0] == "W" and e[2] == 4 and f[1] in e[5]]
    start = {}
    for a in on:
        s = [e for e in ev[:p] if e[0] == "S" and e[1] == a]
        o = prog["progs"][a][s[-1][2]]
        if o[0] in (1, 2):
            start[o[1]] = max(start.get(o[1], 0), s[-1][3])
    return len(start), sum(1 for d in start.values() if T - d < prog.get("lat", 0) * TICK)


def run(ctx):
    frac = float(os.environ.get("ENG2_SCALE", "1"))      # mutation runs use a fraction of the cases
    ctx.simgrid(["simgrid"])
    ctx.prove()
    ctx.level = "fault_enumeration"
    exe = fw.build_harness("eng2_fail", ["-std=gnu++20"])
    rng = ctx.rng
    nprog = max(2, int(frac * ctx.n(8, 80)))
    if ctx.replay:
        rp = json.load(open(ctx.replay))["case"]
        progs = [{"hosts": rp["hosts"], "progs": [[tuple(o) for o in p] for p in rp["progs"]], "lat": rp.get("lat", 0),
                  "topo": rp.get("topo", 0)}]
        forced = [[(f[0], f[1], float(f[2])) for f in rp["faults"]]]
    else:
        progs = CORPUS + [gen_prog(rng) for _ in range(nprog)]
        forced = None
    ctx.cov["rule"] = ("programs: 2-6 actors on 3 hosts; one link per host pair, in 1 program out of 3 also a backbone link crossed by "
                       "every route; all links with latency 0/16/64/256/1024 ticks; either 2-7 steps among blocking put/get pairs on "
                       "mailboxes, local exec, remote exec (waited from another host), sleep, durations 4*{1,2,8,64,256,300,1024} ticks "
                       "of 2^-12 s, or (40%%) 2-3 sender/receiver pairs sharing a link whose senders start at different dates; plus "
                       "%d corpus programs enumerated in full. faults: every host and link x every distinct event date of the "
                       "fault-free run and +-1 tick and, with latencies, every operation start + latency/2, + latency, + latency +-1 "
                       "tick (quick tier: a sample of 10 + 8 dates per generated program), plus random pairs of faults, plus scripts "
                       "'suspend an actor while it is blocked on a put/get/exec; turn a resource off 0-1000 ticks later (half of them: "
                       "a link or the peer host of its communication); resume it 1-500 ticks after that'. non-trivial "
                       "= at the failure date some actor is on the failed host or blocked on an activity using the failed resource; "
                       "distinct = distinct (program, faults)" % len(CORPUS))
    dist = {"programs": 0, "single_faults": 0, "fault_pairs": 0, "host_faults": 0, "link_faults": 0, "actors_killed": 0,
            "net_exceptions": 0, "host_exceptions": 0, "deadlocks_after_fault": 0, "fault_not_reached": 0,
            "programs_with_latency": 0, "programs_with_backbone": 0, "link_faults_on_shared_link": 0,
            "link_faults_with_flow_in_latency_phase_and_established_flow": 0}
    jobs = []
    for pi, prog in enumerate(progs):
        rc, so, se = run_one(exe, prog, [])
        if rc != 0:
            ctx.fail("driver-crash", "eng2_fail died on the fault-free run: rc=%d %s" % (rc, se[-300:]), dict(prog, faults=[]))
            continue
        ev = parse(so, len(prog["hosts"]))
        if any(e[0] == "L" for e in ev):
            dist["skipped_programs"] = dist.get("skipped_programs", 0) + 1
            continue
        dist["programs"] += 1
        lat = prog.get("lat", 0)
        dist["programs_with_latency"] += lat > 0
        dist["programs_with_backbone"] += prog.get("topo", 0) == 1
        dates = sorted(set(e[3] for e in ev if e[0] in "SD"))
        cand = sorted(set(d + k * TICK for d in dates for k in (-1, 0, 1) if d + k * TICK >= 0))
        # inside and at the end of the latency phase of whatever starts at an operation start (a flow starts when the later of
        # its put/get is posted)
        starts = sorted(set(e[3] for e in ev if e[0] == "S"))
        lcand = sorted(set(d + k * TICK for d in starts for k in (lat // 2, lat - 1, lat, lat + 1)) - set(cand)) if lat > 0 else []
        if not cand:
            dist["skipped_programs"] = dist.get("skipped_programs", 0) + 1
            continue
        if forced:
            jobs += [(prog, f) for f in forced]
            continue
        if ctx.quick and pi >= len(CORPUS):
            if len(cand) > 10:
                cand = sorted(rng.sample(cand, 10))
            if len(lcand) > 8:
                # the middle of a latency phase first
                mid = sorted(set(d + (lat // 2) * TICK for d in starts) & set(lcand))
                mid = rng.sample(mid, min(len(mid), 5))
                lcand = sorted(mid + rng.sample(sorted(set(lcand) - set(mid)), 8 - len(mid)))
        cand = sorted(set(cand) | set(lcand))
        res = [(1, h) for h in range(H)] + [(2, l) for l in range(nlinks(prog))]
        for (fk, fid) in res:
            for d in cand:
                jobs.append((prog, [(fk, fid, d)]))
        # an actor is suspended while it is blocked, a resource goes off meanwhile, the actor is resumed later
        blocked = [(e[1], e[3]) for e in ev if e[0] == "S" and prog["progs"][e[1]][e[2]][0] in (1, 2, 3, 5)]
        for _ in range((ctx.n(8, 40) if pi >= len(CORPUS) else 24) if blocked else 0):
            a, d0 = rng.choice(blocked)
            d1 = d0 + rng.choice([0, 1, 1, 8, 100]) * TICK
            d2 = d1 + rng.choice([0, 1, 8, 100, 1000]) * TICK
            d3 = d2 + rng.choice([1, 64, 500]) * TICK
            fk, fid = rng.choice(res)
            if rng.random() < 0.5:
                # aim at a resource the actor's operation uses
                o = [o for o in prog["progs"][a] if o[0] in (1, 2)]
                peers = [b for b in range(len(prog["hosts"])) if b != a and o and any(q[0] in (1, 2) and q[1] == o[0][1] for q in prog["progs"][b])]
                if peers and prog["hosts"][a] != prog["hosts"][peers[0]]:
                    i, j = sorted((prog["hosts"][a], prog["hosts"][peers[0]]))
                    fk, fid = rng.choice([(2, LINKS.index((i, j))), (2, nlinks(prog) - 1), (1, prog["hosts"][peers[0]])])
            jobs.append((prog, [(3, a, d1), (fk, fid, d2), (4, a, d3)]))
        for sc in prog.get("scripts", []):
            jobs.append((prog, [(k, i, d * TICK) for (k, i, d) in sc]))
        for _ in range(ctx.n(10, 40)):
            f1, f2 = rng.sample(res, 2)
            d1, d2 = sorted([rng.choice(cand), rng.choice(cand)])
            jobs.append((prog, [(f1[0], f1[1], d1), (f2[0], f2[1], d2)]))
    with ThreadPoolExecutor(max_workers=max(2, fw.NCPU // 2)) as ex:
        outs = list(ex.map(lambda j: run_one(exe, j[0], j[1]), jobs))
    oin, meta = [], []
    for (prog, faults), (rc, so, se) in zip(jobs, outs):
        case = {"hosts": prog["hosts"], "progs": prog["progs"], "lat": prog.get("lat", 0), "topo": prog.get("topo", 0), "faults": faults}
        if rc != 0:
            ctx.case(json.dumps(case), False)
            ctx.fail("driver-crash", "eng2_fail died: rc=%d %s" % (rc, se[-300:]), case)
            continue
        try:
            ev = parse(so, len(prog["hosts"]))
        except (ValueError, AssertionError, IndexError) as e:
            ctx.fail("driver-crash", "unparsable output: %s" % e, case)
            continue
        nfl = sum(1 for f in faults if f[0] in (1, 2))
        dist["single_faults" if nfl == 1 else "fault_pairs"] += 1
        dist["runs_with_suspension"] = dist.get("runs_with_suspension", 0) + (nfl < len(faults))
        obs = observations(prog, faults, ev)
        if len(obs) < nfl:
            dist["fault_not_reached"] += nfl - len(obs)
        dist["deadlocks_after_fault"] += any(e[0] == "L" for e in ev)
        for (words, outcome, T, f, kinds) in obs:
            oin.append(words)
            meta.append((case, outcome, T, f, kinds))
            A = len(prog["hosts"])
            p = [i for i, e in enumerate(ev) if e[0] == "F" and e[1] == T][0]
            dist["suspended_waiters_of_failed_resource"] = dist.get("suspended_waiters_of_failed_resource", 0) + sum(
                1 for e in ev[p + 1:p + 1 + A] if e[0] == "W" and e[6] == 1 and e[2] in (2, 4) and
                (f[1] in e[5] if f[0] == 2 else f[1] in (e[3], e[4])))
            if f[0] == 2:
                nfl, nyoung = flows_on(prog, ev, f, T)
                dist["link_faults_on_shared_link"] += nfl >= 2
                dist["link_faults_with_flow_in_latency_phase_and_established_flow"] += 0 < nyoung < nfl
    model = fw.run_model("c10", "run_c10_model", oin) if oin else []
    verd = fw.run_model("c10", "run_c10_oracle", oin) if oin else []
    for (case, outcome, T, f, kinds), m, v in zip(meta, model, verd):
        # an activity that starts at the very date the resource went off (the actor was not yet blocked on a started activity in
        # the kernel's view) fails at once: that exception is not owed to the failure-handling step the model describes
        for a in range(len(m)):
            if m[a] == 0 and outcome[a] in (2, 3) and kinds[a] in (0, 3):
                outcome[a] = 0
                dist["new_activity_on_off_resource"] = dist.get("new_activity_on_off_resource", 0) + 1
        dist["host_faults" if f[0] == 1 else "link_faults"] += 1
        dist["actors_killed"] += sum(1 for x in m if x == 1)
        dist["net_exceptions"] += sum(1 for x in m if x == 2)
        dist["host_exceptions"] += sum(1 for x in m if x == 3)
        nontriv = any(x != 0 for x in m)
        ctx.case(json.dumps([case, f]), nontriv, {"case": case, "fault": f, "expected": m, "observed": outcome} if nontriv else None)
        bad = [(a, x) for a, x in enumerate(v) if x != 0]
        if bad:
            a, x = bad[0]
            ctx.fail(SIG.get(x, "verdict-%d" % x), "fault %s at date %r: actor %d: %s (model expects outcomes %s, observed %s)" % (
                f, T, a, SIG.get(x), m, outcome), case)
        elif m != outcome:
            ctx.mismatch("outcome", "fault %s at date %r: model expects %s, observed %s (0 none, 1 killed, 2 NetworkFailure, 3 HostFailure); case %s" % (
                f, T, m, outcome, case), case)
    ctx.cov["input_distribution"] = dist
    ctx.assumptions += [
        "what each actor is blocked on at the failure instant is read from the kernel's own structures (ActorImpl::waiting_synchros_, "
        "CommImpl state / source / destination / traversed links) inside the kernel call that turns the resource off",
        "state profiles are not exercised: the resource is turned off through Host::turn_off / Link::turn_off",
        "CM02 network model without cross-traffic nor TCP window; every link has the same latency",
        "resources are not turned back on; actors do not auto-restart",
        "an actor that is suspended when the resource goes off is judged on what the operation it was blocked on raises when the "
        "control actor resumes it (a suspended actor makes no step before): exception kind, or successful return; when it is on the "
        "failed host it must be killed at the failure date like any other"]


META = {
    "level": "fault_enumeration",
    "text": "Every host and every link is turned off at every distinct event date of the fault-free run (and one tick before/after; with "
            "link latencies also in the middle and at the end of the latency phase of every operation), plus random pairs of faults and "
            "scripts that suspend a blocked actor, turn a resource off and resume the actor, over generated communicating programs (links "
            "shared by several flows started at different dates, optional backbone link, dyadic latencies); each actor's observation "
            "(killed with on_exit failed flag, exception kind at the failure date, successful return of the operation it was blocked on, "
            "blocked at the final deadlock report) is judged by a verified oracle. Coq theorems (small): C10_oracle_sound (an accepted run "
            "has every live actor of the failed host killed with failed=true, every surviving waiter of an activity using the off resource "
            "served NetworkFailure/HostFailure, nobody blocked for ever on such an activity, no operation blocked on such an activity "
            "returning successfully afterwards), C10_oracle_rejects_success_through_off, C10_all_waiters_answered / C10_exception_kind / "
            "C10_on_exit_failed_true / C10_no_success_through_off_resource about the verified outcome function that the observed outcomes "
            "are compared with, C10_model_passes_oracle.",
    "note": "Only the failure-handling step is modelled (outcome per actor from the kernel's pre-failure view); the engine dynamics are "
            "covered by the enumeration, not by proof. Fixed defect 36e83ed0fb (a failure on an activity whose waiter is suspended crashed "
            "the simulation; the exception is now raised when the actor is resumed). Catches seeded C10-a (lmm Constraint::get_variable not "
            "going on to the disabled variables: flows in their latency phase or suspended survive a link failure). Not covered: state "
            "profiles, restart/auto-restart, detached or asynchronous communications, disks and VMs, other network models than CM02.",
    "technique": "fault enumeration + verified oracle (Coq) + extracted outcome function as reference",
    "claimed": True,
}

# mutants tried with bin/mutcheck (git apply -p1 from the simgrid root)
MUTANTS = r"""
# --- f1: CommImpl::finish DST_HOST_FAILURE raises nothing: fired waiter-gets-no-exception
--- a/src/kernel/activity/CommImpl.cpp
+++ b/src/kernel/activity/CommImpl.cpp
@@ -445,7 +445,6 @@
       case State::DST_HOST_FAILURE:
         xbt_assert(issuer != dst_actor_);
         set_state(State::FAILED);
-        issuer->exception_ = std::make_exception_ptr(NetworkFailureException(XBT_THROW_POINT, "Remote peer failed"));
         break;
 
       case State::LINK_FAILURE:

# --- f3: HostImpl::turn_off kills only even pids: fired actor-of-failed-host-survives
--- a/src/kernel/resource/HostImpl.cpp
+++ b/src/kernel/resource/HostImpl.cpp
@@ -124,7 +124,7 @@
   for (auto& actor : actor_list_) {
     XBT_DEBUG("Killing Actor %s@%s on behalf of %s which turned off that host.", actor.get_cname(),
               actor.get_host()->get_cname(), issuer->get_cname());
-    issuer->kill(&actor);
+    if (actor.get_pid() % 2 == 0) issuer->kill(&actor);
   }
   // Let the maestro activities fail. Do so in 2 traversal, as cancel() removes the activity from the activities_,
   // invalidating the iterators

# --- f2: ExecImpl::finish raises NetworkFailureException: fired waiter-gets-wrong-exception
--- a/src/kernel/activity/ExecImpl.cpp
+++ b/src/kernel/activity/ExecImpl.cpp
@@ -179,7 +179,7 @@
     switch (get_state()) {
       case State::FAILED:
         static_cast<s4u::Exec*>(get_iface())->complete(s4u::Activity::State::FAILED); // Raise the relevant signals
-        issuer->exception_ = std::make_exception_ptr(HostFailureException(XBT_THROW_POINT, "Host failed"));
+        issuer->exception_ = std::make_exception_ptr(NetworkFailureException(XBT_THROW_POINT, "Host failed"));
         break;
 
       case State::CANCELED:

# --- fh: harmless: CommImpl::finish tests the destination host before the source host: quiet
--- a/src/kernel/activity/CommImpl.cpp
+++ b/src/kernel/activity/CommImpl.cpp
@@ -386,10 +386,10 @@
             src_actor_.get(), dst_actor_.get(), detached_);
 
   /* Update synchro state */
-  if (from_ && not from_->is_on())
-    set_state(State::SRC_HOST_FAILURE);
-  else if (to_ && not to_->is_on())
+  if (to_ && not to_->is_on())
     set_state(State::DST_HOST_FAILURE);
+  else if (from_ && not from_->is_on())
+    set_state(State::SRC_HOST_FAILURE);
   else if (model_action_ && model_action_->get_state() == resource::Action::State::FAILED) {
     set_state(State::LINK_FAILURE);
   } else if (get_state() == State::RUNNING) {
"""
