"""C34 - RMA windows behave like shared memory under their locks.

Proof (Coq, Smpi/Rma.v + RmaProofs.v): sequential meaning of Put/Get/Accumulate/Get_accumulate/Compare_and_swap on window
memory; C34_exclusive_serial (under exclusive locks the final memory is that of the serial execution in lock-acquisition
order), C34_commuting_epoch + C34_commute_b_sound (a fence/lock_all epoch whose operations pairwise commute - different
targets, disjoint written cells, or same-operator accumulates - has an order-independent result).
K/O: generated RMA programs of 2..4 ranks (harness/smpi_c34.c under smpirun); every epoch is made of commuting operations
(re-checked by the extracted, verified all_commute_b), so the model's memory after each epoch is THE memory the property
allows; window contents after each closing synchronisation and the values returned by stable reads are compared.
PARTIAL: the request machinery of smpi_win.cpp is not modelled, only its effect on memory."""
import concurrent.futures, json, os, tempfile
import fw

OPN = ["SUM", "PROD", "MAX", "MIN", "BXOR", "REPLACE", "NO_OP"]
KN = ["Put", "Get", "Accumulate", "Get_accumulate", "Compare_and_swap"]
MODES = ["fence", "lock_all", "lock_exclusive", "lock_shared"]


def gen_epoch(rng, np, W, mode):
    """operations that pairwise commute by construction; returns (ops, stable) where stable[i] tells whether the value
    returned by op i is the same in every order"""
    ops, stable = [], []
    for t in range(np):
        x = 0
        while x < W:
            ln = min(W - x, rng.randint(1, 4))
            disc = rng.choice(["none", "put", "acc", "acc", "read", "cas", "gacc", "fetch"])
            origins = list(range(np))
            if disc == "put":
                o = rng.choice(origins)
                ops.append([o, 0, t, x, 5, 0, [rng.randint(-5, 9) for _ in range(ln)]]); stable.append(True)
            elif disc == "acc":
                op = rng.randrange(5)
                for _ in range(rng.randint(1, 4)):
                    o = rng.choice(origins)
                    a = rng.randint(0, ln - 1)
                    b = rng.randint(a + 1, ln)
                    vals = [rng.choice([1, 2, -1]) if op == 1 else rng.randint(-5, 9) for _ in range(b - a)]
                    ops.append([o, 2, t, x + a, op, 0, vals]); stable.append(True)
            elif disc == "read":
                for _ in range(rng.randint(1, 3)):
                    o = rng.choice(origins)
                    if rng.random() < 0.6:
                        ops.append([o, 1, t, x, ln, 0, []]); stable.append(True)
                    else:
                        ops.append([o, 3, t, x, 6, 0, [0] * ln]); stable.append(True)     # Get_accumulate NO_OP
            elif disc == "cas":
                o = rng.choice(origins)
                init = None   # compare value: sometimes the current content (unknown here) -> use a plausible initial value
                cmpv = rng.choice([100 * t + x, rng.randint(-5, 9)])
                ops.append([o, 4, t, x, 5, cmpv, [rng.randint(-5, 9)]]); stable.append(True)
                ln = 1
            elif disc == "gacc":
                o = rng.choice(origins)
                op = rng.choice([0, 1, 2, 3, 4, 5])
                vals = [rng.choice([1, 2, -1]) if op == 1 else rng.randint(-5, 9) for _ in range(ln)]
                ops.append([o, 3, t, x, op, 0, vals]); stable.append(True)               # alone on its cells
            elif disc == "fetch":
                op = rng.choice([0, 2, 4])
                for _ in range(rng.randint(2, 4)):                                        # fetch-and-op from several origins
                    o = rng.choice(origins)
                    ops.append([o, 3, t, x, op, 0, [rng.randint(1, 3)]]); stable.append(False)
                ln = 1
            x += ln
    # shuffle program order (operations of one origin on one target keep their relative order in the harness)
    idx = list(range(len(ops)))
    rng.shuffle(idx)
    return [ops[i] for i in idx], [stable[i] for i in idx]


def gen_program(rng):
    np = rng.randint(2, 4)
    W = rng.choice([4, 8, 12])
    ne = rng.randint(2, 5)
    epochs = []
    for _ in range(ne):
        mode = rng.choice([0, 0, 1, 2, 2, 3])
        ops, stable = gen_epoch(rng, np, W, mode)
        epochs.append({"mode": mode, "ops": ops, "stable": stable})
    return {"np": np, "W": W, "epochs": epochs}


CORPUS = [
    {"np": 2, "W": 4, "epochs": [{"mode": 0, "ops": [[0, 0, 1, 0, 5, 0, [7, 8]], [1, 2, 0, 1, 0, 0, [5]], [1, 1, 0, 3, 1, 0, []]], "stable": [True, True, True]},
                                 {"mode": 2, "ops": [[0, 2, 1, 0, 0, 0, [1]], [1, 2, 1, 0, 0, 0, [2]], [0, 4, 0, 2, 5, 2, [9]]], "stable": [True, True, True]}]},
    {"np": 3, "W": 4, "epochs": [{"mode": 1, "ops": [[0, 3, 2, 0, 0, 0, [1]], [1, 3, 2, 0, 0, 0, [1]], [2, 3, 2, 0, 0, 0, [1]]], "stable": [False, False, False]},
                                 {"mode": 3, "ops": [[1, 2, 0, 0, 2, 0, [500, 1]], [2, 2, 0, 1, 2, 0, [700]], [0, 1, 1, 0, 4, 0, []]], "stable": [True, True, True]}]},
]


def model_line(p):
    l = [p["np"], p["W"], len(p["epochs"])]
    for e in p["epochs"]:
        l.append(len(e["ops"]))
        for o, k, t, d, op, c, vals in e["ops"]:
            l += [o, k, t, d, op, c, len(vals)] + vals
    return l


def prog_text(p):
    s = ["%d %d %d" % (p["np"], p["W"], len(p["epochs"]))]
    for e in p["epochs"]:
        s.append("%d %d" % (e["mode"], len(e["ops"])))
        for o, k, t, d, op, c, vals in e["ops"]:
            s.append(" ".join(map(str, [o, k, t, d, op, c, len(vals)] + vals)))
    return "\n".join(s) + "\n"


def run_impl(prog, p):
    d = os.path.join(fw.B, "c34")
    os.makedirs(d, exist_ok=True)
    fd, path = tempfile.mkstemp(prefix="prog_", suffix=".txt", dir=d)
    with os.fdopen(fd, "w") as f:
        f.write(prog_text(p))
    rc, so, se = fw.smpirun(prog, p["np"], [path], cfg=["smpi/privatization:no", "smpi/simulate-computation:no"], timeout=120)
    os.unlink(path)
    mem, res, bad, done = {}, {}, [], False
    for l in so.split("\n"):
        t = l.split()
        if not t:
            continue
        if t[0] == "M":
            mem[(int(t[1]), int(t[2]))] = [int(x) for x in t[3:]]
        elif t[0] == "R":
            res[(int(t[1]), int(t[2]))] = [int(x) for x in t[4:4 + int(t[3])]]
        elif t[0] == "X":
            bad.append(l)
        elif t[0] == "E":
            done = True
    return {"rc": rc, "mem": mem, "res": res, "bad": bad, "done": done, "err": (se + so)[-600:] if not done else ""}


def parse_model(p, out):
    """per epoch: flag, np*W cells, per op (n, vals)"""
    pos = 0
    eps = []
    for e in p["epochs"]:
        flag = out[pos]; pos += 1
        cells = out[pos:pos + p["np"] * p["W"]]; pos += p["np"] * p["W"]
        rs = []
        for _ in e["ops"]:
            n = out[pos]; rs.append(out[pos + 1:pos + 1 + n]); pos += 1 + n
        eps.append((flag, cells, rs))
    return eps


def describe(op):
    o, k, t, d, opn, c, vals = op
    return "%s(origin %d -> rank %d disp %d%s%s%s)" % (KN[k], o, t, d, "" if k in (0, 1, 4) else " op " + OPN[opn],
                                                   " count %d" % opn if k == 1 else " vals %s" % vals, " compare %d" % c if k == 4 else "")


def run(ctx):
    ctx.simgrid()
    ctx.prove()
    prog = fw.build_smpi_prog("smpi_c34")
    if ctx.replay:
        progs = [json.load(open(ctx.replay))["case"]["program"]]
    else:
        progs = list(CORPUS) + [gen_program(ctx.rng) for _ in range(ctx.n(150, 3000))]
    ctx.cov["rule"] = ("one evaluation = one epoch of a generated RMA program (2..4 ranks, windows of 4..12 ints, 2..5 epochs of fence / lock_all / "
                       "exclusive / shared locks); non-trivial = the epoch contains an operation that changes memory of another rank; distinct = distinct (program, epoch)")
    model = fw.run_model("c34", "run_c34", [model_line(p) for p in progs])
    with concurrent.futures.ThreadPoolExecutor(max(4, fw.NCPU)) as ex:
        impls = list(ex.map(lambda p: run_impl(prog, p), progs))
    dist = {"programs": len(progs), "epochs": 0, "ops": {k: 0 for k in KN}, "modes": {m: 0 for m in MODES}, "np": {}, "stable_results_compared": 0,
            "fetch_op_groups_checked": 0}
    for p, mo, im in zip(progs, model, impls):
        eps = parse_model(p, mo)
        dist["np"][p["np"]] = dist["np"].get(p["np"], 0) + 1
        if not im["done"] or im["bad"]:
            ctx.case(("prog", json.dumps(p, sort_keys=True)), True)
            ctx.fail("run-" + ("error-code" if im["bad"] else "crash"), "the RMA program does not run to completion (rc %d): %s %s" % (im["rc"], im["bad"][:2], im["err"][-300:]), {"program": p})
            continue
        for ei, (e, (flag, cells, rs)) in enumerate(zip(p["epochs"], eps)):
            dist["epochs"] += 1
            dist["modes"][MODES[e["mode"]]] += 1
            for op in e["ops"]:
                dist["ops"][KN[op[1]]] += 1
            nontriv = any(op[1] in (0, 2, 3, 4) and op[0] != op[2] for op in e["ops"])
            key = (json.dumps(p, sort_keys=True), ei)
            if flag != 1:
                # generator bug, not an implementation problem: the epoch has no unique expected memory
                ctx.mismatch("generator-epoch-not-commuting", "the verified all_commute_b rejects a generated epoch", {"program": p, "epoch": ei})
                break
            got = []
            for r in range(p["np"]):
                got += im["mem"].get((ei, r), [])
            sample = {"np": p["np"], "mode": MODES[e["mode"]], "ops": [describe(o) for o in e["ops"][:4]], "memory": got[:12]} if nontriv else None
            ctx.case(key, nontriv, sample)
            kinds = sorted(set(KN[op[1]] for op in e["ops"]))
            if got != cells:
                diff = [(i // p["W"], i % p["W"], g, c) for i, (g, c) in enumerate(zip(got, cells)) if g != c][:4]
                culprit = []
                for (r, x, g, c) in diff[:1]:
                    culprit = [describe(o) for o in e["ops"] if o[2] == r and o[3] <= x < o[3] + max(1, len(o[6]) if o[1] != 1 else o[4])]
                k0 = sorted(set(c.split("(")[0] for c in culprit)) or kinds
                ctx.fail("memory-%s-%s" % (MODES[e["mode"]], "+".join(k0)),
                         "after epoch %d (%s) window cells (rank, disp, found, sequential model) %s differ; operations on the first cell: %s"
                         % (ei, MODES[e["mode"]], diff, culprit), {"program": p, "epoch": ei})
                break      # later epochs start from a different memory
            fetch = {}
            for oi, (op, st) in enumerate(zip(e["ops"], e["stable"])):
                if op[1] in (1, 3, 4):
                    r = im["res"].get((ei, oi))
                    if st:
                        dist["stable_results_compared"] += 1
                        if r != rs[oi]:
                            ctx.fail("result-%s-%s" % (MODES[e["mode"]], KN[op[1]]), "epoch %d (%s): %s returned %s, sequential model %s" % (ei, MODES[e["mode"]], describe(op), r, rs[oi]),
                                     {"program": p, "epoch": ei})
                    else:
                        fetch.setdefault((op[2], op[3], op[4]), []).append((op, r))
            # atomic fetch-and-op from several origins on one cell: the returned old values must be explainable by SOME order
            for (t, d, opn), lst in fetch.items():
                dist["fetch_op_groups_checked"] += 1
                start = eps[ei - 1][1][t * p["W"] + d] if ei > 0 else 100 * t + d
                if not explainable(start, opn, [(o[6][0], r[0] if r else None) for o, r in lst]):
                    ctx.fail("atomicity-%s-Get_accumulate" % MODES[e["mode"]], "epoch %d (%s): fetch-and-%s on rank %d disp %d starting from %d returned %s: no serial order explains these values"
                             % (ei, MODES[e["mode"]], OPN[opn], t, d, start, [(o[0], o[6][0], r) for o, r in lst]), {"program": p, "epoch": ei})
    ctx.cov["input_distribution"] = dist
    ctx.assumptions += ["MPI_INT windows, values small enough that no 32-bit overflow occurs (the model uses unbounded integers)",
                        "every generated epoch consists of pairwise commuting operations (checked by the verified all_commute_b on every run), so the expected memory is unique",
                        "the request machinery (rma_send_init/recv_init, finish_comms, tags ordering accumulates) is not modelled: only its effect on memory is compared",
                        "exclusive-lock epochs: acquisition order is not observed; C34_exclusive_serial is a theorem about the model, the implementation is compared on order-independent epochs"]


def explainable(start, opn, pairs):
    """pairs = [(operand, returned old value)]: is there an order of the operations such that each returns the value
    before it?  (at most 4 operations: brute force)"""
    import itertools
    f = {0: lambda a, b: a + b, 2: max, 4: lambda a, b: a ^ b}[opn]
    for perm in itertools.permutations(range(len(pairs))):
        v = start
        ok = True
        for i in perm:
            if pairs[i][1] != v:
                ok = False
                break
            v = f(v, pairs[i][0])
        if ok:
            return True
    return False


META = {
    "level": "proof",
    "text": "Coq (unbounded programs): C34_window_sees_its_operations and C34_exclusive_serial - under exclusive locks every window ends with the memory of "
            "the serial execution of the critical sections in lock-acquisition order; C34_commuting_epoch, C34_commute_b_sound, "
            "C34_checked_epoch_order_independent - a fence/lock_all epoch whose operations pairwise commute (different targets, disjoint written cells, "
            "same-operator accumulates) has one possible final memory. Tie: generated RMA programs (2..4 ranks; fence, lock_all, exclusive and shared "
            "locks) run under smpirun; window contents after every closing synchronisation, values returned by stable Get/Get_accumulate/Compare_and_swap, "
            "and serial explainability of concurrent fetch-and-op results are compared with the extracted model.",
    "note": "PARTIAL: the request machinery of smpi_win.cpp (rma requests, finish_comms, accumulate ordering by tags) is not modelled, only its effect "
            "on memory; lock acquisition order is not observed, so exclusive-lock epochs are compared on order-independent operation sets only. "
            "Trusted: Coq kernel, extraction, harness/smpi_c34.c, the generator in checks/C34.py. Not covered: PSCW (post/start/complete/wait), "
            "request-based operations (Rput...), derived datatypes, 32-bit overflow.",
    "technique": "Coq proof (sequential RMA semantics, commutation) + extracted-model differential correspondence on generated programs",
    "claimed": True,
}
