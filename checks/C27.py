"""C27 — values with units are parsed to the documented magnitudes.
T: gen/units.py regenerates Gen/UnitsTable.v (generator tuples, prefix vectors, multipliers, default units) from
   src/xbt/xbt_parse_units.cpp; the theorems of Properties_C27.v are re-checked against it.
K: xbt_parse_get_{time,size,bandwidth,speed} of the rebuilt library vs. the extracted parse_impl on generated strings.
O: the verified oracle c27_ok (specification = documented table) judges every implementation observation."""
import json, os, sys
from fractions import Fraction
import fw

sys.path.insert(0, os.path.join(fw.ROOT, "gen"))
import units as gen_units

KINDS = ["time", "size", "bandwidth", "speed"]

# boundary / regression cases, always run first: (kind, string)
CORPUS = [(0, "1.5e3ms"), (1, " -12.EiB"), (3, "0x1.8p1kiloflops"), (3, "1Ef"), (3, "1E+f"), (2, "1e400Bps"), (2, "infBps"),
          (2, "5"), (2, ".Bps"), (0, "1e-320s"), (0, "0x1p-1074s"), (1, "nan(ab_1)B"), (1, "nan(ab_1B"), (1, "1e300YB"),
          (0, "0.1ms"), (1, "1KBps"), (2, "1KBps"), (2, "3 Bps"), (2, "\t3Bps"), (2, "+3.e-2kBps"), (2, "0xBps"),
          (2, "0x.8Bps"), (2, "0x.Bps"), (2, "infinitBps"), (2, "1YBps"), (2, "1Ybps"), (1, "1Kib"), (1, "1kb"), (1, "1Yib"),
          (3, "1zetaflops"), (3, "1zettaflops"), (3, "1exaflops"), (3, "2e3Ef"), (0, "1m"), (0, "1M"), (0, "7w"), (0, "1e3"),
          (0, ""), (0, " "), (0, "s"), (0, "-"), (0, "+.e3s"), (0, "1e"), (0, "1e+"), (0, "1.7976931348623157e308s"),
          (0, "1.7976931348623159e308s"), (0, "2.5e-1ps"), (1, "0"), (1, "-0B"), (2, "1e3"), (1, "12 B"), (1, "12B "),
          (1, "1,5B"), (1, "1_000B"), (0, "1e-300ps"), (0, "3e-310s"), (2, "1kBpS"), (2, "1kbps"), (2, "1kiBps"), (2, "1KiBps"), (2, "1Kbps")]


def enc(k, s):
    return [k] + [ord(c) & 0xff for c in s]


def decode_table(flat):
    out, i = [], 0
    while i < len(flat):
        n = flat[i]
        name = "".join(chr(c) for c in flat[i + 1:i + 1 + n])
        out.append((name, Fraction(flat[i + 1 + n], flat[i + 2 + n])))
        i += n + 3
    return out


def gen_number(rng):
    """(string, is it a plain decimal of the property text)"""
    r = rng.random()
    if r < 0.30:     # integers
        return str(rng.choice([0, 1, 2, 3, 7, 10, 12, 100, 1024, 65536, 999, rng.randint(0, 10 ** 6)]))
    if r < 0.55:     # dyadic decimals
        return "%d.%s" % (rng.randint(0, 4096), rng.choice(["5", "25", "125", "75", "0", "0625", "50", ""]))
    if r < 0.65:     # leading-dot and arbitrary decimals
        return rng.choice([".5", ".25", "0.1", "3.14159", "2.75", ".001", "%d.%d" % (rng.randint(0, 99), rng.randint(0, 999))])
    if r < 0.90:     # exponents
        m = rng.choice(["1", "2", "5", "25", "1.5", "2.5", "12.5", ".5", "3.", "7", "1.25", "6.02"])
        e = rng.choice(["e", "E"]) + rng.choice(["", "+", "-"]) + str(rng.choice([0, 1, 2, 3, 6, 9, 12, 15, 20, rng.randint(0, 30)]))
        return m + e
    if r < 0.95:     # hexadecimal floats
        return rng.choice(["0x10", "0x1p4", "0X1.8P+2", "0x.8", "0xA.8p-1", "0x1p-3", "0xff"])
    return rng.choice(["inf", "INF", "Infinity", "nan", "NaN", "1e308", "1e309", "1e-330", "4e-324", "1e-300"])


def decorate(rng, num):
    if rng.random() < 0.15:
        num = rng.choice(["-", "+"]) + num
    if rng.random() < 0.1:
        num = rng.choice([" ", "  ", "\t", "\n "]) + num
    return num


def gen_cases(ctx, units_by_kind, n_random, n_malformed):
    rng = ctx.rng
    cases = list(CORPUS)
    fixed = ["1", "0", "12", "1.5", "0.25", ".5", "3.", "2e3", "2.5E-1", "1e+2", "-4", " 8", "0.1", "1e21"]
    for k in range(4):
        for u in units_by_kind[k]:
            for num in fixed:
                cases.append((k, num + u))
    for _ in range(n_random):
        k = rng.randrange(4)
        u = rng.choice(units_by_kind[k] + [""])
        cases.append((k, decorate(rng, gen_number(rng)) + u))
    # malformed: unknown / damaged units, units of another kind, damaged numbers, random bytes
    alphabet = "0123456789.eE+-xXpP kKMGTibBsfw\tmunhd_,()"
    for _ in range(n_malformed):
        k = rng.randrange(4)
        r = rng.random()
        u = rng.choice(units_by_kind[k])
        num = decorate(rng, gen_number(rng))
        if r < 0.2:      # unit of another kind
            k2 = (k + rng.randint(1, 3)) % 4
            s = num + rng.choice(units_by_kind[k2])
        elif r < 0.4:    # damaged unit: case flip, dropped or doubled character
            j = rng.randrange(len(u))
            v = rng.choice([u[:j] + u[j].swapcase() + u[j + 1:], u[:j] + u[j + 1:], u[:j] + u[j] + u[j:], u + rng.choice("sBbi "), " " + u])
            s = num + v
        elif r < 0.55:   # no number at all / damaged number
            s = rng.choice(["", "-", "+", ".", "e3", "-.", "..5", "--1", "+-1", "e", "x1", ",5"]) + u
        elif r < 0.7:    # number cut or doubled
            s = num + rng.choice(["e", "e+", ".", "..", "e1.5", "ee3"]) + u
        else:
            s = "".join(rng.choice(alphabet) for _ in range(rng.randint(0, 8)))
        cases.append((k, s))
    return cases


def frac_of_obs(o):
    return Fraction(o[1]) * Fraction(2) ** o[2]


def describe(o):
    if o[0] == 0:
        return "rejected"
    if o[0] == 1:
        x = Fraction(o[1], o[2]) if len(o) > 3 else frac_of_obs(o)
        try:
            return "value %r" % float(x)
        except OverflowError:
            return "value of magnitude 2^%d" % (abs(x.numerator).bit_length() - x.denominator.bit_length())
    return {2: "inf", 3: "nan"}.get(o[0], str(o))


def run(ctx):
    ctx.simgrid(["simgrid"])
    parsed = None
    try:
        changed, parsed = gen_units.generate(fw.REPO, fw.COQ)
        if changed:
            ctx.notes.append("Gen/UnitsTable.v regenerated with new content")
    except gen_units.TranslateError as e:
        ctx.mismatch("gen/units.py", "the translator no longer understands src/xbt/xbt_parse_units.cpp: %s" % e)
    ctx.prove()
    drv = fw.build_harness("xbt1_units")
    doc = [decode_table(t) for t in fw.run_model("c27", "run_c27_doctable", [[k] for k in range(4)])]
    units_by_kind = []
    src_units = gen_units.all_units(parsed) if parsed else {k: [] for k in KINDS}
    for k in range(4):
        names = [n for n, _ in doc[k]]
        for n in src_units[KINDS[k]]:
            if n not in names:
                names.append(n)
        units_by_kind.append(names)
    if ctx.replay:
        rp = json.load(open(ctx.replay))["case"]
        cases = [(rp["kind"], rp["string"])]
    else:
        cases = gen_cases(ctx, units_by_kind, ctx.n(1500, 60000), ctx.n(1200, 40000))
    seen, uniq = set(), []
    for c in cases:
        if c not in seen:
            seen.add(c)
            uniq.append(c)
    cases = uniq
    inputs = [enc(k, s) for k, s in cases]
    rc, impl_lines, err = fw.run_lines(drv, [], [" ".join(map(str, c)) for c in inputs])
    if rc != 0 or len(impl_lines) != len(cases):
        i = min(len(impl_lines), len(cases) - 1)
        ctx.fail("driver-crash", "xbt1_units ended with rc=%d after %d/%d cases: %s" % (rc, len(impl_lines), len(cases), err[-300:]),
                 {"kind": cases[i][0], "string": cases[i][1]})
        return
    impl = [[int(t) for t in l.split()] for l in impl_lines]
    model = fw.run_model("c27", "run_c27_impl", inputs)
    spec = fw.run_model("c27", "run_c27_doc", inputs)
    verdict = fw.run_model("c27", "run_c27_ok", [[inp[0], len(inp) - 1] + inp[1:] + o for inp, o in zip(inputs, impl)])
    dist = {"accepted": 0, "rejected": 0, "inf_nan": 0, "exact": 0, "tolerance": 0, "per_kind": [0, 0, 0, 0]}
    ctx.cov["rule"] = ("every documented and every source-defined unit of each kind x 14 fixed number formats, then random numbers "
                       "(integers, dyadic decimals, arbitrary decimals, exponents, hex floats, inf/nan, range limits; optional sign and "
                       "leading white space) x unit, then malformed strings (unit of another kind, damaged unit, missing/damaged number, "
                       "random bytes). non-trivial = the string has a non-empty suffix after the number or is rejected by the "
                       "specification; distinct = distinct (kind, string)")
    for (k, s), i, m, sp, v in zip(cases, impl, model, spec, verdict):
        dist["per_kind"][k] += 1
        if sp[0] == 0:
            dist["rejected"] += 1
        elif sp[0] == 1:
            dist["accepted"] += 1
            dist["exact" if sp[3] == 1 else "tolerance"] += 1
        else:
            dist["inf_nan"] += 1
        nontriv = sp[0] == 0 or not s.strip().replace(".", "").replace("-", "").replace("+", "").isdigit()
        ctx.case((k, s), nontriv, {"kind": KINDS[k], "string": s, "impl": describe(i), "spec": describe(sp)})
        case = {"kind": k, "string": s}
        if v != [1]:
            if sp[0] == 0:
                sig = "accepts-malformed-" + KINDS[k]
            elif i[0] == 0:
                sig = "rejects-valid-" + KINDS[k]
            else:
                sig = "wrong-value-" + KINDS[k]
            ctx.fail(sig, "xbt_parse_get_%s(%r): implementation %s, documented conversion %s" % (KINDS[k], s, describe(i), describe(sp)), case)
            continue
        # K: the code-mirroring model (regenerated table) against the implementation
        same = (m[0] == i[0])
        if same and m[0] == 1:
            x, r = Fraction(m[1], m[2]), frac_of_obs(i)
            same = (r == x) if m[3] == 1 else (abs(r - x) * 2 ** 50 <= abs(x) or abs(r - x) * 2 ** 1073 <= 1)
        elif same and m[0] == 2:
            same = m[1] == i[1]
        elif m[0] == 1 and i[0] == 2:
            same = abs(Fraction(m[1], m[2])) >= 2 ** 1023
        if not same:
            ctx.mismatch("correspondence parse_impl ~ xbt_parse_get_%s" % KINDS[k],
                         "on %r the model built from the regenerated table gives %s, the library %s (the oracle accepts the library's answer)" % (s, describe(m), describe(i)), case)
    ctx.cov["input_distribution"] = dist
    ctx.assumptions += ["strtod is glibc's in the C locale (correctly rounded, ERANGE on overflow and on inexact tiny results)",
                        "binary64 rounding is not modelled: values are compared exactly when number, multiplier and product are binary64 "
                        "numbers, else within 2^-50 relative (2^-1073 absolute in the subnormal range)",
                        "decimal exponents in generated strings stay below 400 in magnitude (the exact model computes 10^e)",
                        "xbt_parse_get_bandwidths / xbt_parse_get_all_speeds (list splitting) are not modelled"]


META = {
    "level": "proof",
    "claimed": True,
    "text": "Coq theorems over the unit tables regenerated from xbt_parse_units.cpp on every run: as a finite map over all strings the table "
            "each kind builds (constructor mirrored: emplace, value *= mult per prefix) equals the documented one (SI k..Y = 10^3..10^24, IEC "
            "Ki..Yi = 2^10..2^80, bit = 1/8 byte, time units) and so does the default unit (C27_table_is_documented); for every decimal number of "
            "the grammar [spaces][sign]digits[.digits][e[sign]digits] (all lengths) followed by any documented unit the result is value x "
            "multiplier in exact arithmetic (C27_value), unit-less numbers take the default unit, unknown suffixes, strings without a number "
            "and out-of-range numbers are rejected (C27_unknown_unit_rejected, C27_no_number_rejected, C27_range_rejected). The verified oracle "
            "(C27_oracle_sound) judges the rebuilt library's answers on every unit x number formats and malformed strings.",
    "note": "Trusted: Coq kernel, extraction, gen/units.py (regex translator of the initializers; refuses what it does not understand), the C++ "
            "driver. strtod is modelled (exact value, no binary64 rounding: exact comparison only where exactness is forced, 2^-50 relative "
            "otherwise); hex floats/inf/nan are modelled and checked by correspondence only. The documentation spells the decimal kilo prefix "
            "'KBps' in XML_reference.rst while code and examples use 'k'; the specification follows SI ('k').",
    "technique": "source-to-Coq table translator + Coq proof (finite map equality by vm_compute lifted with forallb_forall; parser lemmas by "
                 "induction on strings) + extracted-model differential correspondence + verified oracle",
}
