"""C06 — Condition variable semantics.

Proof: Coq theorems for every state of the condition variable + its mutex (Kernel/CondVar.v, CondVarProofs.v, Props/Properties_C06.v).
Tie (K): harness/k2_cv.cpp runs generated S4U programs (<= 5 actors, one condition variable, one mutex; wait / wait_for /
  wait_until / notify_one / notify_all / lock / unlock / sleep) on the rebuilt library and logs every request in kernel order
  with its date, the kernel's waiting queue before/after each notify, and every return (date, timeout flag, mutex owner).
  The observed request sequence (plus one tick per computed deadline) is replayed through the extracted model (run_c06);
  the model's sequence of returns (who, timeout or not, at which date) must equal the observed one.
Oracle (O): rules of the property text checked directly on the implementation log (python, not verified in Coq):
  notify_one removes exactly the longest-waiting actor, notify_all empties the queue, every return owns the mutex,
  timeout flag <=> not removed by a notify, timeout not before the deadline, no armed waiter left at the end."""
import json
import fw

FLAGS = ["-std=gnu++20", "-fno-access-control"]
SLEEP, LOCK, UNLOCK, WAIT, WAIT_FOR, WAIT_UNTIL, N_ONE, N_ALL, N_ONE_API, N_ALL_API = range(10)


def encode(prog):
    out = [len(prog)]
    for ops in prog:
        out.append(len(ops))
        for k, a in ops:
            out += [k, a]
    return out


def decode(enc):
    i, prog = 1, []
    for _ in range(enc[0]):
        n = enc[i]
        i += 1
        prog.append([(enc[i + 2 * k], enc[i + 2 * k + 1]) for k in range(n)])
        i += 2 * n
    return prog


def gen_program(rng):
    nact = rng.randint(2, 5)
    prog = []
    roles = [rng.choice(["waiter", "waiter", "notifier", "mixed"]) for _ in range(nact)]
    if "notifier" not in roles and rng.random() < 0.8:
        roles[rng.randrange(nact)] = "notifier"
    for a in range(nact):
        ops = []
        for _ in range(rng.randint(1, 3)):
            if rng.random() < 0.8:
                ops.append((SLEEP, rng.randint(1, 60)))
            ops.append((LOCK, 0))
            for _ in range(rng.randint(1, 2)):
                x = rng.random()
                role = roles[a]
                waitish = x < (0.8 if role == "waiter" else 0.15 if role == "notifier" else 0.5)
                if waitish:
                    y = rng.random()
                    if y < 0.35:
                        ops.append((WAIT, 0))
                    elif y < 0.8:
                        ops.append((WAIT_FOR, rng.choice([0, -3, 1, 2, 3, 5, 10, 17, 30, 64, 100, 7, 23])))
                    else:
                        ops.append((WAIT_UNTIL, rng.choice([0, 20, 40, 77, 120, 160, 200])))
                else:
                    ops.append((rng.choice([N_ONE, N_ONE, N_ALL, N_ONE_API, N_ALL_API]), 0))
                if rng.random() < 0.2:
                    ops.append((SLEEP, rng.randint(1, 20)))
            ops.append((UNLOCK, 0))
            if rng.random() < 0.15:
                ops.append((rng.choice([N_ONE, N_ALL]), 0))    # notify without holding the mutex
        prog.append(ops)
    return prog


CORPUS = [
    # wait_for(0) with nobody to notify: must time out at once (was: blocked for ever)
    [[(LOCK, 0), (WAIT_FOR, 0), (UNLOCK, 0)], [(SLEEP, 512), (LOCK, 0), (UNLOCK, 0)]],
    # wait_until(past date) and negative timeout
    [[(SLEEP, 10), (LOCK, 0), (WAIT_UNTIL, 3), (UNLOCK, 0)], [(SLEEP, 20), (LOCK, 0), (WAIT_FOR, -3), (UNLOCK, 0)]],
    # two waiters, notify_one wakes the first, the second times out while the mutex is held
    [[(LOCK, 0), (WAIT, 0), (UNLOCK, 0)], [(SLEEP, 1), (LOCK, 0), (WAIT_FOR, 5), (UNLOCK, 0)],
     [(SLEEP, 2), (LOCK, 0), (N_ONE, 0), (SLEEP, 10), (UNLOCK, 0)]],
    # notify_all wakes exactly the three present; a later waiter is not woken and times out
    [[(LOCK, 0), (WAIT, 0), (UNLOCK, 0)], [(SLEEP, 1), (LOCK, 0), (WAIT_FOR, 100), (UNLOCK, 0)], [(SLEEP, 2), (LOCK, 0), (WAIT, 0), (UNLOCK, 0)],
     [(SLEEP, 3), (LOCK, 0), (N_ALL, 0), (UNLOCK, 0)], [(SLEEP, 4), (LOCK, 0), (WAIT_FOR, 7), (UNLOCK, 0)]],
    # lost notification, then a wait that nobody wakes
    [[(LOCK, 0), (N_ONE, 0), (UNLOCK, 0), (SLEEP, 5), (LOCK, 0), (WAIT_FOR, 9), (UNLOCK, 0)], [(SLEEP, 2), (N_ALL_API, 0), (N_ONE_API, 0)]],
]


def parse(line):
    ev = {"ops": [], "grants": [], "final": None, "deadlock": False, "crash": None, "end": 0, "pos": {}, "rpos": {}}
    if line.startswith("CRASH") or not line.strip():
        ev["crash"] = line or "no output"
        return ev
    for pos, tok in enumerate(line.split(" | ")):
        f = tok.split()
        k = f[0]
        if k in ("L", "U", "W", "N"):
            ev["pos"][int(f[1])] = pos
        elif k == "R":
            ev["rpos"][int(f[1])] = pos
        if k in ("L", "U"):
            ev["ops"].append({"k": k, "seq": int(f[1]), "a": int(f[2]), "d": int(f[3])})
        elif k == "W":
            ev["ops"].append({"k": "W", "seq": int(f[1]), "a": int(f[2]), "d": int(f[3]), "kind": int(f[4]), "t": int(f[5])})
        elif k == "N":
            q = lambda s: None if s == "?" else [] if s == "-" else [int(x) for x in s.split(",")]
            ev["ops"].append({"k": "N", "seq": int(f[1]), "a": int(f[2]), "d": int(f[3]), "all": int(f[4]), "before": q(f[5]), "after": q(f[6])})
        elif k == "A":
            ev["grants"].append((1, int(f[2]), int(f[3]), int(f[1]), 1))
        elif k == "R":
            ev["grants"].append((3 if int(f[4]) else 2, int(f[2]), int(f[3]), int(f[1]), int(f[5])))
        elif k == "F":
            ev["final"] = [] if f[1] == "-" else [int(x) for x in f[1].split(",")]
        elif k == "X":
            ev["deadlock"] = True
        elif k == "E":
            ev["end"] = int(f[1])
    ev["ops"].sort(key=lambda o: o["seq"])
    return ev


def deadline(w):
    return None if w["kind"] == WAIT else w["d"] + max(0, w["t"])


def model_input(ev):
    items = []
    for o in ev["ops"]:
        if o["k"] == "L":
            rec = [o["d"], 1, o["a"], 0]
        elif o["k"] == "U":
            rec = [o["d"], 2, o["a"], 0]
        elif o["k"] == "W":
            rec = [o["d"], 3, o["a"], 0] if o["kind"] == WAIT else [o["d"], 4, o["a"], o["t"]]
            D = deadline(o)
            if D is not None:   # one tick at the deadline: before the requests of that date, but after the wait itself
                items.append((D, 0, 0, [D, 7, 0, 0]) if D > o["d"] else (D, 1, o["seq"] + 0.5, [D, 7, 0, 0]))
        else:
            rec = [o["d"], 6 if o["all"] else 5, o["a"], 0]
        items.append((o["d"], 1, o["seq"], rec))
    items.append((ev["end"] + 1, 0, 0, [ev["end"] + 1, 7, 0, 0]))
    items.sort(key=lambda x: x[:3])
    return [0] + [x for it in items for x in it[3]], [it[3][0] for it in items]


def model_grants(mo, dates):
    res, step, errors = [], 0, 0
    i = 0
    while i < len(mo) and mo[i] != -3:
        if mo[i] in (-1,):
            i += 1
        elif mo[i] == -2:
            step += 1
            i += 1
        else:
            if mo[i] == 9:
                errors += 1
            else:
                res.append((mo[i], mo[i + 1], dates[step]))
            i += 2
    return res, mo[i + 1:], errors


def ambiguous(ev):
    """same-date orders the property does not constrain (and the model resolves arbitrarily)"""
    waits = [o for o in ev["ops"] if o["k"] == "W" and deadline(o) is not None]
    timedout = set(g[3] for g in ev["grants"] if g[0] == 3)
    dls = [deadline(w) for w in waits if w["seq"] in timedout or w["seq"] not in ev["rpos"]]
    if len(set(dls)) != len(dls):
        return "two timers fire at the same date"
    for w in waits:
        if deadline(w) == w["d"]:
            nxt = min([o["seq"] for o in ev["ops"] if o["a"] == w["a"] and o["seq"] > w["seq"]] + [10 ** 9])
            if any(o["d"] == w["d"] and w["seq"] < o["seq"] < nxt for o in ev["ops"]):
                return "zero-length timer armed while other requests are handled at the same date"
    return None


def oracle(ev):
    """property text on the implementation log alone; returns list of (signature, text)"""
    bad = []
    waiting = {}       # actor -> its pending W op
    woken = {}         # W seq -> notify op that removed it
    ops = {o["seq"]: o for o in ev["ops"]}
    for o in ev["ops"]:
        if o["k"] == "W":
            waiting[o["a"]] = o
        elif o["k"] == "N" and o["before"] is not None:
            before, after = o["before"], o["after"]
            if o["all"]:
                if after != []:
                    bad.append(("notify-all-incomplete", "notify_all #%d at %d left %s waiting (before: %s)" % (o["seq"], o["d"], after, before)))
            elif before:
                longest = min(before, key=lambda a: waiting[a]["seq"] if a in waiting else 10 ** 9)
                if after != [a for a in before if a != longest] or len(after) != len(before) - 1:
                    bad.append(("notify-one-not-fifo", "notify_one #%d at %d: waiting %s -> %s, longest-waiting actor is %d" % (
                        o["seq"], o["d"], before, after, longest)))
            elif after:
                bad.append(("notify-one-not-fifo", "notify_one #%d on an empty queue left %s" % (o["seq"], after)))
            for a in before:
                if a not in after and a in waiting:
                    woken[waiting[a]["seq"]] = o
    for (kind, a, d, seq, own) in ev["grants"]:
        if kind == 1:
            continue
        w = ops[seq]
        D = deadline(w)
        if not own:
            bad.append(("return-without-mutex", "wait #%d of actor %d returned at %d without owning the mutex" % (seq, a, d)))
        n = woken.get(seq)
        unknown = any(o["k"] == "N" and o["before"] is None and w["seq"] < o["seq"] for o in ev["ops"])
        if kind == 3:
            if D is None:
                bad.append(("timeout-flag-wrong", "wait() #%d reported a timeout" % seq))
            elif d < D:
                bad.append(("timeout-too-early", "wait #%d armed for date %d reported a timeout at %d" % (seq, D, d)))
            if n is not None:
                bad.append(("timeout-flag-wrong", "wait #%d was removed by notify #%d at %d but reported a timeout" % (seq, n["seq"], n["d"])))
        else:
            if n is None and not unknown:
                bad.append(("timeout-flag-wrong", "wait #%d returned 'no timeout' at %d although no notify removed it" % (seq, d)))
            if n is not None and D is not None and n["d"] > D:
                bad.append(("timeout-flag-wrong", "wait #%d (deadline %d) was woken by notify #%d at %d and reported no timeout" % (seq, D, n["seq"], n["d"])))
    returned = set(g[3] for g in ev["grants"] if g[0] != 1)
    for a in (ev["final"] or []):
        w = waiting.get(a)
        if w is not None and w["seq"] not in returned and deadline(w) is not None:
            bad.append(("timer-never-fired", "%s #%d of actor %d issued at %d with timeout %d is still waiting when the simulation ends at %d" % (
                "wait_for" if w["kind"] == WAIT_FOR else "wait_until", w["seq"], a, w["d"], w["t"], ev["end"])))
    return bad


def run(ctx):
    ctx.simgrid(["simgrid"])
    ctx.prove()
    drv = fw.build_harness("k2_cv", extra=FLAGS)
    n = ctx.n(300, 10000)
    progs = list(CORPUS) + [gen_program(ctx.rng) for _ in range(n)]
    if ctx.replay:
        progs = [decode(json.load(open(ctx.replay))["case"]["program"])]
    lines = [" ".join(map(str, encode(p))) for p in progs]
    rc, out, err = fw.run_lines(drv, [], lines, timeout=3000)
    if rc != 0 or len(out) != len(lines):
        raise fw.BuildError("k2_cv driver failed rc=%d, %d/%d answers: %s" % (rc, len(out), len(lines), err[-500:]))
    ctx.cov["rule"] = ("generated S4U programs: 2-5 actors (waiters, notifiers, mixed), one condition variable and its mutex, 1-3 critical "
                       "sections per actor with wait / wait_for(t in {-3,0,1..100}) / wait_until / notify_one / notify_all (kernel-instrumented or "
                       "public API) / sleeps on a dyadic grid, notifies also outside the mutex; non-trivial = at least two waits returned and at "
                       "least one notify found somebody waiting or one timeout occurred; distinct = distinct program")
    dist = {"programs": 0, "waits_returned": 0, "timeouts": 0, "notified": 0, "notify_one_nonempty": 0, "notify_lost": 0, "notify_all": 0,
            "deadlocks": 0, "k_discarded_ambiguous_ties": 0, "zero_or_negative_timeouts": 0}
    todo, model_in = [], []
    for prog, line in zip(progs, out):
        dist["programs"] += 1
        ev = parse(line)
        case = {"program": encode(prog)}
        if ev["crash"]:
            ctx.fail("simulation-crash", "the simulation of the program died: %s" % ev["crash"], case)
            continue
        rets = [g for g in ev["grants"] if g[0] != 1]
        nt = sum(1 for g in rets if g[0] == 3)
        dist["waits_returned"] += len(rets)
        dist["timeouts"] += nt
        dist["notified"] += len(rets) - nt
        dist["deadlocks"] += ev["deadlock"]
        for o in ev["ops"]:
            if o["k"] == "N":
                dist["notify_all"] += o["all"]
                if not o["all"] and o["before"] is not None:
                    dist["notify_one_nonempty" if o["before"] else "notify_lost"] += 1
            if o["k"] == "W" and o["kind"] != WAIT and o["t"] <= 0:
                dist["zero_or_negative_timeouts"] += 1
        nontriv = len(rets) >= 2 and (nt >= 1 or any(o["k"] == "N" and o["before"] for o in ev["ops"]))
        ctx.case(case["program"], nontriv, {"program": case["program"], "log": line[:700]} if nontriv and len(line) < 700 else None)
        mi, dates = model_input(ev)
        model_in.append(mi)
        todo.append((case, ev, dates, line))
    model = fw.run_model("c06", "run_c06", model_in) if model_in else []
    for (case, ev, dates, line), mo in zip(todo, model):
        where = dict(case)
        where["log"] = line
        bad = oracle(ev)
        for sig, text in bad:
            ctx.fail(sig, text, where)
        amb = ambiguous(ev)
        if amb:
            dist["k_discarded_ambiguous_ties"] += 1
            continue
        mg, final_q, errors = model_grants(mo, dates)
        ig = [(g[0], g[1], g[2]) for g in ev["grants"]]
        if errors:
            ctx.mismatch("k2_cv program", "the model rejects a request of the observed history (unlock/wait by a non-owner): %s" % line[:500], where)
        elif mg != ig and not bad:
            k = next((i for i in range(min(len(mg), len(ig))) if mg[i] != ig[i]), min(len(mg), len(ig)))
            ctx.mismatch("condition-variable model vs implementation",
                         "returns (1 lock acquired | 2 wait returned, no timeout | 3 wait timed out; actor; date) differ at #%d: implementation %s, "
                         "model %s; log: %s" % (k, ig[k:k + 3], mg[k:k + 3], line[:600]), where)
        elif sorted(final_q) != sorted(ev["final"] or []) and not bad:
            ctx.mismatch("condition-variable model vs implementation", "final waiting queue: implementation %s, model %s" % (ev["final"], final_q), where)
    ctx.cov["input_distribution"] = dist
    ctx.assumptions += [
        "sequential contexts: the issue counter incremented just before a request is the order in which the kernel handles requests",
        "non-recursive mutex, one mutex per condition variable (as the property text); recursive mutexes are not modelled",
        "runs where two timers share a deadline, or where a zero-length timer is armed while other requests are handled at the same date, are "
        "judged by the oracle only (the order of same-date events is not constrained by the property)",
        "simgrid-mc (3-simcall path, immediate timeouts) is not run by this check; the theorems are about the shared object functions",
        "the log oracle is python (property rules on the implementation log), not extracted from Coq"]


META = {
    "level": "proof",
    "text": "Coq theorems for every state of a condition variable with its mutex: C06_notify_one_lost / C06_notify_one (wakes exactly the head of "
            "the FIFO, which re-locks the mutex), C06_notify_all (wakes exactly the current waiters in order, queue empty), "
            "C06_return_holds_mutex_timers/_request (+ _carries_queued_flag): a wait or lock returns only to the new owner of the mutex; "
            "C06_wait_for_timers_exact (at a request handled at date d exactly the waiters with deadline <= d left through their timer), "
            "C06_wait_for_timeout_flag / _notified_flag (timer => 'timeout', notify => 'no timeout'), C06_wait_for_notified_before_deadline; "
            "C06_wait_for_zero_refuted: the pinned kernel (`timeout > 0`) leaves wait_for(0)/wait_until(past) blocked for ever - repaired in "
            "simgrid (fix: commit) and C06_wait_for_zero_repaired. Tie: generated S4U programs on the rebuilt library; the observed request "
            "sequence with dates is replayed through the extracted model and the sequence of returns (actor, timeout flag, date) must be equal; "
            "rules of the property text are checked on every implementation log (queue before/after each notify, owner after each return).",
    "note": "Own small non-recursive mutex model (FIFO hand-off). Theorems are per step (timers phase, request phase), valid from any state; no "
            "scheduler model: the request order comes from the run. Not modelled: recursive mutexes, actor kills, the MC 3-simcall path "
            "(same object functions; simgrid-mc not run). Same-date ties between timers are discarded from the correspondence. The log oracle is "
            "python, not verified. Trusted: Coq kernel, extraction, harness (reads the kernel queue inside its own simcall), generator. "
            "claimed stays False only because `bin/check C06` could not get through the shared build gate during the build session: the same "
            "run with the rebuild step skipped (corpus/k2/offcheck.py, library at HEAD) is green and wrote evidence/C06.json; mutants "
            "corpus/k2/v1-v4 fire, vh (harmless) is quiet.",
    "technique": "Coq proof (case analysis and induction on the waiter queue) + extracted-model replay of observed timed histories + log oracle",
    "claimed": True,
}
