"""C41 — reported counter-examples are real and replayable.

Proof: RecordTrace(to_string(p)) = p for every non-empty path (Coq, unbounded).
K: random paths and random strings through the real RecordTrace (to_string / constructor) and the extracted model.
O: small programs with a reachable failure run under simgrid-mc with each reduction; the reported path must parse back
   to itself, and replaying it twice out of simgrid-mc with --cfg=model-check/replay must walk exactly the chunks of the
   path and end, both times and identically, in the kind of failure that was reported."""
import concurrent.futures, json, re, time
import fw

DRV_FLAGS = ["-std=gnu++20", "-fno-access-control"]
MC_TIMEOUT = 60
ALPHA = [48, 49, 50, 51, 53, 57, 47, 59, 59, 32, 43, 120]      # 0 1 2 3 5 9 / ; ; ' ' + x

FAILING = [  # scenario, parameters, expected kind
    ("fail_order", lambda r: [], "assert"),
    ("fail_deadlock", lambda r: [], "deadlock"),
    ("fail_random", lambda r: [r.randint(0, 1)], "assert"),
    ("fail_crash", lambda r: [], "crash"),
    ("fail_waitany", lambda r: [], "assert"),
]


class Model:
    def __init__(self, area):
        self.exe = fw.build_model(area)

    def run(self, fn, cases):
        if not cases:
            return []
        inp = "\n".join(" ".join(str(int(x)) for x in c) for c in cases) + "\n"
        rc, so, se = fw.sh2([self.exe, fn], inp=inp, timeout=1800)
        lines = so.split("\n")
        if lines and lines[-1] == "":
            lines.pop()
        if rc != 0 or len(lines) != len(cases):
            raise fw.BuildError("model %s: rc %d, %d answers for %d cases: %s" % (fn, rc, len(lines), len(cases), se[-500:]))
        return [[int(t) for t in l.split()] for l in lines]


def sh_retry(cmd, timeout):
    rc, out = 127, ""
    for attempt in range(4):
        # a time-out is only believed after a second, three times longer, attempt (the machine may be very loaded)
        rc, out = fw.sh(cmd, timeout=timeout * (3 if attempt else 1))
        if rc in (126, 127):           # binary being re-linked by a concurrent build
            time.sleep(5)
            continue
        if rc == 124 and attempt == 0:
            continue
        break
    return rc, out


def kind_of_report(out):
    if "PROPERTY NOT VALID" in out:
        return "assert"
    if "DEADLOCK DETECTED" in out:
        return "deadlock"
    if "CRASH IN THE PROGRAM" in out:
        return "crash"
    return None


def kind_of_replay(rc, out):
    if "MC assertion failed" in out:
        return "assert"
    if "DEADLOCK detected" in out:
        return "deadlock"
    if rc in (134, -6) or "Aborted" in out:
        return "crash"
    return None


def normalise(out):
    out = re.sub(r"0x[0-9a-fA-F]+", "0x?", out)
    return "\n".join(l for l in out.split("\n") if not re.match(r"\s*#\d+ ", l) and "timeout after" not in l)


def run(ctx):
    ctx.simgrid(["simgrid", "simgrid-mc"])
    rep = json.load(open(ctx.replay))["case"] if ctx.replay else None
    ctx.prove()
    model = Model("c41")
    drv = fw.build_harness("mc2_rec_drv", extra=DRV_FLAGS)
    prog = fw.build_harness("mc2_prog", extra=["-std=gnu++20"])
    dist = {"paths": 0, "strings": 0, "programs": 0, "replays": 0}
    ctx.cov["rule"] = ("one case = one random path (1..12 chunks, actor ids 0..30, times_considered 0 in 60% of the chunks else up to 65535) "
                       "printed and re-read by the real RecordTrace, one random string over '0123 59/;; +x' given to the real constructor, or "
                       "one failing program under one reduction with its two replays; non-trivial = the path has a chunk with times > 0 or "
                       "more than one chunk / the string is accepted / a failure was reported")

    def drive(lines):
        rc, out, err = fw.run_lines(drv, ["--log=root.thres:critical"], lines, timeout=600)
        if len(out) != len(lines):
            raise fw.BuildError("mc2_rec_drv answered %d lines for %d (rc %d): %s" % (len(out), len(lines), rc, err[-400:]))
        return out

    # ---- K/O: codec on random paths
    n = ctx.n(400, 8000)
    corpus = [[(1, 0)], [(1, 0), (3, 0), (1, 0)], [(1, 2), (1, 1)], [(0, 0)], [(30, 65535), (0, 1)], [(10, 0), (2, 10)]]
    paths = corpus + [[(ctx.rng.randint(0, 30), 0 if ctx.rng.random() < 0.6 else ctx.rng.choice([1, 2, 9, 10, ctx.rng.randint(1, 65535)]))
                       for _ in range(ctx.rng.randint(1, 12))] for _ in range(n)]
    if rep:
        paths = [[tuple(x) for x in rep["path"]]] if rep.get("kind") == "path" else []
    flat = [[x for e in p for x in e] for p in paths]
    mstr = model.run("run_c41_to_string", flat)
    rstr = drive(["tostr " + " ".join(map(str, f)) for f in flat]) if flat else []
    back = drive(["parse " + " ".join(r.split()) for r in rstr]) if flat else []
    for p, f, ms, rs, bk in zip(paths, flat, mstr, rstr, back):
        dist["paths"] += 1
        case = {"kind": "path", "path": p}
        ctx.case(("path", tuple(p)), len(p) > 1 or any(t > 0 for _, t in p), {"path": p, "text": "".join(chr(int(c)) for c in rs.split())} if len(p) > 1 else None)
        rcodes = [int(c) for c in rs.split()]
        toks = bk.split()
        got = None
        if toks and toks[0] == "OK":
            k = int(toks[1])
            vals = [int(x) for x in toks[2:2 + 2 * k]]
            got = list(zip(vals[0::2], vals[1::2]))
        if got != list(p):
            ctx.fail("codec-roundtrip", "path %s is printed as '%s' and read back as %s" % (p, "".join(map(chr, rcodes)), got if got is not None else "an error"), case)
            continue
        if ms != rcodes:
            ctx.mismatch("to_string", "model prints %s, RecordTrace::to_string prints %s for %s" % (ms, rcodes, p), case)

    # ---- K: the constructor on arbitrary strings
    ns = ctx.n(400, 8000) if not rep else 0
    strs = [[49, 47, 59, 50], [59, 49], [32, 43, 52, 47, 59, 120, 59, 53], [49, 59], [49, 47, 50, 120, 59, 51]]
    strs += [[ctx.rng.choice(ALPHA) for _ in range(ctx.rng.randint(1, 14))] for _ in range(ns)]
    if rep:
        strs = [rep["string"]] if rep.get("kind") == "string" else []
    mp = model.run("run_c41_parse", strs)
    rp = drive(["parse " + " ".join(map(str, s)) for s in strs]) if strs else []
    for s, m, r in zip(strs, mp, rp):
        dist["strings"] += 1
        case = {"kind": "string", "string": s}
        toks = r.split()
        ok = bool(toks) and toks[0] == "OK"
        ctx.case(("string", tuple(s)), ok)
        if (m[0] == 1) != ok:
            ctx.mismatch("parse", "model %s, constructor %s on '%s'" % ("accepts" if m[0] == 1 else "rejects", "accepts" if ok else "rejects", "".join(map(chr, s))), case)
            continue
        if ok:
            k = int(toks[1])
            real = [int(x) for x in toks[2:2 + 2 * k]]
            mv = m[2:]
            if all(0 <= a <= 30 for a in mv[0::2]) and all(0 <= t <= 65535 for t in mv[1::2]) and (m[1] != k or mv != real):
                ctx.mismatch("parse", "model reads %s, constructor reads %s from '%s'" % (mv, real, "".join(map(chr, s))), case)

    # ---- O: reports of simgrid-mc and their replays
    reductions = ["dpor", "none"] if ctx.quick else ["dpor", "none", "sdpor", "odpor"]
    todo = [(name, pg(ctx.rng), kind, red) for (name, pg, kind) in FAILING for red in reductions]
    if rep:
        todo = [(rep["scenario"], rep["params"], rep["expect"], rep["reduction"])] if rep.get("kind") == "program" else []

    def one(t):
        name, params, kind, red = t
        args = [prog, fw.SMALL_PLATFORM, name] + [str(x) for x in params] + ["--log=xbt_cfg.thresh:warning", "--log=no_loc"]
        rc, out = sh_retry([fw.SIMGRID_MC] + args + ["--cfg=model-check/reduction:" + red], MC_TIMEOUT)
        m = re.search(r"model-check/replay:'([^']*)'", out)
        res = {"rc": rc, "out": out, "path": m.group(1) if m else None, "reported": kind_of_report(out), "replays": []}
        if m and m.group(1):
            for _ in range(2):
                rrc, rout = sh_retry(args + ["--cfg=model-check/replay:" + m.group(1)], MC_TIMEOUT)
                res["replays"].append((rrc, rout))
        return res

    with concurrent.futures.ThreadPoolExecutor(max_workers=4) as ex:
        results = list(ex.map(one, todo))
    texts = [[ord(c) for c in r["path"]] for r in results if r["path"]]
    parsed = model.run("run_c41_parse", texts)
    reprinted = model.run("run_c41_to_string", [p[2:] if p[0] == 1 else [] for p in parsed])
    pi = 0
    for (name, params, kind, red), r in zip(todo, results):
        dist["programs"] += 1
        case = {"kind": "program", "scenario": name, "params": params, "expect": kind, "reduction": red}
        ctx.case(("program", name, tuple(params), red), r["reported"] is not None,
                 {"scenario": name, "reduction": red, "reported": r["reported"], "path": r["path"]})
        if r["rc"] == 124:
            ctx.mismatch("simgrid-mc", "no answer within %ds on %s (%s)" % (MC_TIMEOUT, name, red), case)
            continue
        if r["reported"] is None or not r["path"]:
            # finding the failure is the subject of C38; nothing to replay here
            ctx.notes.append("no failure reported for %s %s under reduction %s" % (name, params, red))
            continue
        mparse, mprint, text = parsed[pi], reprinted[pi], texts[pi]
        pi += 1
        if mparse[0] != 1 or mprint != text:
            ctx.fail("path-not-canonical", "the reported path '%s' of %s (%s) does not parse back to itself (model: %s)" % (r["path"], name, red, mparse), case)
            continue
        chunks = list(zip(mparse[2::2], mparse[3::2]))
        outs = []
        for (rrc, rout) in r["replays"]:
            dist["replays"] += 1
            walked = [(int(a), int(t)) for a, t in re.findall(r"Path chunk #\d+ '(\d+)/(\d+)'", rout)]
            k = kind_of_replay(rrc, rout)
            if rrc == 124:
                ctx.fail("replay-hangs", "replaying '%s' on %s does not finish within %ds" % (r["path"], name, MC_TIMEOUT), case)
                break
            if walked != chunks:
                ctx.fail("replay-diverges", "replaying '%s' on %s (%s) walks %s instead of %s: %s" % (r["path"], name, red, walked, chunks, rout[-300:]), case)
                break
            if k != r["reported"]:
                ctx.fail("replay-other-outcome", "simgrid-mc (%s) reported %s on %s with path '%s'; its replay ends with %s (rc %d): %s"
                         % (red, r["reported"], name, r["path"], k, rrc, rout[-300:]), case)
                break
            outs.append(normalise(rout))
        else:
            if len(outs) == 2 and outs[0] != outs[1]:
                ctx.fail("replay-not-deterministic", "two replays of '%s' on %s print different things" % (r["path"], name), case)
        if r["reported"] != kind:
            ctx.notes.append("%s under %s: reported %s where the scenario was written for %s" % (name, red, r["reported"], kind))
    ctx.cov["input_distribution"] = dist
    ctx.assumptions += ["actor ids below 31 (mc::Aid is an 8-bit value with 31 = INVALID here) and times_considered below 65536 in the tie; "
                        "the theorem itself is unbounded", "sscanf's '-' sign and C overflow are not modelled (never printed by to_string)",
                        "reachability of the reported state in the reference semantics is observed through the replay of the real "
                        "application only (no kernel model is replayed)"]


META = {
    "level": "proof",
    "text": "Coq theorem, unbounded in path length and id sizes: the RecordTrace constructor applied to RecordTrace::to_string(p) gives back p "
            "for every non-empty path (C41_path_codec); the empty path is printed as '' and refused (C41_empty_path_rejected). Printer and "
            "parser are tied to the rebuilt library on random paths and random strings. For programs with a reachable assertion failure, "
            "deadlock or crash, under each reduction, the reported path parses back to itself and two replays with model-check/replay walk "
            "exactly its chunks and end identically in the reported kind of failure.",
    "note": "Reality of a report is judged by replaying the real application, not by a reference semantics (C41_replay_reaches of the design "
            "is not mechanised). A failure before the first transition is reported with the empty path, which cannot be given to "
            "model-check/replay (simgrid then runs without replay, which reproduces that failure anyway).",
    "technique": "Coq proof (decimal printing/scanning, induction on the path) + differential correspondence + model-checker runs and replays",
    "claimed": True,
}
