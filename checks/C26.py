"""C26 — structured topologies follow their routing algorithms (torus, star; fat-tree and dragonfly: see META).
K: routing_drv builds each platform through the C++ platform API of the rebuilt library and dumps Host::route_to for
   all ordered host pairs; the extracted Coq functions (run_torus / run_star) are fed the same description; the link
   sequences must be identical (the property fixes them for torus and star).
O: when they differ, the verified predicates decide: a torus route that is still a dimension-ordered shortest-way walk
   using the links joining consecutive nodes (and limiters/loopback as configured) is a harmless difference."""
import itertools, json, os, re, subprocess
from concurrent.futures import ThreadPoolExecutor
import fw
from routing_lib import run_platforms, parse_routes, run_model_par


# ----------------------------------------------------------------------------------------------- torus
def prod(ds):
    p = 1
    for d in ds:
        p *= d
    return p


def torus_shapes(maxdims, maxnodes, with_ones):
    """all dimension vectors (order matters) with product <= maxnodes"""
    res = []

    def rec(cur, p):
        if cur:
            res.append(list(cur))
        if len(cur) == maxdims:
            return
        for d in range(1 if with_ones else 2, maxnodes + 1):
            if p * d > maxnodes:
                break
            rec(cur + [d], p * d)
    rec([], 1)
    return res


def torus_names(z, split, triples):
    out = []
    for i in range(0, len(triples), 3):
        k, a, b = triples[i:i + 3]
        if k in (0, 1):
            out.append("%s_link_from_%d_to_%d%s" % (z, a, b, ("_UP" if k == 0 else "_DOWN") if split else ""))
        elif k == 2:
            out.append("%s_lb%d" % (z, a))
        else:
            out.append("%s_lim%d" % (z, a))
    return out


def torus_coords(dims, x):
    c = []
    for d in dims:
        c.append(x % d)
        x //= d
    return c


def torus_oracle(dims, lb, lim, split, s, t, links, z="t"):
    """property-level judgement of one implementation route (used only when it differs from the verified function):
    dimension by dimension, the shorter way round, links joining consecutive nodes, limiters/loopback as configured.
    Returns None if acceptable, else a reason."""
    if s == t and lb:
        return None if links == ["%s_lb%d" % (z, s)] else "loopback route is not exactly the configured loopback link"
    seq = list(links)
    nodes = [s]
    cur = s
    hops = []
    strides = [prod(dims[:j]) for j in range(len(dims))]
    import re
    while seq:
        if lim:
            if seq[0] != "%s_lim%d" % (z, cur):
                return "limiter of node %d missing at its place" % cur
            seq.pop(0)
            if not seq:
                break
        m = re.match(r"%s_link_from_(\d+)_to_(\d+)(_UP|_DOWN)?$" % z, seq[0])
        if not m:
            return "unexpected link %s" % seq[0]
        a, b = int(m.group(1)), int(m.group(2))
        seq.pop(0)
        if cur == a:
            nxt, up = b, True
        elif cur == b:
            nxt, up = a, False
        else:
            return "link %d-%d does not touch the current node %d" % (a, b, cur)
        if split and (m.group(3) == "_UP") != up:
            return "wrong direction of split-duplex link"
        ca, cb = torus_coords(dims, cur), torus_coords(dims, nxt)
        diff = [j for j in range(len(dims)) if ca[j] != cb[j]]
        if len(diff) != 1 or (cb[diff[0]] - ca[diff[0]]) % dims[diff[0]] not in (1, dims[diff[0]] - 1):
            return "link does not join neighbours"
        j = diff[0]
        # direction: a->b is +1 by construction of create_torus_links (b is the +1 neighbour of a), except d == 2
        hops.append((j, up))
        cur = nxt
    if cur != t:
        return "route ends at node %d, not at the destination" % cur
    if lim and (not links or links[-1] != "%s_lim%d" % (z, t)):
        return "limiter of the destination missing"
    if [h[0] for h in hops] != sorted(h[0] for h in hops):
        return "not dimension by dimension"
    cs, ct = torus_coords(dims, s), torus_coords(dims, t)
    for j, d in enumerate(dims):
        n = sum(1 for h in hops if h[0] == j)
        if n != min((ct[j] - cs[j]) % d, (cs[j] - ct[j]) % d):
            return "dimension %d: %d hops, shorter way is %d" % (j, n, min((ct[j] - cs[j]) % d, (cs[j] - ct[j]) % d))
    return None


def torus_case_lines(dims, lb, lim, split):
    return ["torus t - %s %d %d %s 1" % (",".join(map(str, dims)), lb, lim, "split" if split else "shared"),
            "sealall", "dump"]


def check_torus(ctx, drv, cfgs, dist):
    plats = [torus_case_lines(*c) for c in cfgs]
    outs = run_platforms(drv, plats)
    mcases, index = [], []
    for ci, (dims, lb, lim, split) in enumerate(cfgs):
        n = prod(dims)
        for s in range(n):
            for t in range(n):
                mcases.append([lb, lim, s, t, len(dims)] + dims)
                index.append((ci, s, t))
    model = run_model_par("c26", "run_torus", mcases)
    per = {}
    for (ci, s, t), m in zip(index, model):
        per.setdefault(ci, {})[(s, t)] = m
    for ci, ((dims, lb, lim, split), (rc, out, err)) in enumerate(zip(cfgs, outs)):
        case = {"kind": "torus", "dims": dims, "loopback": lb, "limiter": lim, "split": split}
        routes, bad = parse_routes(out)
        n = prod(dims)
        if rc != 0 or bad or len(routes) != n * n:
            ctx.fail("torus-build", "torus %s: driver rc=%d, %d/%d routes, %s %s" % (case, rc, len(routes), n * n, bad[:2], err[-300:]), case)
            continue
        dist["torus_platforms"] += 1
        for s in range(n):
            for t in range(n):
                r = routes.get(("t_h%d" % s, "t_h%d" % t))
                exp = torus_names("t", split, per[ci][(s, t)])
                dist["torus_routes"] += 1
                nontriv = s != t and sum(1 for a, b in zip(torus_coords(dims, s), torus_coords(dims, t)) if a != b) >= 1
                ctx.case(("torus", tuple(dims), lb, lim, split, s, t), nontriv,
                         {"platform": case, "src": s, "dst": t, "impl": r[2] if r[0] == "R" else r, "verified": exp}
                         if nontriv and len(exp) > 3 else None)
                if r[0] == "R" and r[2] == exp:
                    continue
                c2 = dict(case, src=s, dst=t, impl=r, verified=exp)
                why = "exception: " + r[1] if r[0] == "X" else torus_oracle(dims, lb, lim, split, s, t, r[2])
                if why:
                    ctx.fail("torus-route", "torus %s route %d->%d is %s, verified algorithm gives %s: %s" % (
                        "x".join(map(str, dims)), s, t, r[2] if r[0] == "R" else r, exp, why), c2)
                else:
                    # harmless: a different but still dimension-ordered shortest-way walk (tie broken the other way)
                    dist["torus_harmless_differences"] = dist.get("torus_harmless_differences", 0) + 1
                    if len(ctx.notes) < 5:
                        ctx.notes.append("route %d->%d in torus %s differs from the modelled code but satisfies the property "
                                         "(oracle): impl %s model %s" % (s, t, dims, r[2], exp))


# ----------------------------------------------------------------------------------------------- star
def gen_star(rng, nh):
    """a star zone with nh hosts; returns (lines, decl) where decl[h] = (loop, up, down) as lists of link names"""
    lines = ["zone s - star"]
    nlinks = rng.randint(1, 6)
    split = [rng.random() < 0.3 for _ in range(nlinks)]
    for i in range(nlinks):
        lines.append("link L%d s %d%s" % (i, i + 1, " split" if split[i] else ""))
    for h in range(nh):
        lines.append("host h%d s" % h)

    def pick(k):
        return " ".join("L%d%s" % (i, ":" + rng.choice("UD") if split[i] else "")
                        for i in (rng.randrange(nlinks) for _ in range(k)))
    for h in range(nh):
        mode = rng.choice(["sym", "updown", "none", "updown", "sym"])
        if mode == "sym":
            lines.append("route s h%d - - - 1 %s" % (h, pick(rng.randint(1, 4))))
        elif mode != "none":
            lines.append("route s h%d - - - 0 %s" % (h, pick(rng.randint(0, 4))))
            lines.append("route s - h%d - - 0 %s" % (h, pick(rng.randint(0, 4))))
        if mode != "none" and rng.random() < 0.4:
            lines.append("route s h%d h%d - - 0 %s" % (h, h, pick(rng.randint(1, 3))))
    lines += ["sealall", "dump"]
    return lines, star_decl_from_lines(lines)


def check_star(ctx, drv, plats, dist):
    outs = run_platforms(drv, [p[0] for p in plats])
    mcases, keys, ok = [], [], {}
    for pi, ((lines, decl), (rc, out, err)) in enumerate(zip(plats, outs)):
        case = {"kind": "star", "lines": lines}
        routes, bad = parse_routes(out)
        nh = len(decl)
        if rc != 0 or bad or len(routes) != nh * nh:
            ctx.fail("star-build", "star platform: driver rc=%d, %d/%d routes, %s %s" % (rc, len(routes), nh * nh, bad[:2], err[-300:]), case)
            continue
        names = sorted(set(x for h in decl.values() for l in h for x in l))
        idx = {n: i for i, n in enumerate(names)}
        ok[pi] = (routes, names)
        for s in range(nh):
            for t in range(nh):
                loop, up, down = decl[s][0], decl[s][1], decl[t][2]
                mcases.append([int(s == t), len(loop)] + [idx[x] for x in loop] + [len(up)] + [idx[x] for x in up] +
                              [len(down)] + [idx[x] for x in down])
                keys.append((pi, s, t))
    model = run_model_par("c26", "run_star", mcases)
    dist["star_platforms"] += len(ok)
    for (pi, s, t), m in zip(keys, model):
        routes, names = ok[pi]
        lines, decl = plats[pi]
        exp = [names[i] for i in m]
        r = routes[("h%d" % s, "h%d" % t)]
        dist["star_routes"] += 1
        loop, up, down = decl[s][0], decl[s][1], decl[t][2]
        nontriv = len(set(up + down)) < len(up + down) or (s == t and bool(loop))
        ctx.case(("star", tuple(lines), s, t), nontriv,
                 {"src": s, "dst": t, "up": up, "down": down, "loopback": loop, "impl": r[2] if r[0] == "R" else r,
                  "verified": exp} if nontriv else None)
        if r[0] == "R" and r[2] == exp:
            continue
        ctx.fail("star-route", "star route h%d->h%d is %s; up links %s then down links %s without repetition (loopback %s) is %s" % (
            s, t, r[2] if r[0] == "R" else r, up, down, loop, exp),
            {"kind": "star", "lines": lines, "src": s, "dst": t, "impl": r, "verified": exp})


# ----------------------------------------------------------------------------------------------- fat-tree
def ft_counts(cs, ps):
    """nodes per level 0..L as generate_switches computes them"""
    L = len(cs)
    return [prod(ps[:i]) * prod(cs[i:]) for i in range(L + 1)]


def ft_limiter_ok(cs, ps):
    """switch ids count down from 2*N0-1: with more switches than compute nodes they collide with the ranks (and go
    negative), so limiter callbacks named after the id would create the same link twice (recorded finding)"""
    n = ft_counts(cs, ps)
    return sum(n[1:]) <= n[0]


def ft_label(cs, x):
    lab = []
    for c in cs:
        lab.append(x % c)
        x //= c
    return lab


def ft_nca(cs, s, t):
    a, b = ft_label(cs, s), ft_label(cs, t)
    L = len(cs)
    for l in range(1, L + 1):
        if a[l:] == b[l:]:
            return l
    return L


def ft_names(z, split, quads):
    out = []
    for i in range(0, len(quads), 4):
        k, a, b, c = quads[i:i + 4]
        if k in (0, 1):
            out.append("link_from_%d_%d_%d%s" % (a, b, c, ("_UP" if k == 0 else "_DOWN") if split else ""))
        elif k == 2:
            out.append("%s_lb%d" % (z, a))
        else:
            out.append("%s_lim%d" % (z, a))
    return out


def ft_oracle(cs, ps, ns, lb, lim, split, s, t, links, z="f"):
    """property-level judgement of an implementation route that differs from the modelled code: the source's loopback
    alone when configured; otherwise k links up then k links down (k = level of the nearest common ancestors), each link
    joining the current node to the next one, never up after down, ending at the destination; limiters of every node
    left (before an up link, after a down link) and of the destination.  Returns None if acceptable."""
    if s == t and lb:
        return None if links == ["%s_lb%d" % (z, s)] else "loopback route is not exactly the configured loopback link"
    k = ft_nca(cs, s, t)
    cur, ups, downs, seq = s, 0, 0, list(links)
    limn = lambda n: "%s_lim%d" % (z, n)
    pat = re.compile(r"link_from_(-?\d+)_(-?\d+)_(\d+)(_UP|_DOWN)?$")
    final_lim = False
    while seq:
        x = seq.pop(0)
        had_lim = False
        if lim and x == limn(cur):
            if not seq:
                final_lim = True
                break
            had_lim, x = True, seq.pop(0)
        m = pat.match(x)
        if not m:
            return "unexpected element %s" % x
        a, b = int(m.group(1)), int(m.group(2))
        if cur == a and downs == 0 and (a != b or ups < k):
            if lim and not had_lim:
                return "limiter of node %d missing before its up link" % cur
            if split and m.group(4) != "_UP":
                return "wrong direction of split-duplex link"
            ups, cur = ups + 1, b
        elif cur == b and not had_lim:
            if split and m.group(4) != "_DOWN":
                return "wrong direction of split-duplex link"
            if lim and (not seq or seq.pop(0) != limn(cur)):
                return "limiter of node %d missing after its down link" % cur
            downs, cur = downs + 1, a
        else:
            return "link %s does not leave the current node %d, or goes up after down, or a limiter is misplaced" % (x, cur)
    if cur != t:
        return "route ends at node %d, not at the destination" % cur
    if ups != k or downs != k:
        return "%d links up and %d down, nearest common ancestors are at level %d" % (ups, downs, k)
    if lim and not final_lim:
        return "limiter of the destination missing"
    return None


def ft_case_lines(cs, ps, ns, lb, lim, split):
    return ["fattree f - %d %s %s %s %d %d %s 1" % (len(cs), ",".join(map(str, cs)), ",".join(map(str, ps)),
                                                   ",".join(map(str, ns)), lb, lim, "split" if split else "shared"),
            "sealall", "dump"]


def check_fattree(ctx, drv, cfgs, dist):
    cfgs = [(cs, ps, ns, lb, lim if ft_limiter_ok(cs, ps) else 0, split) for (cs, ps, ns, lb, lim, split) in cfgs]
    outs = run_platforms(drv, [ft_case_lines(*c) for c in cfgs])
    model = run_model_par("c26", "run_fattree", [[lb, lim, len(cs)] + cs + ps + ns for (cs, ps, ns, lb, lim, split) in cfgs], chunk=8)
    for (cs, ps, ns, lb, lim, split), (rc, out, err), m in zip(cfgs, outs, model):
        case = {"kind": "fattree", "down": cs, "up": ps, "count": ns, "loopback": lb, "limiter": lim, "split": split}
        n = prod(cs)
        routes, bad = parse_routes(out)
        if rc != 0 or bad or len(routes) != n * n:
            ctx.fail("fattree-build", "fat-tree %s: driver rc=%d, %d/%d routes, %s %s" % (case, rc, len(routes), n * n, bad[:2], err[-300:]), case)
            continue
        if len(m) < 2 or m[0] != 1 or m[1] != n:
            ctx.mismatch("fattree-tables", "the verified table checker tab_ok rejects the modelled construction for %s (answer %s): "
                         "the up/down theorem does not apply to this instance" % (case, m[:2]), case)
            continue
        dist["fattree_platforms"] += 1
        if not ft_limiter_ok(cs, ps):
            # recorded finding: switch ids count down from 2*N0-1 and run into the ranks of the compute nodes
            ids = set()
            for r in routes.values():
                if r[0] == "R":
                    for x in r[2]:
                        mm = re.match(r"link_from_(-?\d+)_(-?\d+)_", x)
                        if mm:
                            ids.add(int(mm.group(2)))
            clash = sorted(i for i in ids if i < n)
            if clash:
                ctx.fail("fattree-switch-id-collides-with-rank", "fat-tree down=%s up=%s: %d switches for %d compute nodes; switch ids %s "
                         "(seen in link names) are also ranks of compute nodes or negative; with a limiter callback named after the id "
                         "(as the XML loader does) sealing aborts: Link declared several times" % (cs, ps, sum(ft_counts(cs, ps)[1:]), n, clash[:6]),
                         dict(case, limiter=0))
        pos = 2
        for s in range(n):
            for t in range(n):
                ln = m[pos]
                exp = ft_names("f", split, m[pos + 1:pos + 1 + 4 * ln])
                pos += 1 + 4 * ln
                r = routes.get(("f_h%d" % s, "f_h%d" % t))
                dist["fattree_routes"] += 1
                k = ft_nca(cs, s, t)
                nontriv = s != t and (k >= 2 or max(ns) >= 2)
                ctx.case(("fattree", tuple(cs), tuple(ps), tuple(ns), lb, lim, split, s, t), nontriv,
                         {"platform": case, "src": s, "dst": t, "nca_level": k, "impl": r[2] if r[0] == "R" else r, "verified": exp}
                         if nontriv and k >= 2 else None)
                if r[0] == "R" and r[2] == exp:
                    continue
                c2 = dict(case, src=s, dst=t, impl=r, verified=exp)
                why = "exception: " + r[1] if r[0] == "X" else ft_oracle(cs, ps, ns, lb, lim, split, s, t, r[2])
                if why:
                    ctx.fail("fattree-route", "fat-tree down=%s up=%s count=%s route %d->%d is %s, verified algorithm gives %s: %s" % (
                        cs, ps, ns, s, t, r[2] if r[0] == "R" else r, exp, why), c2)
                else:
                    dist["fattree_harmless_differences"] = dist.get("fattree_harmless_differences", 0) + 1
                    if len(ctx.notes) < 5:
                        ctx.notes.append("route %d->%d in fat-tree %s/%s/%s differs from the modelled code but satisfies the property "
                                         "(oracle: other parallel cable or other equivalent switch): impl %s model %s" % (s, t, cs, ps, ns, r[2], exp))


def ft_grid():
    """the enumerated finite grid: 1 level with values <= 4, 2 levels with values <= 3, 3 levels with values <= 2"""
    res = []
    for L, mx in ((1, 4), (2, 3), (3, 2)):
        for v in itertools.product(range(1, mx + 1), repeat=3 * L):
            res.append((list(v[:L]), list(v[L:2 * L]), list(v[2 * L:])))
    return res


def ft_random(rng):
    L = rng.choice([2, 3, 3])
    while True:
        cs = [rng.randint(1, 4) for _ in range(L)]
        ps = [rng.randint(1, 3) for _ in range(L)]
        if prod(cs) <= 48 and max(ft_counts(cs, ps)) <= 64:
            return cs, ps, [rng.randint(1, 3) for _ in range(L)]


FT_CORPUS = [([2, 2], [1, 2], [1, 2], 1, 1, 0), ([4, 4], [1, 2], [1, 2], 0, 0, 0), ([2, 2, 2], [2, 2, 2], [2, 2, 2], 0, 0, 1),
             ([3, 2, 2], [1, 2, 1], [2, 1, 3], 1, 1, 0), ([2], [8], [1], 0, 0, 0), ([3, 3], [2, 3], [3, 2], 0, 1, 0),
             ([2, 3, 2], [2, 1, 2], [1, 3, 2], 0, 0, 0), ([4], [1], [1], 1, 1, 1), ([1, 1, 1], [1, 1, 1], [1, 1, 1], 0, 0, 0),
             ([2, 4, 2], [1, 2, 2], [3, 2, 1], 1, 0, 0)]


# ----------------------------------------------------------------------------------------------- dragonfly
def df_names(z, split, p, tup):
    """p = (G, C, B, n); tup = 7-tuples of the model"""
    G, C, B, n = p
    out = []
    for i in range(0, len(tup), 7):
        k, a, b, c, d, uid, up = tup[i:i + 7]
        suf = ("_UP" if up else "_DOWN") if split else ""
        if k == 0:
            out.append("local_link_from_router_%d_to_node_%d_%d%s" % (a, b, uid, suf))
        elif k == 1:
            out.append("green_link_in_chassis_%d_between_routers_%d_and_%d_%d%s" % (a, b, c, uid, suf))
        elif k == 2:
            out.append("black_link_in_group_%d_between_chassis_%d_and_%d_blade_%d_%d%s" % (a, b, c, d, uid, suf))
        elif k == 3:
            out.append("blue_link_between_group_%d_and_%d_routers_%d_and_%d_%d%s" % (a, b, c, d, uid, suf))
        elif k == 4:
            out.append("%s_lb%d" % (z, a))
        elif k == 5:
            out.append("%s_lim%d" % (z, a))
        elif k == 6:
            out.append("%s_lim%d" % (z, 2 * G * C * B * n - 1 - a))
        else:
            out.append("__null__")
    return out


def df_oracle(p, lb, lim, split, s, t, links, z="d"):
    """property-level judgement of an implementation route that differs from the modelled code: loopback alone when
    configured; else node -> its router -> at most (green in the chassis, black in the group) -> blue to the destination
    group iff the groups differ -> at most (green, black) -> router of the destination -> node, every link joining the
    router reached so far to the next one; limiters of both nodes, of every router left and of the last router."""
    G, C, B, n = p
    if s == t and lb:
        return None if links == ["%s_lb%d" % (z, s)] else "loopback route is not exactly the configured loopback link"
    N = G * C * B * n
    rs, rt = s // n, t // n
    nloc, ngreen = N, G * C * (B * (B - 1) // 2)
    cur, hops, kinds = rs, [], ""
    for x in links:
        m = re.match(r"green_link_in_chassis_(\d+)_between_routers_(\d+)_and_(\d+)_(\d+)(_UP|_DOWN)?$", x)
        if m:
            ch = (int(m.group(4)) - nloc) // max(1, B * (B - 1) // 2)
            a, b, kind = ch * B + int(m.group(2)), ch * B + int(m.group(3)), "G"
            if ch % C != int(m.group(1)):
                return "green link %s: number and chassis do not fit" % x
        else:
            m = re.match(r"black_link_in_group_(\d+)_between_chassis_(\d+)_and_(\d+)_blade_(\d+)_(\d+)(_UP|_DOWN)?$", x)
            if m:
                g, l = int(m.group(1)), int(m.group(4))
                a, b, kind = g * C * B + int(m.group(2)) * B + l, g * C * B + int(m.group(3)) * B + l, "K"
            else:
                m = re.match(r"blue_link_between_group_(\d+)_and_(\d+)_routers_(\d+)_and_(\d+)_(\d+)(_UP|_DOWN)?$", x)
                if not m:
                    continue
                a, b, kind = int(m.group(3)), int(m.group(4)), "B"
                if a // (C * B) != int(m.group(1)) or b // (C * B) != int(m.group(2)) or a // (C * B) == b // (C * B):
                    return "blue link %s does not join two routers of the two groups" % x
        if cur == a:
            nxt, up = b, True
        elif cur == b:
            nxt, up = a, False
        else:
            return "link %s does not leave router %d reached so far" % (x, cur)
        if split and (m.groups()[-1] == "_UP") != up:
            return "wrong direction of split-duplex link %s" % x
        hops.append((cur, x, kind))
        kinds += kind
        cur = nxt
    if cur != rt:
        return "the routers' walk ends at router %d, the destination's router is %d" % (cur, rt)
    pat = r"G?K?$" if rs // (C * B) == rt // (C * B) else r"G?K?BG?K?$"
    if not re.match(pat, kinds):
        return "hops %s do not follow the hierarchy (%s)" % (kinds, pat[:-1])
    suf = lambda up: ("_UP" if up else "_DOWN") if split else ""
    liml = lambda i: ["%s_lim%d" % (z, i)] if lim else []
    exp = liml(s) + ["local_link_from_router_%d_to_node_%d_%d%s" % (rs, s % n, s, suf(True))]
    for (r, x, kind) in hops:
        exp += [x] + liml(2 * N - 1 - r) if kind == "B" else liml(2 * N - 1 - r) + [x]
    exp += liml(2 * N - 1 - rt) + ["local_link_from_router_%d_to_node_%d_%d%s" % (rt, t % n, t, suf(False))] + liml(t)
    if exp != links:
        return "local links or limiters not as configured: expected %s around the hops" % exp
    return None


def df_case_lines(p, lb, lim, split):
    G, C, B, n = p
    return ["dragonfly d - %d,1 %d,1 %d,1 %d %d %d %s 1" % (G, C, B, n, lb, lim, "split" if split else "shared"), "sealall", "dump"]


def check_dragonfly(ctx, drv, cfgs, dist):
    outs = run_platforms(drv, [df_case_lines(*c) for c in cfgs])
    model = run_model_par("c26", "run_dragonfly", [[1, lb, lim] + list(p) for (p, lb, lim, split) in cfgs], chunk=4)
    for (p, lb, lim, split), (rc, out, err), m in zip(cfgs, outs, model):
        G, C, B, n = p
        case = {"kind": "dragonfly", "shape": list(p), "loopback": lb, "limiter": lim, "split": split}
        N = G * C * B * n
        routes, bad = parse_routes(out)
        built = rc == 0 and not bad and len(routes) == N * N
        if G > B:
            # outside the domain of the routing code (recorded finding): judged by the property only
            why = None
            if not built:
                why = "driver rc=%d, %d/%d routes %s" % (rc, len(routes), N * N, err[-120:].replace("\n", " "))
            else:
                for s in range(N):
                    for t in range(N):
                        r = routes[("d_h%d" % s, "d_h%d" % t)]
                        w = "exception " + r[1] if r[0] == "X" else df_oracle(p, lb, lim, split, s, t, r[2])
                        if w and not why:
                            why = "route %d->%d %s: %s" % (s, t, r, w)
            dist["dragonfly_out_of_domain"] = dist.get("dragonfly_out_of_domain", 0) + 1
            ctx.case(("dragonfly-ood", tuple(p), lb, lim, split), False)
            if why:
                ctx.fail("dragonfly-groups-exceed-blades", "dragonfly %s (more groups than blades per chassis): %s" % (list(p), why), case)
            continue
        if not built:
            ctx.fail("dragonfly-build", "dragonfly %s: driver rc=%d, %d/%d routes, %s %s" % (case, rc, len(routes), N * N, bad[:2], err[-300:]), case)
            continue
        if not m or m[0] != N:
            ctx.mismatch("dragonfly-model", "model answer %s for %s" % (m[:3], case), case)
            continue
        dist["dragonfly_platforms"] += 1
        pos = 1
        for s in range(N):
            for t in range(N):
                ln = m[pos]
                exp = df_names("d", split, p, m[pos + 1:pos + 1 + 7 * ln])
                pos += 1 + 7 * ln
                r = routes.get(("d_h%d" % s, "d_h%d" % t))
                dist["dragonfly_routes"] += 1
                nontriv = s // n != t // n
                ctx.case(("dragonfly", tuple(p), lb, lim, split, s, t), nontriv,
                         {"platform": case, "src": s, "dst": t, "impl": r[2] if r[0] == "R" else r, "verified": exp}
                         if nontriv and s // (C * B * n) != t // (C * B * n) and len(exp) > 5 else None)
                if r[0] == "R" and r[2] == exp:
                    continue
                c2 = dict(case, src=s, dst=t, impl=r, verified=exp)
                why = "exception: " + r[1] if r[0] == "X" else df_oracle(p, lb, lim, split, s, t, r[2])
                if why:
                    ctx.fail("dragonfly-route", "dragonfly %s route %d->%d is %s, verified algorithm gives %s: %s" % (
                        list(p), s, t, r[2] if r[0] == "R" else r, exp, why), c2)
                else:
                    dist["dragonfly_harmless_differences"] = dist.get("dragonfly_harmless_differences", 0) + 1
                    if len(ctx.notes) < 5:
                        ctx.notes.append("route %d->%d in dragonfly %s differs from the modelled code but satisfies the property (oracle): "
                                         "impl %s model %s" % (s, t, list(p), r[2], exp))


DF_CORPUS = [((1, 3, 2, 1), 0, 0, 0), ((2, 2, 2, 2), 1, 1, 0), ((3, 3, 3, 1), 0, 1, 1), ((2, 3, 3, 2), 1, 0, 0), ((1, 1, 1, 3), 1, 1, 1),
             ((2, 1, 1, 1), 0, 0, 0), ((3, 2, 2, 1), 0, 0, 0), ((2, 2, 4, 1), 0, 1, 0), ((4, 2, 5, 1), 0, 0, 0)]


TORUS_CORPUS = [([3, 2], 1, 1, 0), ([4], 0, 0, 0), ([2, 2, 2], 0, 1, 1), ([5, 3], 1, 0, 1), ([6, 2], 0, 0, 0), ([1, 3, 4], 0, 0, 0), ([3, 1, 4], 1, 0, 0),
                ([8, 8], 0, 0, 0), ([4, 4, 4], 0, 1, 0), ([2, 2, 2, 2, 2], 1, 1, 0), ([7], 1, 1, 1), ([2], 0, 0, 1)]


def run(ctx):
    ctx.simgrid(["simgrid"])
    ctx.prove()
    drv = fw.build_harness("routing_drv")
    dist = {"torus_platforms": 0, "torus_routes": 0, "star_platforms": 0, "star_routes": 0, "fattree_platforms": 0, "fattree_routes": 0,
            "dragonfly_platforms": 0, "dragonfly_routes": 0}
    ctx.cov["rule"] = ("one case = one ordered host pair of one generated platform; non-trivial = torus pair with src != dst, "
                       "star pair whose up+down lists share a link or that uses a loopback, fat-tree pair with src != dst whose nearest "
                       "common ancestors are at level >= 2 or that has parallel cables to choose from, dragonfly pair on different routers; "
                       "distinct = distinct (platform, pair)")
    if ctx.replay:
        rp = json.load(open(ctx.replay))["case"]
        if rp.get("kind") == "torus":
            check_torus(ctx, drv, [(rp["dims"], rp["loopback"], rp["limiter"], rp["split"])], dist)
        elif rp.get("kind") == "fattree":
            check_fattree(ctx, drv, [(rp["down"], rp["up"], rp["count"], rp["loopback"], rp["limiter"], rp["split"])], dist)
        elif rp.get("kind") == "dragonfly":
            check_dragonfly(ctx, drv, [(tuple(rp["shape"]), rp["loopback"], rp["limiter"], rp["split"])], dist)
        elif rp.get("kind") == "star":
            # the declaration is recomputed from the stored lines
            ctx.notes.append("star replay: re-running stored platform")
            check_star(ctx, drv, [(rp["lines"], star_decl_from_lines(rp["lines"]))], dist)
        ctx.cov["input_distribution"] = dist
        return
    # torus: every shape without 1-sized dimensions (<= 5 dims, <= 64 nodes) in the thorough tier; a sample in quick
    shapes = torus_shapes(5, 64, False)
    ones = [s for s in torus_shapes(5, 64, True) if s.count(1) == 1]
    cfgs = list(TORUS_CORPUS)
    if ctx.quick:
        small = [s for s in shapes if prod(s) <= 36]
        pick = ctx.rng.sample(small, min(40, len(small))) + ctx.rng.sample(ones, 6) + ctx.rng.sample(shapes, 6)
        for s in pick:
            cfgs.append((s, ctx.rng.randint(0, 1), ctx.rng.randint(0, 1), ctx.rng.randint(0, 1)))
        ctx.cov["exhaustive"] = False
    else:
        for s in shapes:
            for lb, lim in ((0, 0), (1, 1)):
                cfgs.append((s, lb, lim, 0))
            cfgs.append((s, ctx.rng.randint(0, 1), ctx.rng.randint(0, 1), 1))
        for s in ctx.rng.sample(ones, min(150, len(ones))):
            cfgs.append((s, ctx.rng.randint(0, 1), ctx.rng.randint(0, 1), ctx.rng.randint(0, 1)))
        ctx.cov["exhaustive"] = ("torus: all %d dimension vectors with every dimension >= 2, <= 5 dimensions, <= 64 nodes, each with "
                                 "(no loopback, no limiter) and (loopback, limiter), all ordered pairs" % len(shapes))
    check_torus(ctx, drv, cfgs, dist)
    # fat-tree: the whole grid (1 level: values <= 4, 2 levels: <= 3, 3 levels: <= 2) in the thorough tier; a sample in quick
    grid = ft_grid()
    fcfgs = list(FT_CORPUS)
    if ctx.quick:
        for (cs, ps, ns) in ctx.rng.sample(grid, 40) + [ft_random(ctx.rng) for _ in range(8)]:
            fcfgs.append((cs, ps, ns, ctx.rng.randint(0, 1), ctx.rng.randint(0, 1), ctx.rng.randint(0, 1)))
    else:
        for (cs, ps, ns) in grid:
            fcfgs.append((cs, ps, ns, 0, 0, 0))
            fcfgs.append((cs, ps, ns, 1, 1, ctx.rng.randint(0, 1)))
        for _ in range(300):
            fcfgs.append(ft_random(ctx.rng) + (ctx.rng.randint(0, 1), ctx.rng.randint(0, 1), ctx.rng.randint(0, 1)))
        ctx.cov["exhaustive"] += ("; fat-tree: all %d parameter vectors with 1 level and values <= 4, 2 levels and values <= 3, 3 levels "
                                  "and values <= 2 (down, up, link count), each without and with loopback+limiter, all ordered pairs" % len(grid))
    check_fattree(ctx, drv, fcfgs, dist)
    # dragonfly: every shape G, C, B, n <= 3 in the thorough tier (those with more groups than blades are outside the domain of
    # the routing code: recorded finding, one of them in the quick tier); a sample in quick
    dshapes = list(itertools.product((1, 2, 3), repeat=4))
    dcfgs = list(DF_CORPUS)
    if ctx.quick:
        dcfgs = dcfgs[:6] + [(sh, ctx.rng.randint(0, 1), ctx.rng.randint(0, 1), ctx.rng.randint(0, 1))
                             for sh in ctx.rng.sample([x for x in dshapes if x[0] <= x[2]], 10)]
    else:
        for sh in dshapes:
            dcfgs.append((sh, 0, 0, 0))
            dcfgs.append((sh, 1, 1, ctx.rng.randint(0, 1)))
        for _ in range(20):
            B = ctx.rng.randint(1, 5)
            dcfgs.append(((ctx.rng.randint(1, B), ctx.rng.randint(1, 4), B, ctx.rng.randint(1, 3)), ctx.rng.randint(0, 1), ctx.rng.randint(0, 1), ctx.rng.randint(0, 1)))
        ctx.cov["exhaustive"] += ("; dragonfly: all 81 shapes with groups, chassis, blades, nodes <= 3, each without and with "
                                  "loopback+limiter, all ordered pairs (27 of them, with more groups than blades, are outside the "
                                  "domain of the routing code: recorded finding)")
    check_dragonfly(ctx, drv, dcfgs, dist)
    nstar = ctx.n(40, 600)
    check_star(ctx, drv, [gen_star(ctx.rng, ctx.rng.randint(1, 7)) for _ in range(nstar)], dist)
    ctx.cov["input_distribution"] = dist
    ctx.assumptions += ["torus ranks and their products fit the machine integers of the C++ (nodes < 2^31)",
                        "cluster hosts are created in rank order by the host callback (netpoint id = rank)",
                        "fat-tree: one fat-tree zone per process (add_processing_node/add_internal_link count in static variables); "
                        "limiters are requested only when there are at most as many switches as compute nodes (else: recorded finding "
                        "fattree-switch-id-collides-with-rank)",
                        "dragonfly: the model describes get_local_route only with at most as many groups as blades per chassis "
                        "(else: recorded finding dragonfly-groups-exceed-blades); one dragonfly zone per process (static uniqueId)"]


def star_decl_from_lines(lines):
    split = {}
    decl = {}
    for l in lines:
        t = l.split()
        if t[0] == "link":
            split[t[1]] = len(t) > 4
        elif t[0] == "host":
            decl[int(t[1][1:])] = ([], [], [])

    def names(toks, back):
        out = []
        for x in toks:
            if ":" in x:
                n, d = x.split(":")
                up = (d == "U") != back
                out.append(n + ("_UP" if up else "_DOWN"))
            else:
                out.append(x)
        return out
    for l in lines:
        t = l.split()
        if t[0] != "route":
            continue
        src, dst, sym, toks = t[2], t[3], t[6] == "1", t[7:]
        if src != "-" and src == dst:
            h = int(src[1:])
            decl[h] = (names(toks, False), decl[h][1], decl[h][2])
        elif src != "-":
            h = int(src[1:])
            decl[h] = (decl[h][0], names(toks, False), list(reversed(names(toks, True))) if sym else decl[h][2])
        else:
            h = int(dst[1:])
            decl[h] = (decl[h][0], decl[h][1], names(toks, False))
    return decl


META = {
    "level": "proof",
    "text": "Torus, Star, Fat-tree, Dragonfly. TORUS: Coq theorems for ALL dimension vectors (sizes >= 1) and all ranks about a line-by-line "
            "model of TorusZone::get_local_route/create_torus_links: the hops are exactly 'dimension after dimension' "
            "(C26_torus_dimension_by_dimension, C26_torus_dim_order), per dimension min((t-m) mod d, (m-t) mod d) hops all in the same, "
            "shorter, direction (C26_torus_hops), they form a walk src->dst of single +-1 steps (C26_torus_walk, C26_torus_hop_one_step) "
            "over the link created between the two ends (C26_torus_link_joins_hop); loopback only for src = dst and alone, limiters of "
            "every visited node in order (C26_loopback_limiter). STAR: the source's up links then the destination's down links, first "
            "occurrences only, no link twice (C26_star_up_down_no_repeat, C26_star_first_occurrences). FAT-TREE: model of the construction "
            "(add_processing_node, generate_switches, generate_labels' odometer, get_level_position, are_related, "
            "connect_node_to_parents, add_internal_link: node vector and link list with ports and uniqueId) and of get_local_route walking "
            "those tables (d-mod-k up ports, the down for-loop that keeps running after a hop). C26_fattree_up_down: for ALL parameter "
            "vectors accepted by check_topology (any number of levels, any down/up/link counts) and all pairs of compute nodes, over any "
            "tables with the property TabOK, the route is k hops up then k hops down, never up after down, chained, each hop changing the "
            "level by one over a link joining its ends, from the source to the destination, k = least level >= 1 from which the labels "
            "agree; the turning node has both ends in its sub-tree and nothing lower has (C26_fattree_nca_nearest). TabOK is decided by the "
            "verified checker tab_ok (C26_fattree_tables_checker_sound) that the extracted model runs on the constructed tables of every "
            "tied instance (C26_fattree_up_down_built_partial: not proved for all parameters that the construction satisfies it). "
            "C26_fattree_loopback_limiter. DRAGONFLY: C26_dragonfly_coords_bijection (rank <-> group/chassis/blade/node and router index "
            "<-> triple, all parameters); C26_dragonfly_hierarchy_partial: the routers' part of the route is a walk from the source's to "
            "the destination's router through links held by the router left (all parameters with groups <= blades per chassis, all ranks); "
            "C26_dragonfly_hop_kinds_partial: [green][black] inside a group exactly as coordinates differ, [green][black] blue "
            "[green][black] between groups; C26_dragonfly_link_ends; C26_dragonfly_loopback_limiter; C26_dragonfly_pinned_refuted (code "
            "before fix b10f387707 is not a walk). TIE: routing_drv builds each platform with the C++ API of the rebuilt library and "
            "Host::route_to of ALL ordered pairs is compared link by link (names, incl. parallel cable, uniqueId, _UP/_DOWN, limiter and "
            "loopback names) with the extracted functions; thorough tier enumerates every torus shape (sizes >= 2, <= 5 dims, <= 64 nodes), "
            "every fat-tree with 1 level/values <= 4, 2 levels/<= 3, 3 levels/<= 2, every dragonfly <= 3x3x3x3. A route that differs "
            "from the model is judged by the property itself (Python oracle: torus dimension order/shorter way; fat-tree k up then k down "
            "over joining links; dragonfly walk + hierarchy; limiters/loopback as configured): other tie-breaks, cables or equivalent "
            "switches are accepted.",
    "note": "Fat-tree: that the modelled construction satisfies TabOK is computed per instance (verified checker), not proved for all "
            "parameter vectors; link identity (which parallel cable, names) is covered by the correspondence only. Dragonfly: theorems and "
            "model are restricted to groups <= blades per chassis; beyond, the C++ indexes out of bounds (finding "
            "dragonfly-groups-exceed-blades, judged by the outcome of the run only). Findings: fattree-switch-id-collides-with-rank (more "
            "switches than compute nodes: ids collide, limiter callbacks named by id abort) - limiters are not requested on those shapes. "
            "Fixed in /repo: b10f387707 (dragonfly green hop lost the chassis). NOT covered: cluster zones whose leaves are netzones "
            "(gateways). The acceptance oracles for routes that differ from the model are Python (unverified); routes equal to the model "
            "are covered by the theorems. Torus shapes with two or more dimensions of size 1 abort at creation and are excluded. Assumed: "
            "ranks and products fit the C++ machine integers; host callbacks create hosts in rank order; one fat-tree/dragonfly zone per "
            "process (static counters). Trusted: Coq kernel, extraction, routing_drv, the Python generators and link-name mapping.",
    "technique": "Coq proof (mixed-radix arithmetic, induction over dimensions/levels, verified table checker) + extracted-model "
                 "differential correspondence on enumerated platforms",
    "claimed": True,
}
