"""C26 — structured topologies follow their routing algorithms (torus, star; fat-tree and dragonfly: see META).
K: routing_drv builds each platform through the C++ platform API of the rebuilt library and dumps Host::route_to for
   all ordered host pairs; the extracted Coq functions (run_torus / run_star) are fed the same description; the link
   sequences must be identical (the property fixes them for torus and star).
O: when they differ, the verified predicates decide: a torus route that is still a dimension-ordered shortest-way walk
   using the links joining consecutive nodes (and limiters/loopback as configured) is a harmless difference."""
import itertools, json, os, subprocess
from concurrent.futures import ThreadPoolExecutor
import fw
from routing_lib import run_platforms, parse_routes, run_model_par


# ----------------------------------------------------------------------------------------------- torus
def prod(ds):
    p = 1
    for d in ds:
        p *= d
    return p


def torus_shapes(maxdims, maxnodes, with_ones):
    """all dimension vectors (order matters) with product <= maxnodes"""
    res = []

    def rec(cur, p):
        if cur:
            res.append(list(cur))
        if len(cur) == maxdims:
            return
        for d in range(1 if with_ones else 2, maxnodes + 1):
            if p * d > maxnodes:
                break
            rec(cur + [d], p * d)
    rec([], 1)
    return res


def torus_names(z, split, triples):
    out = []
    for i in range(0, len(triples), 3):
        k, a, b = triples[i:i + 3]
        if k in (0, 1):
            out.append("%s_link_from_%d_to_%d%s" % (z, a, b, ("_UP" if k == 0 else "_DOWN") if split else ""))
        elif k == 2:
            out.append("%s_lb%d" % (z, a))
        else:
            out.append("%s_lim%d" % (z, a))
    return out


def torus_coords(dims, x):
    c = []
    for d in dims:
        c.append(x % d)
        x //= d
    return c


def torus_oracle(dims, lb, lim, split, s, t, links, z="t"):
    """property-level judgement of one implementation route (used only when it differs from the verified function):
    dimension by dimension, the shorter way round, links joining consecutive nodes, limiters/loopback as configured.
    Returns None if acceptable, else a reason."""
    if s == t and lb:
        return None if links == ["%s_lb%d" % (z, s)] else "loopback route is not exactly the configured loopback link"
    seq = list(links)
    nodes = [s]
    cur = s
    hops = []
    strides = [prod(dims[:j]) for j in range(len(dims))]
    import re
    while seq:
        if lim:
            if seq[0] != "%s_lim%d" % (z, cur):
                return "limiter of node %d missing at its place" % cur
            seq.pop(0)
            if not seq:
                break
        m = re.match(r"%s_link_from_(\d+)_to_(\d+)(_UP|_DOWN)?$" % z, seq[0])
        if not m:
            return "unexpected link %s" % seq[0]
        a, b = int(m.group(1)), int(m.group(2))
        seq.pop(0)
        if cur == a:
            nxt, up = b, True
        elif cur == b:
            nxt, up = a, False
        else:
            return "link %d-%d does not touch the current node %d" % (a, b, cur)
        if split and (m.group(3) == "_UP") != up:
            return "wrong direction of split-duplex link"
        ca, cb = torus_coords(dims, cur), torus_coords(dims, nxt)
        diff = [j for j in range(len(dims)) if ca[j] != cb[j]]
        if len(diff) != 1 or (cb[diff[0]] - ca[diff[0]]) % dims[diff[0]] not in (1, dims[diff[0]] - 1):
            return "link does not join neighbours"
        j = diff[0]
        # direction: a->b is +1 by construction of create_torus_links (b is the +1 neighbour of a), except d == 2
        hops.append((j, up))
        cur = nxt
    if cur != t:
        return "route ends at node %d, not at the destination" % cur
    if lim and (not links or links[-1] != "%s_lim%d" % (z, t)):
        return "limiter of the destination missing"
    if [h[0] for h in hops] != sorted(h[0] for h in hops):
        return "not dimension by dimension"
    cs, ct = torus_coords(dims, s), torus_coords(dims, t)
    for j, d in enumerate(dims):
        n = sum(1 for h in hops if h[0] == j)
        if n != min((ct[j] - cs[j]) % d, (cs[j] - ct[j]) % d):
            return "dimension %d: %d hops, shorter way is %d" % (j, n, min((ct[j] - cs[j]) % d, (cs[j] - ct[j]) % d))
    return None


def torus_case_lines(dims, lb, lim, split):
    return ["torus t - %s %d %d %s 1" % (",".join(map(str, dims)), lb, lim, "split" if split else "shared"),
            "sealall", "dump"]


def check_torus(ctx, drv, cfgs, dist):
    plats = [torus_case_lines(*c) for c in cfgs]
    outs = run_platforms(drv, plats)
    mcases, index = [], []
    for ci, (dims, lb, lim, split) in enumerate(cfgs):
        n = prod(dims)
        for s in range(n):
            for t in range(n):
                mcases.append([lb, lim, s, t, len(dims)] + dims)
                index.append((ci, s, t))
    model = run_model_par("c26", "run_torus", mcases)
    per = {}
    for (ci, s, t), m in zip(index, model):
        per.setdefault(ci, {})[(s, t)] = m
    for ci, ((dims, lb, lim, split), (rc, out, err)) in enumerate(zip(cfgs, outs)):
        case = {"kind": "torus", "dims": dims, "loopback": lb, "limiter": lim, "split": split}
        routes, bad = parse_routes(out)
        n = prod(dims)
        if rc != 0 or bad or len(routes) != n * n:
            ctx.fail("torus-build", "torus %s: driver rc=%d, %d/%d routes, %s %s" % (case, rc, len(routes), n * n, bad[:2], err[-300:]), case)
            continue
        dist["torus_platforms"] += 1
        for s in range(n):
            for t in range(n):
                r = routes.get(("t_h%d" % s, "t_h%d" % t))
                exp = torus_names("t", split, per[ci][(s, t)])
                dist["torus_routes"] += 1
                nontriv = s != t and sum(1 for a, b in zip(torus_coords(dims, s), torus_coords(dims, t)) if a != b) >= 1
                ctx.case(("torus", tuple(dims), lb, lim, split, s, t), nontriv,
                         {"platform": case, "src": s, "dst": t, "impl": r[2] if r[0] == "R" else r, "verified": exp}
                         if nontriv and len(exp) > 3 else None)
                if r[0] == "R" and r[2] == exp:
                    continue
                c2 = dict(case, src=s, dst=t, impl=r, verified=exp)
                why = "exception: " + r[1] if r[0] == "X" else torus_oracle(dims, lb, lim, split, s, t, r[2])
                if why:
                    ctx.fail("torus-route", "torus %s route %d->%d is %s, verified algorithm gives %s: %s" % (
                        "x".join(map(str, dims)), s, t, r[2] if r[0] == "R" else r, exp, why), c2)
                else:
                    # harmless: a different but still dimension-ordered shortest-way walk (tie broken the other way)
                    dist["torus_harmless_differences"] = dist.get("torus_harmless_differences", 0) + 1
                    if len(ctx.notes) < 5:
                        ctx.notes.append("route %d->%d in torus %s differs from the modelled code but satisfies the property "
                                         "(oracle): impl %s model %s" % (s, t, dims, r[2], exp))


# ----------------------------------------------------------------------------------------------- star
def gen_star(rng, nh):
    """a star zone with nh hosts; returns (lines, decl) where decl[h] = (loop, up, down) as lists of link names"""
    lines = ["zone s - star"]
    nlinks = rng.randint(1, 6)
    split = [rng.random() < 0.3 for _ in range(nlinks)]
    for i in range(nlinks):
        lines.append("link L%d s %d%s" % (i, i + 1, " split" if split[i] else ""))
    for h in range(nh):
        lines.append("host h%d s" % h)

    def pick(k):
        return " ".join("L%d%s" % (i, ":" + rng.choice("UD") if split[i] else "")
                        for i in (rng.randrange(nlinks) for _ in range(k)))
    for h in range(nh):
        mode = rng.choice(["sym", "updown", "none", "updown", "sym"])
        if mode == "sym":
            lines.append("route s h%d - - - 1 %s" % (h, pick(rng.randint(1, 4))))
        elif mode != "none":
            lines.append("route s h%d - - - 0 %s" % (h, pick(rng.randint(0, 4))))
            lines.append("route s - h%d - - 0 %s" % (h, pick(rng.randint(0, 4))))
        if mode != "none" and rng.random() < 0.4:
            lines.append("route s h%d h%d - - 0 %s" % (h, h, pick(rng.randint(1, 3))))
    lines += ["sealall", "dump"]
    return lines, star_decl_from_lines(lines)


def check_star(ctx, drv, plats, dist):
    outs = run_platforms(drv, [p[0] for p in plats])
    mcases, keys, ok = [], [], {}
    for pi, ((lines, decl), (rc, out, err)) in enumerate(zip(plats, outs)):
        case = {"kind": "star", "lines": lines}
        routes, bad = parse_routes(out)
        nh = len(decl)
        if rc != 0 or bad or len(routes) != nh * nh:
            ctx.fail("star-build", "star platform: driver rc=%d, %d/%d routes, %s %s" % (rc, len(routes), nh * nh, bad[:2], err[-300:]), case)
            continue
        names = sorted(set(x for h in decl.values() for l in h for x in l))
        idx = {n: i for i, n in enumerate(names)}
        ok[pi] = (routes, names)
        for s in range(nh):
            for t in range(nh):
                loop, up, down = decl[s][0], decl[s][1], decl[t][2]
                mcases.append([int(s == t), len(loop)] + [idx[x] for x in loop] + [len(up)] + [idx[x] for x in up] +
                              [len(down)] + [idx[x] for x in down])
                keys.append((pi, s, t))
    model = run_model_par("c26", "run_star", mcases)
    dist["star_platforms"] += len(ok)
    for (pi, s, t), m in zip(keys, model):
        routes, names = ok[pi]
        lines, decl = plats[pi]
        exp = [names[i] for i in m]
        r = routes[("h%d" % s, "h%d" % t)]
        dist["star_routes"] += 1
        loop, up, down = decl[s][0], decl[s][1], decl[t][2]
        nontriv = len(set(up + down)) < len(up + down) or (s == t and bool(loop))
        ctx.case(("star", tuple(lines), s, t), nontriv,
                 {"src": s, "dst": t, "up": up, "down": down, "loopback": loop, "impl": r[2] if r[0] == "R" else r,
                  "verified": exp} if nontriv else None)
        if r[0] == "R" and r[2] == exp:
            continue
        ctx.fail("star-route", "star route h%d->h%d is %s; up links %s then down links %s without repetition (loopback %s) is %s" % (
            s, t, r[2] if r[0] == "R" else r, up, down, loop, exp),
            {"kind": "star", "lines": lines, "src": s, "dst": t, "impl": r, "verified": exp})


TORUS_CORPUS = [([3, 2], 1, 1, 0), ([4], 0, 0, 0), ([2, 2, 2], 0, 1, 1), ([5, 3], 1, 0, 1), ([6, 2], 0, 0, 0), ([1, 3, 4], 0, 0, 0), ([3, 1, 4], 1, 0, 0),
                ([8, 8], 0, 0, 0), ([4, 4, 4], 0, 1, 0), ([2, 2, 2, 2, 2], 1, 1, 0), ([7], 1, 1, 1), ([2], 0, 0, 1)]


def run(ctx):
    ctx.simgrid(["simgrid"])
    ctx.prove()
    drv = fw.build_harness("routing_drv")
    dist = {"torus_platforms": 0, "torus_routes": 0, "star_platforms": 0, "star_routes": 0}
    ctx.cov["rule"] = ("one case = one ordered host pair of one generated platform; non-trivial = torus pair with src != dst, "
                       "star pair whose up+down lists share a link or that uses a loopback; distinct = distinct (platform, pair)")
    if ctx.replay:
        rp = json.load(open(ctx.replay))["case"]
        if rp.get("kind") == "torus":
            check_torus(ctx, drv, [(rp["dims"], rp["loopback"], rp["limiter"], rp["split"])], dist)
        elif rp.get("kind") == "star":
            # the declaration is recomputed from the stored lines
            ctx.notes.append("star replay: re-running stored platform")
            check_star(ctx, drv, [(rp["lines"], star_decl_from_lines(rp["lines"]))], dist)
        ctx.cov["input_distribution"] = dist
        return
    # torus: every shape without 1-sized dimensions (<= 5 dims, <= 64 nodes) in the thorough tier; a sample in quick
    shapes = torus_shapes(5, 64, False)
    ones = [s for s in torus_shapes(5, 64, True) if s.count(1) == 1]
    cfgs = list(TORUS_CORPUS)
    if ctx.quick:
        small = [s for s in shapes if prod(s) <= 36]
        pick = ctx.rng.sample(small, min(40, len(small))) + ctx.rng.sample(ones, 6) + ctx.rng.sample(shapes, 6)
        for s in pick:
            cfgs.append((s, ctx.rng.randint(0, 1), ctx.rng.randint(0, 1), ctx.rng.randint(0, 1)))
        ctx.cov["exhaustive"] = False
    else:
        for s in shapes:
            for lb, lim in ((0, 0), (1, 1)):
                cfgs.append((s, lb, lim, 0))
            cfgs.append((s, ctx.rng.randint(0, 1), ctx.rng.randint(0, 1), 1))
        for s in ctx.rng.sample(ones, min(150, len(ones))):
            cfgs.append((s, ctx.rng.randint(0, 1), ctx.rng.randint(0, 1), ctx.rng.randint(0, 1)))
        ctx.cov["exhaustive"] = ("torus: all %d dimension vectors with every dimension >= 2, <= 5 dimensions, <= 64 nodes, each with "
                                 "(no loopback, no limiter) and (loopback, limiter), all ordered pairs" % len(shapes))
    check_torus(ctx, drv, cfgs, dist)
    nstar = ctx.n(40, 600)
    check_star(ctx, drv, [gen_star(ctx.rng, ctx.rng.randint(1, 7)) for _ in range(nstar)], dist)
    ctx.cov["input_distribution"] = dist
    ctx.assumptions += ["torus ranks and their products fit the machine integers of the C++ (nodes < 2^31)",
                        "cluster hosts are created in rank order by the host callback (netpoint id = rank)"]


def star_decl_from_lines(lines):
    split = {}
    decl = {}
    for l in lines:
        t = l.split()
        if t[0] == "link":
            split[t[1]] = len(t) > 4
        elif t[0] == "host":
            decl[int(t[1][1:])] = ([], [], [])

    def names(toks, back):
        out = []
        for x in toks:
            if ":" in x:
                n, d = x.split(":")
                up = (d == "U") != back
                out.append(n + ("_UP" if up else "_DOWN"))
            else:
                out.append(x)
        return out
    for l in lines:
        t = l.split()
        if t[0] != "route":
            continue
        src, dst, sym, toks = t[2], t[3], t[6] == "1", t[7:]
        if src != "-" and src == dst:
            h = int(src[1:])
            decl[h] = (names(toks, False), decl[h][1], decl[h][2])
        elif src != "-":
            h = int(src[1:])
            decl[h] = (decl[h][0], names(toks, False), list(reversed(names(toks, True))) if sym else decl[h][2])
        else:
            h = int(dst[1:])
            decl[h] = (decl[h][0], decl[h][1], names(toks, False))
    return decl


META = {
    "level": "proof",
    "text": "Torus and Star (scope: fat-tree and dragonfly are NOT covered). Coq theorems for ALL dimension vectors (sizes >= 1) and all "
            "ranks about a line-by-line model of TorusZone::get_local_route/create_torus_links: the hops are exactly 'dimension after "
            "dimension' (C26_torus_dimension_by_dimension, C26_torus_dim_order), per dimension min((t-m) mod d, (m-t) mod d) hops all "
            "in the same, shorter, direction (C26_torus_hops), they form a walk src->dst of single +-1 steps (C26_torus_walk, "
            "C26_torus_hop_one_step) over the link created between the two ends (C26_torus_link_joins_hop); loopback only for "
            "src = dst and alone, limiters of every visited node in order (C26_loopback_limiter). Star: the route is the source's up links "
            "then the destination's down links, first occurrences only, no link twice, exactly up ++ down when that has no repeat "
            "(C26_star_up_down_no_repeat, C26_star_first_occurrences). Tie: routing_drv builds each platform with the C++ API of the "
            "rebuilt library and Host::route_to of ALL ordered pairs is compared link by link with the extracted functions; thorough "
            "tier enumerates every torus shape with all sizes >= 2, <= 5 dimensions, <= 64 nodes. A torus route that differs from the "
            "model is judged by the property itself (dimension order, shorter way, joining links, limiters): ties broken the other way "
            "are accepted.",
    "note": "NOT covered: FatTreeZone and DragonflyZone (no model, no theorem, not exercised); cluster zones whose leaves are netzones "
            "(gateways). The torus acceptance oracle for routes that differ from the model is Python (unverified); routes equal to the "
            "model are covered by the theorems. Shapes with two or more dimensions of size 1 abort at creation (duplicate link name) "
            "and are excluded. Assumed: ranks and products fit the C++ machine integers; host callbacks create hosts in rank order. "
            "Trusted: Coq kernel, extraction, routing_drv, the Python generator and link-name mapping.",
    "technique": "Coq proof (mixed-radix arithmetic, induction over dimensions) + extracted-model differential correspondence on enumerated platforms",
    "claimed": True,
}
