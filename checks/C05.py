"""C05 — semaphore semantics: token conservation, FIFO, timeouts.
Proof: Kernel/Sem.v (+SemProofs.v), Props/Properties_C05.v.
K+O: programs of up to 5 actors on up to 3 semaphores (capacities 0..3, timeouts 0..6 ticks and negative) run on the rebuilt
   library through the generic S4U interpreter harness/k1_sync.  The kernel-ordered sequence of acquire / acquire_timeout /
   release calls of each semaphore, with a timer event [Fire p] inserted where the implementation was seen reporting a
   timeout (right after the clock advance that precedes the return), is replayed through the extracted step function (the
   reference about which the C05 theorems are proved).  Every outcome the property constrains must be the reference's:
   who gets a token at once, who waits, whom a release serves and when, get_capacity(), that a reported timeout hits an
   armed timer of a still waiting acquisition (no token granted before), at exactly request date + t, that an armed timer
   does fire (no acquire_timeout(t >= 0) waits beyond its deadline), and that a timed-out waiter is skipped afterwards.
   The private kernel state (PEEK) is compared too (difference there alone = broken correspondence)."""
import fw
import k1_common as k1

FX = 1      # the model of the repaired wait_for (timeout >= 0 arms a timer)
FIRE = 12


def gen_case(rng):
    ns = rng.choice([1, 1, 2, 3])
    na = rng.randint(1, 5)
    objs = [(2, rng.choice([0, 0, 1, 1, 2, 3])) for _ in range(ns)]
    actors = []
    for _ in range(na):
        a = []
        for _ in range(rng.randint(1, 7)):
            s = rng.randrange(ns)
            r = rng.random()
            if r < 0.2:
                a.append((k1.SLEEP, 0, rng.choice([1, 1, 2, 2, 3, 4])))
            elif r < 0.35:
                a.append((k1.ACQUIRE, s, 0))
            elif r < 0.62:
                a.append((k1.ACQ_TIMEOUT, s, rng.choice([0, 0, 1, 1, 2, 2, 3, 4, 6, -1, -3])))
            elif r < 0.88:
                a.append((k1.RELEASE, s, 0))
            elif r < 0.95:
                a.append((k1.GETCAP, s, 0))
            else:
                a.append((k1.PEEK, s, 0))
        actors.append(a)
    return k1.encode(objs, actors)


def A(t):
    return (k1.ACQ_TIMEOUT, 0, t)


ACQ, REL, CAP, PK = (k1.ACQUIRE, 0, 0), (k1.RELEASE, 0, 0), (k1.GETCAP, 0, 0), (k1.PEEK, 0, 0)


def S(n):
    return (k1.SLEEP, 0, n)


CORPUS = [
    k1.encode([(2, 0)], [[A(0), CAP]]),                                        # DESIGN section 6: acquire_timeout(0), no token
    k1.encode([(2, 0)], [[A(0), CAP], [S(2), REL, CAP]]),                      # ... a much later release must not serve it
    k1.encode([(2, 0)], [[A(0), CAP], [REL]]),                                 # timeout 0, release in the same scheduling round
    k1.encode([(2, 1)], [[A(0), CAP], [A(0), CAP], [S(1), CAP]]),
    k1.encode([(2, 0)], [[A(2), CAP], [S(2), REL, CAP]]),                      # release exactly at the deadline: the timeout wins
    k1.encode([(2, 0)], [[A(2), CAP], [S(1), REL, CAP]]),                      # release before the deadline
    k1.encode([(2, 0)], [[A(2), CAP], [S(3), REL, CAP, PK]]),                  # release after: token stays
    k1.encode([(2, 0)], [[ACQ], [A(1)], [ACQ], [S(2), REL, REL, PK]]),         # FIFO with a timed-out waiter in the middle
    k1.encode([(2, 2)], [[ACQ, ACQ, ACQ], [S(1), CAP, REL, CAP]]),
    k1.encode([(2, 0)], [[A(-3)], [S(4), REL]]),                               # negative timeout = no timeout
    k1.encode([(2, 0)], [[ACQ]]),                                              # blocked for ever
]


def sequence(log, oi):
    """operations on semaphore oi in kernel order, with a Fire inserted after the clock advance preceding each reported timeout"""
    ops = k1.ops_of(log, oi)
    solves = [e["line"] for e in log["events"] if e["kind"] == "solve"]
    seq = [(o["line"], 1, o) for o in ops]
    for o in ops:
        if o["op"] == k1.ACQ_TIMEOUT and o["ret"] is not None and o["ret"]["val"] == 1:
            before = [l for l in solves if l < o["ret"]["line"]]
            at = before[-1] if before else o["ret"]["line"]
            seq.append((at, 0, {"pid": o["pid"], "op": FIRE, "arg": 0, "t": o["ret"]["t"], "line": at, "ret": None, "of": o}))
    seq.sort(key=lambda x: (x[0], x[1], x[2]["pid"]))
    return [x[2] for x in seq]


MCODE = {k1.ACQUIRE: 4, k1.ACQ_TIMEOUT: 5, k1.RELEASE: 6, k1.GETCAP: 8, k1.PEEK: 10, FIRE: 12}
NAME = {4: "acquire", 5: "acquire_timeout", 6: "release", 8: "get_capacity", 10: "peek", 12: "timer"}


def model_input(cap, seq):
    inp = [FX, cap]
    for o in seq:
        inp += [MCODE[o["op"]], o["pid"], o["arg"]]
    return inp


def parse_model(out, seq):
    res, i = [], 0
    for _ in seq:
        code, k = out[i], out[i + 1]
        res.append((code, out[i + 2:i + 2 + k]))
        i += 2 + k
    return res


def compare(seq, pm, endt):
    bad, diffs = [], []
    pending = {}     # pid -> (op, armed)
    st = {"blocked": 0, "served": 0, "timeouts": 0, "zero_timeouts": 0, "left_blocked": 0}
    for o, (code, xs) in zip(seq, pm):
        r = o["ret"]
        who = "pid %d %s%s@t=%d" % (o["pid"], NAME[MCODE[o["op"]]], "(%d)" % o["arg"] if o["op"] == k1.ACQ_TIMEOUT else "", o["t"])
        if code == 0:
            diffs.append("%s: the model rejects it (issuer blocked)" % who)
            return bad, diffs, st
        if o["op"] == FIRE:
            a = o["of"]
            dl = a["t"] + a["arg"] * k1.TICK
            if code == 7:
                bad.append(("sem-timeout-reported-wrongly", "pid %d acquire_timeout(%d)@t=%d reported a timeout at t=%d, but in the reference it has no "
                            "armed timer then (it holds a token, or never armed one)" % (a["pid"], a["arg"], a["t"], o["t"])))
                pending.pop(o["pid"], None)
                continue
            st["timeouts"] += 1
            st["zero_timeouts"] += a["arg"] == 0
            pending.pop(o["pid"], None)
            if a["ret"]["t"] != dl:
                bad.append(("sem-timeout-date", "pid %d acquire_timeout(%d)@t=%d reported its timeout at t=%d instead of t=%d" % (
                    a["pid"], a["arg"], a["t"], a["ret"]["t"], dl)))
            continue
        if code == 10:
            if r is None or list(r["val"]) != list(xs):
                diffs.append("%s: kernel state %s, model %s" % (who, r and r["val"], xs))
            continue
        if code == 8:
            if r is None or r["val"] != xs[0]:
                bad.append(("sem-capacity", "%s returned %s; capacity + releases - grants is %d" % (who, r and r["val"], xs[0])))
            continue
        if code == 2:
            st["blocked"] += 1
            pending[o["pid"]] = (o, xs[0] == 1)
            continue
        if r is None:
            bad.append(("sem-call-did-not-return", "%s did not return; the reference answers it at once (code %d)" % (who, code)))
            continue
        if r["t"] != o["t"] or (code == 1 and r["val"] != 0):
            bad.append(("sem-immediate-result", "%s returned value %d at t=%d; the reference gives it a token at once" % (who, r["val"], r["t"])))
        if code == 5 and xs:
            st["served"] += 1
            q = xs[0]
            a, armed = pending.pop(q, (None, False))
            if a is None:
                diffs.append("%s: the model serves pid %d which has no pending acquire" % (who, q))
                continue
            rq = a["ret"]
            if rq is None:
                bad.append(("sem-missed-grant", "%s must serve pid %d (oldest waiter) but its acquire never returned" % (who, q)))
            elif rq["val"] != 0 or rq["t"] != o["t"] or rq["line"] < o["line"]:
                bad.append(("sem-wrong-grant", "pid %d's acquire returned value %d at t=%d; the reference serves it by %s" % (q, rq["val"], rq["t"], who)))
            elif armed and a["arg"] > 0 and o["t"] >= a["t"] + a["arg"] * k1.TICK:
                bad.append(("sem-timeout-missed", "pid %d acquire_timeout(%d)@t=%d was served at t=%d, at or after its deadline" % (q, a["arg"], a["t"], o["t"])))
    for q, (a, armed) in pending.items():
        if a["ret"] is not None:
            bad.append(("sem-token-from-nowhere", "pid %d's %s@t=%d returned value %d at t=%d; in the reference it is neither served nor timed out" % (
                q, NAME[MCODE[a["op"]]], a["t"], a["ret"]["val"], a["ret"]["t"])))
        elif armed:
            bad.append(("sem-timeout-never-fires", "pid %d acquire_timeout(%d)@t=%d never returned (run ended at t=%s): no token was granted "
                        "within the timeout and no timeout was reported" % (q, a["arg"], a["t"], endt)))
        else:
            st["left_blocked"] += 1
    return bad, diffs, st


def run(ctx):
    ctx.simgrid(["simgrid"])
    ctx.prove()
    ctx.cov["rule"] = ("random programs: 1-5 actors, 1-3 semaphores of capacity 0..3, 1-7 operations per actor among acquire/"
                       "acquire_timeout(t in {0,1,2,3,4,6,-1,-3} ticks)/release/get_capacity/peek/dyadic sleeps (ties between releases "
                       "and deadlines on purpose); non-trivial = some acquire had to wait; distinct = distinct programs")
    if ctx.replay:
        cases = [k1.replay_case(ctx)]
    else:
        cases = list(CORPUS) + [gen_case(ctx.rng) for _ in range(ctx.n(400, 6000))]
    logs = k1.run_impl(cases)
    jobs, where = [], []
    for ci, (c, log) in enumerate(zip(cases, logs)):
        objs, _ = k1.decode(c)
        for oi, (_, cap) in enumerate(objs):
            seq = sequence(log, oi)
            jobs.append(model_input(cap, seq))
            where.append((ci, oi, cap, seq))
    mouts = fw.run_model("c05", "run_c05", jobs) if jobs else []
    dist = {"programs": len(cases), "semaphores": len(where), "ops": 0, "blocked": 0, "served": 0, "timeouts": 0, "zero_timeouts": 0,
            "deadlocked": 0}
    nontriv = [False] * len(cases)
    left = [0] * len(cases)
    for (ci, oi, cap, seq), mo in zip(where, mouts):
        log = logs[ci]
        if k1.bad_times(log):
            ctx.mismatch("dyadic-clock", "a date of the run is not on the 1/1024 grid", {"case": cases[ci]})
            continue
        bad, diffs, st = compare(seq, parse_model(mo, seq), log["end"])
        dist["ops"] += len(seq)
        for k in ("blocked", "served", "timeouts", "zero_timeouts"):
            dist[k] += st[k]
        left[ci] += st["left_blocked"]
        if st["blocked"]:
            nontriv[ci] = True
        for sig, text in bad:
            ctx.fail(sig, "semaphore %d (capacity %d): %s" % (oi, cap, text), {"case": cases[ci]})
        for text in diffs:
            ctx.mismatch("K-sem-state", "semaphore %d (capacity %d): %s" % (oi, cap, text), {"case": cases[ci]})
    for ci, (c, log) in enumerate(zip(cases, logs)):
        s = log["status"]
        dist["deadlocked"] += s == 2
        if s not in (0, 2):
            ctx.fail("sem-run-aborted", "the run ended with status %d" % s, {"case": c})
        elif (s == 2) != (left[ci] > 0) and not any(f["case"]["case"] == c for f in ctx.failures):
            ctx.mismatch("K-sem-end", "run ended with status %d, the model leaves %d acquire(s) blocked for ever" % (s, left[ci]), {"case": c})
        ctx.case(c, nontriv[ci], {"program": c, "status": s, "events": len(log["events"])} if nontriv[ci] else None)
    ctx.cov["input_distribution"] = dist
    ctx.assumptions += ["sequential contexts (contexts/nthreads:1): the order of the REQ lines is the order in which the kernel executes the calls",
                        "non-MC path of s4u::Semaphore (one simcall per call); the SEM_ASYNC_LOCK/SEM_WAIT split used under simgrid-mc is not modelled",
                        "the date at which the engine ends a timeout (request date + t, handled right after the clock advance and before any actor runs) is "
                        "not a theorem: it is observed (Engine::on_time_advance markers) and checked on every run; durations are dyadic so dates are exact",
                        "value_ (unsigned int) does not overflow; kills of waiting actors (cancel()) are not exercised",
                        "the comparison of the implementation's outcomes with the extracted reference is done by checks/C05.py (trusted glue)"]


META = {
    "level": "proof",
    "text": "Coq theorems over every history of acquire/acquire_timeout/release calls and timer events on a semaphore of any capacity c >= 0 and any "
            "number of actors (step function mirroring SemaphoreImpl::acquire_async/release and SemAcquisitionImpl::wait_for/finish/cancel after the "
            "fix): grants <= c + releases and get_capacity() = c + releases - grants, 0 whenever somebody waits (C05_conservation); the queue is the "
            "blocked requests neither served nor timed out in request order and a release serves its head (C05_fifo, C05_release_serves_head); a timeout "
            "is reported iff the timer elapses while the acquisition still waits, a served waiter can no longer time out (C05_timeout_iff_timer, "
            "C05_granted_never_times_out); a timeout consumes no token, removes exactly that waiter, which is never served later "
            "(C05_timeout_consumes_nothing, C05_timed_out_is_gone); every acquire_timeout(t>=0) that waits arms a timer (C05_armed_iff_nonnegative). "
            "The pinned wait_for (timeout > 0) is refuted at t = 0 (C05_pinned_timeout0_refuted) and was repaired. Tie: kernel-ordered call sequences "
            "of generated S4U programs on the rebuilt library replayed through the extracted step function; outcomes, get_capacity, dates of "
            "timeouts (exactly request date + t) and kernel state must agree.",
    "note": "The engine-level timing of the timer event is checked on every run, not proved. Not modelled: MC two-simcall path, parallel contexts, "
            "kills (cancel on exit), unsigned overflow of value_. Trusted: Coq kernel, extraction, harness/k1_sync.cpp, checks/k1_common.py and the "
            "outcome comparison in checks/C05.py.",
    "technique": "Coq proof (invariants + ghost token counters over all op sequences) + replay correspondence on the real scheduler",
    "claimed": True,
}
