"""C19 — Update algorithms and solver options give the same timings.
Proof: Res/Action.v + ActionProofs.v: for every rate history the LAZY bookkeeping (last_update/last_value, heap date) and the
FULL bookkeeping (remains -= rate*delta at every step) complete at the same date, sleeps (max_duration) too, and the TI
normalisation commutes (Res/Ti.v).  Tie: the same generated workload files run by harness/res2_load.cpp under
cpu/optim x network/optim x selective update on the rebuilt library; completion dates compared pairwise with the tolerance
rule, and with the extracted model's date where the workload makes the rate history computable from the input."""
import json
from fractions import Fraction as F
import fw
import res2_common as rc

PREC_TIME = F(1, 10 ** 9)
BASE = ["network/model:CM02", "network/crosstraffic:0"]
CONFIGS = {
    "lazy": ["cpu/optim:Lazy", "network/optim:Lazy"],
    "full": ["cpu/optim:Full", "network/optim:Full"],
    "full-noselect": ["cpu/optim:Full", "network/optim:Full", "cpu/maxmin-selective-update:no", "network/maxmin-selective-update:no"],
    "full-select": ["cpu/optim:Full", "network/optim:Full", "cpu/maxmin-selective-update:yes", "network/maxmin-selective-update:yes"],
    "lazy-cpu": ["cpu/optim:Lazy", "network/optim:Full"],
    "ti": ["cpu/optim:TI", "network/optim:Lazy"],
}

CORPUS = [
    # TI: suspend/resume (completed at the resume date before the fix), priority change
    {"kind": "closed", "ti": True, "lines": ["H h0 1 1 1.0", "A e0 E h0 100.0 0.0 -1.0 1.0 1", "X 50.0 S e0", "X 60.0 U e0"]},
    {"kind": "cpu", "ti": True, "lines": ["H h0 1 1 1.0", "A e0 E h0 100.0 0.0 -1.0 1.0 1", "A e1 E h0 100.0 0.0 -1.0 1.0 1", "X 50.0 P e0 2.0"]},
    {"kind": "cpu", "ti": True, "lines": ["H h0 1 1 1.0", "A e0 E h0 100.0 0.0 -1.0 1.0 1", "A e1 E h0 100.0 0.0 -1.0 1.0 1", "X 20.0 S e1", "X 70.0 U e1"]},
    # an unchanged priority used to drop the completion event of the lazy heap
    {"kind": "cpu", "ti": False, "lines": ["H h0 2 1 80.0", "A e4 E h0 310.0 0.0 -1.0 1.0 1", "A e5 E h0 250.0 0.0 -1.0 2.0 1", "A e2 E h0 1280.0 0.0 -1.0 4.0 1",
                                            "X 1.25 P e5 2.0", "X 11.75 S e4", "X 12.0 U e4"]},
    # a priority change while suspended must not resume the execution (done at 140)
    {"kind": "closed", "ti": True, "lines": ["H h0 1 1 1.0", "A e0 E h0 100.0 0.0 -1.0 1.0 1", "X 10.0 S e0", "X 20.0 P e0 2.0", "X 50.0 U e0"]},
    {"kind": "net", "ti": False, "lines": ["H h0 1 1 1.0", "H h1 1 1 1.0", "L l0 100.0 10.0 S", "R h0 h1 1 l0", "A c0 C h0 h1 1000.0 0.0 -1.0", "X 4.0 S c0", "X 8.0 U c0"]},
    {"kind": "cpu", "ti": True, "lines": ["H h0 1 1 8.0 P 10.0 3 0.0 1.0 2.5 0.5 6.0 0.25", "A e0 E h0 100.0 0.0 -1.0 1.0 1", "A e1 E h0 60.0 1.5 -1.0 2.0 1", "Z 0.3"]},
]


def gen_closed(rng):
    """one execution alone on its host, suspended/resumed and slowed down at dyadic dates: the rate history is known"""
    nps = rng.choice([1, 1, 2, 3])
    speeds = [F(rng.randint(1, 32), 4) * rng.choice([1, 16]) for _ in range(nps)]
    cores = rng.choice([1, 1, 2])
    cost = F(rng.randint(4, 400), 2) * speeds[0] / 4
    start = rng.choice([F(0), F(rng.randint(0, 12), 4)])
    lines = ["H h0 %d %d %s" % (cores, nps, " ".join(rc.num(s) for s in speeds)),
             "A e0 E h0 %s %s -1.0 %s 1" % (rc.num(cost), rc.num(start), rc.num(rng.choice([F(1), F(2), F(1, 2)])))]
    t, susp = start, False
    for _ in range(rng.randint(0, 6)):
        t += F(rng.randint(1, 24), 4)
        if nps > 1 and rng.random() < 0.4:
            lines.append("X %s K h0 %d" % (rc.num(t), rng.randrange(nps)))
        else:
            lines.append("X %s %s e0" % (rc.num(t), "U" if susp else "S"))
            susp = not susp
    if susp:
        lines.append("X %s U e0" % rc.num(t + F(1, 2)))
    for _ in range(rng.randint(0, 4)):
        lines.append("Z %s" % rc.num(F(rng.randint(1, 400), 16)))
    return {"kind": "closed", "ti": cores == 1 and nps == 1, "lines": lines}


def closed_history(lines):
    """the (duration, rate, touched) history of the single exec of a 'closed' workload, from the input alone"""
    speeds, cost, start, ops = None, None, None, []
    for l in lines:
        t = l.split()
        if t[0] == "H":
            speeds = [F(x) for x in t[4:4 + int(t[3])]]
        elif t[0] == "A":
            cost, start = F(t[4]), F(t[5])
        elif t[0] == "X":
            ops.append((F(t[1]), t[2], int(t[4]) if t[2] == "K" else None))
    ops.sort(key=lambda o: o[0])
    # pstate operations dated before the start still apply; suspend/resume before the start are skipped by the harness
    ps, running, now, segs = 0, True, start, []
    for (d, op, v) in ops:
        if d < start or (d == start and op != "K"):
            if op == "K":
                ps = v
            continue
        if d > now:
            segs.append((d - now, speeds[ps] if running else F(0)))
            now = d
        if op == "K":
            ps = v
        elif op == "S":
            running = False
        elif op == "U":
            running = True
    segs.append((F(10 ** 9), speeds[ps] if running else F(0)))
    return cost, start, segs


def run(ctx):
    exe = rc.setup(ctx)
    ctx.cov["rule"] = ("generated workloads (1-4 hosts, 1-4 cores, pstates, periodic speed profiles, SHARED/FATPIPE links with latency, execs with bounds and "
                       "priorities, host-to-host comms, suspend/resume/priority/pstate/bandwidth operations, unrelated timers), each run under every "
                       "configuration of CONFIGS (TI only for single-core hosts without bounds/pstate operations); non-trivial = at least two activities "
                       "overlap or an operation was applied; distinct = distinct workload text")
    if ctx.replay:
        cases = [json.load(open(ctx.replay))["case"]]
    else:
        cases = [dict(c) for c in CORPUS]
        n = ctx.n(90, 900)
        for i in range(n):
            r = i % 6
            if r == 0:
                cases.append(gen_closed(ctx.rng))
            elif r == 1:
                w = rc.gen_workload(ctx.rng, "cpu", ti=True)
                w["lines"] = [l for l in w["lines"] if not (l.startswith("X") and l.split()[2] == "K")]
                cases.append({"kind": "cpu-ti", "ti": True, "lines": w["lines"]})
            else:
                kind = ["cpu", "net", "mixed", "cpu"][r - 2]
                w = rc.gen_workload(ctx.rng, kind, arbitrary=(i % 5 == 4))
                cases.append({"kind": kind, "ti": False, "lines": [l for l in w["lines"] if not l.startswith("D ") and " I d" not in l]})
    jobs, index = [], []
    for ci, c in enumerate(cases):
        for name, cfg in CONFIGS.items():
            if name == "ti" and not c.get("ti"):
                continue
            jobs.append((c["lines"], BASE + cfg, ["nosamples"] + (["noloads"] if name == "ti" else [])))
            index.append((ci, name))
    res = rc.run_many(exe, jobs)
    per = {}
    for (ci, name), r in zip(index, res):
        per.setdefault(ci, {})[name] = r
    dist = {"closed": 0, "cpu": 0, "cpu-ti": 0, "net": 0, "mixed": 0, "runs": len(jobs), "ti_runs": sum(1 for i in index if i[1] == "ti"),
            "pairs_compared": 0, "model_dates_compared": 0}
    closed_q = []
    for ci, c in enumerate(cases):
        dist[c["kind"]] = dist.get(c["kind"], 0) + 1
        runs = per[ci]
        obs = {}
        for name, (rcode, out, err) in runs.items():
            ob = rc.parse(out)
            if rcode != 0 or not ob["complete"]:
                ctx.fail("run-crashed-" + name, "configuration %s: run ended with rc=%d: %s" % (name, rcode, err[-300:]), dict(c, config=name))
                continue
            obs[name] = ob
        ref = obs.get("full")
        if ref is None:
            continue
        spans = sorted((ref["begin"][a], ref["end"][a][1]) for a in ref["end"])
        nontriv = any(spans[i + 1][0] < spans[i][1] for i in range(len(spans) - 1)) or any(o[3] for o in ref["ops"])
        ctx.case(tuple(c["lines"]), nontriv, {"workload": c["lines"], "finish": {n: {a: float(v[1]) for a, v in o["end"].items()} for n, o in obs.items()}} if nontriv else None)
        for name, ob in obs.items():
            if name == "full":
                continue
            dist["pairs_compared"] += 1
            if set(ob["end"]) != set(ref["end"]):
                ctx.fail("different-completions-" + name, "activities completed under full: %s, under %s: %s" % (sorted(ref["end"]), name, sorted(ob["end"])), dict(c, config=name))
                continue
            for a in sorted(ref["end"]):
                t0, t1 = ref["end"][a][1], ob["end"][a][1]
                if abs(t0 - t1) > 4 * PREC_TIME * max(1, abs(t0)):
                    ctx.fail("completion-date-differs-%s" % name, "activity %s completes at %s under cpu/network Full and at %s under %s (%s)" % (
                        a, float(t0), float(t1), name, " ".join(CONFIGS[name])), dict(c, config=name))
                    break
        if c["kind"] == "closed":
            cost, start, segs = closed_history(c["lines"])
            q = [0, 1] + rc.q2(cost) + rc.q2(start) + [len(segs)]
            for d, r in segs:
                q += rc.q2(d) + rc.q2(r) + [1]
            closed_q.append((c, obs, q))
    if closed_q:
        ans = fw.run_model("c19", "run_c19_dates", [q for c, o, q in closed_q])
        for (c, obs, q), a in zip(closed_q, ans):
            if a[0] != 1 or a[1] != 1 or a[2] != 1 or a[5] != 1 or F(a[3], a[4]) != F(a[6], a[7]):
                ctx.mismatch("model-closed-form", "the model gives no single date on %s: %s" % (c["lines"], a), c)
                continue
            date = F(a[3], a[4])
            for name, ob in obs.items():
                dist["model_dates_compared"] += 1
                if "e0" not in ob["end"]:
                    continue
                t = ob["end"]["e0"][1]
                if abs(t - date) > 4 * PREC_TIME * max(1, abs(date)):
                    ctx.fail("completion-date-not-model-" + name, "single execution: the verified bookkeeping completes at %s, the implementation at %s under %s" % (
                        float(date), float(t), name), dict(c, config=name))
    ctx.cov["input_distribution"] = dist
    ctx.assumptions += ["CM02 without cross-traffic (same in every configuration)", "runs are not sampled: get_remaining() updates the lazy/TI bookkeeping",
                        "TI: single-core hosts, no user bound (the model refuses them), no pstate operation; profiles are periodic",
                        "dates compared with 4*precision/timing relative tolerance"]


META = {
    "level": "proof",
    "text": "Coq theorems over exact rationals, for EVERY rate history (suspend = rate 0, resume, bound/priority/capacity changes = rate changes, any "
            "placement of unrelated engine events, the action put in the modified set at least whenever its rate changes): the LAZY bookkeeping "
            "(last_update/last_value, completion date in the heap) and the FULL bookkeeping (remains -= rate*delta at every step) complete at the "
            "same date (C19_lazy_eq_full); that date is the first at which the integral of the rate reaches the cost (C19_completion_is_first_hit); a sleep "
            "(max_duration) ends at start+duration under both (C19_max_duration); the TI normalisation of the work by priority and peak speed "
            "commutes with completion (C19_ti_scaling). Tie on every run: generated workloads run under cpu/optim {Lazy,Full,TI} x network/optim "
            "{Lazy,Full} x selective update {yes,no}; completion dates compared pairwise and with the extracted model on single-execution workloads.",
    "note": "Rates are an oracle in the theorems (equality of the solver's output under selective update is C17). TI's table search "
            "(CpuTiProfile::integrate_simple_point/solve_simple, periodic reduction) is tied by the differential runs only. Network latency phases and "
            "factors are exercised by the runs, not modelled. Trusted: Coq kernel, extraction, harness, generator.",
    "technique": "Coq proof (simulation between the two bookkeepings, lra/field) + differential runs across configurations + extracted-model dates",
    "claimed": True,
}
