"""C35 — private parts of partially shared buffers are transferred exactly.
K: shift_and_frame_private_blocks / merge_private_blocks of the rebuilt library vs. the extracted Coq functions.
O: byte-set semantics — the bytes denoted by the implementation's answer must equal the bytes the verified
   function denotes (block boundaries may differ harmlessly, e.g. two adjacent blocks instead of one)."""
import fw


def gen_blocks(rng, maxpos, maxn):
    n = rng.randint(0, maxn)
    pts = sorted(rng.sample(range(0, maxpos), min(2 * n, maxpos)))
    if len(pts) % 2:
        pts.pop()
    return [(pts[i], pts[i + 1]) for i in range(0, len(pts), 2)]


def flat(bl):
    return [len(bl)] + [x for be in bl for x in be]


def bytes_of(flatpairs, limit):
    s = set()
    for i in range(0, len(flatpairs) - 1, 2):
        b, e = flatpairs[i], flatpairs[i + 1]
        if e - b > 100000 or b < 0:
            return None
        s.update(range(b, e))
    return s


def gen_case(rng, mode):
    big = rng.random() < 0.15
    maxpos = 4096 if big else rng.choice([24, 40, 64])
    src = gen_blocks(rng, maxpos, 5)
    if mode == "shift":
        # aim at the case-split boundaries: offset before / at / inside / after a block
        cands = [0, maxpos] + [x + d for be in src for x in be for d in (-1, 0, 1)]
        off = max(0, rng.choice(cands)) if rng.random() < 0.7 else rng.randint(0, maxpos)
        size = rng.choice([0, 1, 2, rng.randint(0, maxpos), rng.randint(0, 2 * maxpos)])
        return [off, size] + flat(src)
    dst = gen_blocks(rng, maxpos, 5)
    if mode == "merge":
        return flat(src) + flat(dst)
    soff = rng.randint(0, maxpos // 2)
    doff = rng.randint(0, maxpos // 2)
    size = rng.randint(0, maxpos)
    return [soff, doff, size] + flat(src) + flat(dst)


CORPUS = {"shift": [[15, 10, 1, 10, 20], [0, 10, 1, 0, 10], [20, 5, 1, 10, 20], [10, 5, 2, 0, 10, 12, 30]],
          "merge": [[1, 0, 10, 1, 5, 15], [2, 0, 4, 6, 9, 1, 2, 8]],
          "copied": [[15, 0, 10, 1, 10, 20, 1, 0, 10], [6, 2, 16, 2, 4, 10, 16, 24, 2, 0, 8, 12, 20]]}


def gen_shared(rng, size):
    """separated shared blocks inside [0,size] (stop_i < start_{i+1}), as smpi_shared_malloc_partial requires"""
    n = rng.randint(0, 3)
    if size < 2 * n + 1:
        n = 0
    pts = sorted(rng.sample(range(0, size + 1), 2 * n))
    bl = []
    for i in range(0, 2 * n, 2):
        b, e = pts[i], pts[i + 1]
        if bl and b <= bl[-1][1]:
            b = bl[-1][1] + 1
        if b < e:
            bl.append((b, e))
    return bl


def gen_e2e(rng):
    big = rng.random() < 0.4
    ssize = rng.randint(3 * 4096, 4 * 4096 + 100) if big else rng.randint(8, 200)
    dsize = rng.randint(3 * 4096, 4 * 4096 + 100) if big else rng.randint(8, 200)
    ss, ds = gen_shared(rng, ssize), gen_shared(rng, dsize)
    if big and rng.random() < 0.7:      # page-aligned shared blocks are really mapped shared
        ss = [(4096, 2 * 4096)] if rng.random() < 0.5 else [(0, 4096), (2 * 4096, 3 * 4096)]
    size = rng.randint(0, min(ssize, dsize))
    # aim the message start at the boundaries of the private/shared blocks
    cs = [0] + [x + d for be in ss for x in be for d in (-1, 0, 1)]
    soff = min(max(0, rng.choice(cs)), ssize - size) if rng.random() < 0.6 else rng.randint(0, ssize - size)
    cd = [0] + [x + d for be in ds for x in be for d in (-1, 0, 1)]
    doff = min(max(0, rng.choice(cd)), dsize - size) if rng.random() < 0.6 else rng.randint(0, dsize - size)
    mode = rng.randint(0, 2)
    return mode, [soff, doff, size, ssize] + flat(ss) + [dsize] + flat(ds)


E2E_CORPUS = [(0, [15, 0, 10, 40, 2, 0, 10, 20, 40, 40, 1, 30, 40]),      # private [10,20) starts before the message
              (1, [5, 5, 20, 64, 1, 0, 3, 64, 1, 60, 64]),
              (2, [4090, 10, 100, 12288, 1, 4096, 8192, 300, 0])]
E2E_CFGS = [("rendezvous", ["smpi/send-is-detached-thresh:0", "smpi/async-small-thresh:0"]),
            ("detached", ["smpi/send-is-detached-thresh:65536", "smpi/async-small-thresh:0"]),
            ("eager", ["smpi/send-is-detached-thresh:100000", "smpi/async-small-thresh:100000"])]


def e2e(ctx, dist):
    import json, os, tempfile
    prog = fw.build_smpi_prog("smpi_c35", "c")
    n = ctx.n(120, 3000)
    cases = list(E2E_CORPUS) + [gen_e2e(ctx.rng) for _ in range(n)]
    if ctx.replay:
        rp = json.load(open(ctx.replay))["case"]
        if rp["mode"] != "e2e":
            return
        cases = [(rp["input"][0], rp["input"][1:])]
    model = fw.run_model("c35", "run_c35_e2e", [c for _, c in cases])
    os.makedirs(os.path.join(fw.B, "run"), exist_ok=True)
    path = os.path.join(fw.B, "run", "c35_e2e_cases.txt")
    with open(path, "w") as f:
        for m, c in cases:
            f.write(" ".join(map(str, [m] + c)) + "\n")
    cfgs = E2E_CFGS if not ctx.replay else [x for x in E2E_CFGS if x[0] == rp.get("cfg", x[0])]
    for cname, cfg in cfgs:
        rc, so, se = fw.smpirun(prog, 2, [path], cfg=cfg, timeout=1200)
        lines = [l for l in so.split("\n") if l and l[0].isdigit()]
        if rc in (126, 127):
            raise fw.BuildError("smpirun could not start: " + (se or so)[-300:])
        if rc != 0 or len(lines) != len(cases):
            ctx.fail("e2e-run-" + cname, "smpi_c35 under %s ended rc=%d with %d/%d answers: %s" % (cname, rc, len(lines), len(cases), (se or so)[-400:]),
                     {"mode": "e2e", "cfg": cname, "input": None})
            continue
        for (m, c), exp, l in zip(cases, model, lines):
            got = [int(t) for t in l.split()][1:]
            need, have = bytes_of(exp, 0), bytes_of(got, 0)
            dist["e2e_" + cname] = dist.get("e2e_" + cname, 0) + 1
            ctx.case(("e2e", cname, m, c), len(exp) > 0, {"mode": "e2e", "cfg": cname, "input": [m] + c, "must_arrive": exp, "arrived": got} if len(exp) > 0 and dist["e2e_" + cname] < 3 else None)
            if not need <= have:
                lost = sorted(need - have)
                ctx.fail("e2e-private-bytes-lost", "%s send mode %d, case %s: message bytes %s.. (%d bytes) are private on both sides but did not arrive; must arrive %s, arrived %s"
                         % (cname, m, c, lost[:4], len(lost), exp, got), {"mode": "e2e", "cfg": cname, "input": [m] + c, "expected": exp, "arrived": got})


def run(ctx):
    ctx.simgrid(["simgrid", "smpimain"])
    ctx.prove()
    drv = fw.build_harness("c35_drv")
    n = ctx.n(600, 20000)
    ctx.cov["rule"] = ("random sorted disjoint block layouts (<=5 blocks, positions < 64 or < 4096), offsets aimed at block "
                       "boundaries +-1, sizes 0/1/2/random; non-trivial = the verified answer is a non-empty block list; "
                       "distinct = distinct (mode, input)")
    dist = {"shift": 0, "merge": 0, "copied": 0, "nonempty": 0}
    for mode, fn in (("shift", "run_c35_shift"), ("merge", "run_c35_merge"), ("copied", "run_c35_copied")):
        cases = list(CORPUS[mode]) + [gen_case(ctx.rng, mode) for _ in range(n)]
        if ctx.replay:
            import json
            rp = json.load(open(ctx.replay))["case"]
            if rp["mode"] != mode:
                continue
            cases = [rp["input"]]
        model = fw.run_model("c35", fn, cases)
        rc, impl, err = fw.run_lines(drv, [mode], [" ".join(map(str, c)) for c in cases])
        if rc != 0 or len(impl) != len(cases):
            ctx.fail("driver-crash-" + mode, "c35_drv %s ended with rc=%d after %d/%d cases: %s" % (mode, rc, len(impl), len(cases), err[-300:]),
                     {"mode": mode, "input": cases[len(impl)] if len(impl) < len(cases) else None})
            continue
        for c, m, il in zip(cases, model, impl):
            i = [int(t) for t in il.split()]
            dist[mode] += 1
            nontriv = len(m) > 0
            dist["nonempty"] += nontriv
            ctx.case((mode, c), nontriv, {"mode": mode, "input": c, "impl": i, "model": m} if nontriv else None)
            if i == m:
                continue
            bi, bm = bytes_of(i, 0), bytes_of(m, 0)
            if bi is None or bi != bm:
                lost = sorted((bm or set()) - (bi or set()))[:5]
                extra = sorted((bi or set()) - (bm or set()))[:5] if bi is not None else "blocks out of range"
                ctx.fail("%s-bytes-%s" % (mode, "lost" if lost else "extra"),
                         "%s %s: implementation blocks %s, verified blocks %s (private bytes lost %s, extra %s)" % (mode, c, i, m, lost, extra),
                         {"mode": mode, "input": c, "impl": i, "expected": m})
            else:
                ctx.notes.append("harmless difference in block boundaries on %s %s" % (mode, c))
    e2e(ctx, dist)
    ctx.cov["input_distribution"] = dist
    ctx.assumptions += ["size_t is 64 bits; inputs to shift are sorted disjoint blocks as built by smpi_shared_malloc_partial",
                        "the memcpy loops of memcpy_private are not modelled (one memcpy per returned block)"]

META = {
    "level": "proof",
    "text": "Coq theorems (unbounded in layout, offset, size): the framed blocks denote exactly the message bytes lying in a private block "
            "(C35_shift_covers), merge is set intersection on sorted block lists (C35_merge_is_intersection), hence the copy callback's block "
            "list is exactly the bytes private on both sides (C35_private_bytes_copied). The Gallina functions are tied to the rebuilt library "
            "by differential runs of shift_and_frame_private_blocks/merge_private_blocks on generated layouts; disagreements are judged on byte sets.",
    "note": "Trusted: Coq kernel, extraction (ExtrOcamlBasic), the C++ driver and generator. Modelled, not verified: the two C++ functions; "
            "smpi_is_shared's metadata lookup and the memcpy loop are not modelled.",
    "technique": "Coq proof (induction on block lists, lia) + extracted-model differential correspondence",
}
