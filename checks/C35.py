"""C35 — private parts of partially shared buffers are transferred exactly.
K: shift_and_frame_private_blocks / merge_private_blocks of the rebuilt library vs. the extracted Coq functions.
O: byte-set semantics — the bytes denoted by the implementation's answer must equal the bytes the verified
   function denotes (block boundaries may differ harmlessly, e.g. two adjacent blocks instead of one)."""
import fw


def gen_blocks(rng, maxpos, maxn):
    n = rng.randint(0, maxn)
    pts = sorted(rng.sample(range(0, maxpos), min(2 * n, maxpos)))
    if len(pts) % 2:
        pts.pop()
    return [(pts[i], pts[i + 1]) for i in range(0, len(pts), 2)]


def flat(bl):
    return [len(bl)] + [x for be in bl for x in be]


def bytes_of(flatpairs, limit):
    s = set()
    for i in range(0, len(flatpairs) - 1, 2):
        b, e = flatpairs[i], flatpairs[i + 1]
        if e - b > 100000 or b < 0:
            return None
        s.update(range(b, e))
    return s


def gen_case(rng, mode):
    big = rng.random() < 0.15
    maxpos = 4096 if big else rng.choice([24, 40, 64])
    src = gen_blocks(rng, maxpos, 5)
    if mode == "shift":
        # aim at the case-split boundaries: offset before / at / inside / after a block
        cands = [0, maxpos] + [x + d for be in src for x in be for d in (-1, 0, 1)]
        off = max(0, rng.choice(cands)) if rng.random() < 0.7 else rng.randint(0, maxpos)
        size = rng.choice([0, 1, 2, rng.randint(0, maxpos), rng.randint(0, 2 * maxpos)])
        return [off, size] + flat(src)
    dst = gen_blocks(rng, maxpos, 5)
    if mode == "merge":
        return flat(src) + flat(dst)
    soff = rng.randint(0, maxpos // 2)
    doff = rng.randint(0, maxpos // 2)
    size = rng.randint(0, maxpos)
    return [soff, doff, size] + flat(src) + flat(dst)


CORPUS = {"shift": [[15, 10, 1, 10, 20], [0, 10, 1, 0, 10], [20, 5, 1, 10, 20], [10, 5, 2, 0, 10, 12, 30]],
          "merge": [[1, 0, 10, 1, 5, 15], [2, 0, 4, 6, 9, 1, 2, 8]],
          "copied": [[15, 0, 10, 1, 10, 20, 1, 0, 10], [6, 2, 16, 2, 4, 10, 16, 24, 2, 0, 8, 12, 20]]}


def run(ctx):
    ctx.simgrid(["simgrid"])
    ctx.prove()
    drv = fw.build_harness("c35_drv")
    n = ctx.n(600, 20000)
    ctx.cov["rule"] = ("random sorted disjoint block layouts (<=5 blocks, positions < 64 or < 4096), offsets aimed at block "
                       "boundaries +-1, sizes 0/1/2/random; non-trivial = the verified answer is a non-empty block list; "
                       "distinct = distinct (mode, input)")
    dist = {"shift": 0, "merge": 0, "copied": 0, "nonempty": 0}
    for mode, fn in (("shift", "run_c35_shift"), ("merge", "run_c35_merge"), ("copied", "run_c35_copied")):
        cases = list(CORPUS[mode]) + [gen_case(ctx.rng, mode) for _ in range(n)]
        if ctx.replay:
            import json
            rp = json.load(open(ctx.replay))["case"]
            if rp["mode"] != mode:
                continue
            cases = [rp["input"]]
        model = fw.run_model("c35", fn, cases)
        rc, impl, err = fw.run_lines(drv, [mode], [" ".join(map(str, c)) for c in cases])
        if rc != 0 or len(impl) != len(cases):
            ctx.fail("driver-crash-" + mode, "c35_drv %s ended with rc=%d after %d/%d cases: %s" % (mode, rc, len(impl), len(cases), err[-300:]),
                     {"mode": mode, "input": cases[len(impl)] if len(impl) < len(cases) else None})
            continue
        for c, m, il in zip(cases, model, impl):
            i = [int(t) for t in il.split()]
            dist[mode] += 1
            nontriv = len(m) > 0
            dist["nonempty"] += nontriv
            ctx.case((mode, c), nontriv, {"mode": mode, "input": c, "impl": i, "model": m} if nontriv else None)
            if i == m:
                continue
            bi, bm = bytes_of(i, 0), bytes_of(m, 0)
            if bi is None or bi != bm:
                lost = sorted((bm or set()) - (bi or set()))[:5]
                extra = sorted((bi or set()) - (bm or set()))[:5] if bi is not None else "blocks out of range"
                ctx.fail("%s-bytes-%s" % (mode, "lost" if lost else "extra"),
                         "%s %s: implementation blocks %s, verified blocks %s (private bytes lost %s, extra %s)" % (mode, c, i, m, lost, extra),
                         {"mode": mode, "input": c, "impl": i, "expected": m})
            else:
                ctx.notes.append("harmless difference in block boundaries on %s %s" % (mode, c))
    ctx.cov["input_distribution"] = dist
    ctx.assumptions += ["size_t is 64 bits; inputs to shift are sorted disjoint blocks as built by smpi_shared_malloc_partial",
                        "the memcpy loops of memcpy_private are not modelled (one memcpy per returned block)"]

META = {
    "level": "proof",
    "text": "Coq theorems (unbounded in layout, offset, size): the framed blocks denote exactly the message bytes lying in a private block "
            "(C35_shift_covers), merge is set intersection on sorted block lists (C35_merge_is_intersection), hence the copy callback's block "
            "list is exactly the bytes private on both sides (C35_private_bytes_copied). The Gallina functions are tied to the rebuilt library "
            "by differential runs of shift_and_frame_private_blocks/merge_private_blocks on generated layouts; disagreements are judged on byte sets.",
    "note": "Trusted: Coq kernel, extraction (ExtrOcamlBasic), the C++ driver and generator. Modelled, not verified: the two C++ functions; "
            "smpi_is_shared's metadata lookup and the memcpy loop are not modelled.",
    "technique": "Coq proof (induction on block lists, lia) + extracted-model differential correspondence",
}
