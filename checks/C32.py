"""C32 — Groups and communicators follow MPI rules.
K/O: harness/smpi_c32.c under smpirun -np 1..12 vs. the extracted Coq model (Smpi/Group.v).  Every operation here is a
function of its input that the theorems pin down completely (members AND order), so the implementation's answer, observed
through MPI_Group_translate_ranks to the world group / MPI_Group_compare / MPI_Comm_rank, must equal the verified answer.
Comm_dup, Comm_create and "messages never cross communicators" are checked on every split (not proved)."""
import json, os
import fw

OPS = {0: "union", 1: "intersection-order", 2: "difference", 3: "incl", 4: "excl", 5: "range_incl", 6: "range_excl",
       7: "translate", 8: "compare"}
UNDEF = -333


def rgroup(rng, np, allow_empty=True):
    k = rng.randint(0 if allow_empty else 1, np)
    return rng.sample(range(np), k)


def L(l):
    return [len(l)] + list(l)


def gen_ranges(rng, size):
    for _ in range(50):
        res, used = [], set()
        for _ in range(rng.randint(1, 3)):
            first, last = rng.randrange(size), rng.randrange(size)
            stride = rng.randint(1, 4) * (1 if first <= last else -1)
            if first == last and rng.random() < 0.5:
                stride = -stride
            ranks = list(range(first, last + (1 if stride > 0 else -1), stride))
            if used & set(ranks):
                continue
            used |= set(ranks)
            res += [first, last, stride]
        if res:
            return res
    return [0, 0, 1]


def gen_group_case(rng, np):
    op = rng.choice([0, 0, 1, 1, 1, 2, 2, 3, 3, 4, 4, 5, 5, 6, 6, 7, 7, 8, 8])
    if op in (0, 1, 2):
        return [op] + L(rgroup(rng, np)) + L(rgroup(rng, np))
    if op == 8:
        g1 = rgroup(rng, np)
        x = rng.random()
        if x < 0.3:
            g2 = list(g1)
        elif x < 0.7:
            g2 = rng.sample(g1, len(g1))
        else:
            g2 = rgroup(rng, np)
        return [op] + L(g1) + L(g2)
    if op in (3, 4):
        g1 = rgroup(rng, np)
        x = rng.random()
        k = 0 if x < 0.1 else len(g1) if x < 0.25 else rng.randint(0, len(g1))
        return [op] + L(g1) + L(rng.sample(range(len(g1)), k))
    if op in (5, 6):
        g1 = rgroup(rng, np, allow_empty=False)
        tr = [] if rng.random() < 0.05 else gen_ranges(rng, len(g1))
        return [op] + L(g1) + L(tr)
    g1 = rgroup(rng, np)
    ranks = [(-1000 if rng.random() < 0.1 or not g1 else rng.randrange(len(g1))) for _ in range(rng.randint(0, 8))]
    return [op] + L(g1) + L(ranks) + L(rgroup(rng, np))


def gen_split_case(rng, np):
    ncol = rng.choice([1, 2, 3, 4])
    colors = [UNDEF if rng.random() < 0.15 else rng.randrange(ncol) for _ in range(np)]
    kr = rng.choice([1, 2, 5, 100])
    keys = [rng.randint(-kr, kr) for _ in range(np)]
    return colors + keys


# (np, kind, input)
CORPUS = [
    (3, "G", [1, 3, 0, 1, 2, 3, 2, 1, 0]),                      # DESIGN section 6: intersection must be [0,1,2]
    (6, "G", [1, 4, 0, 1, 2, 5, 4, 5, 2, 1, 4]),
    (6, "G", [0, 3, 0, 1, 2, 3, 2, 1, 4]),
    (6, "G", [2, 4, 0, 1, 2, 3, 2, 3, 1]),
    (6, "G", [3, 4, 5, 3, 1, 0, 2, 2, 0]),
    (6, "G", [4, 4, 5, 3, 1, 0, 2, 2, 0]),
    (6, "G", [4, 4, 5, 3, 1, 0, 4, 2, 0, 1, 3]),
    (6, "G", [4, 4, 5, 3, 1, 0, 0]),
    (6, "G", [5, 6, 0, 1, 2, 3, 4, 5, 6, 0, 4, 2, 5, 1, -3]),
    (6, "G", [6, 6, 0, 1, 2, 3, 4, 5, 3, 1, 3, 1]),
    (6, "G", [5, 6, 5, 4, 3, 2, 1, 0, 3, 3, 3, -2]),
    (6, "G", [7, 3, 4, 2, 0, 4, 0, 2, -1000, 1, 3, 2, 5, 0]),
    (3, "G", [8, 3, 0, 1, 2, 3, 2, 1, 0]),
    (3, "G", [8, 3, 0, 1, 2, 3, 0, 1, 2]),
    (4, "G", [8, 3, 0, 1, 2, 3, 0, 1, 3]),
    (3, "G", [8, 0, 0]),
    (6, "S", [1, 0, 1, UNDEF, 0, 1, 5, 5, 2, 9, 1, 0]),
    (4, "S", [0, 0, 0, 0, 3, 3, 3, 3]),
    (5, "S", [UNDEF, 1, 1, 1, 1, 0, 4, -1, 4, -1]),
    (1, "S", [0, 7]),
]


def run(ctx):
    ctx.simgrid(["simgrid", "smpimain"])
    ctx.prove()
    prog = fw.build_smpi_prog("smpi_c32")
    rng = ctx.rng
    cases = []
    if ctx.replay:
        rp = json.load(open(ctx.replay))["case"]
        cases = [(rp["np"], rp["kind"], rp["input"])]
    else:
        cases = list(CORPUS)
        ng, ns = ctx.n(150, 3000), ctx.n(25, 400)
        for np in range(1, 13):
            cases += [(np, "G", gen_group_case(rng, np)) for _ in range(ng)]
            cases += [(np, "S", gen_split_case(rng, np)) for _ in range(ns)]
    ctx.cov["rule"] = ("worlds of 1..12 ranks; groups = random subsets of the world in random order (empty included); union/intersection/"
                       "difference on overlapping groups; incl/excl with random distinct rank lists (n = 0 and n = size included); "
                       "range_incl/excl with 1..3 valid disjoint triplets (both stride signs); translate_ranks with MPI_PROC_NULL; compare on "
                       "identical/permuted/different groups; Comm_split with 1..4 colours, MPI_UNDEFINED, keys with ties and negatives, "
                       "followed by Comm_dup, Comm_create and a two-message cross-communicator test. non-trivial = result group of >= 2 "
                       "members / split with a class of >= 2 ranks; distinct = distinct (np, input)")
    dist = {"np": {}, "ops": {v: 0 for v in OPS.values()}, "split": 0, "split_ranks": 0, "cross_comm_tests": 0}
    os.makedirs(os.path.join(fw.B, "run"), exist_ok=True)
    for np in sorted(set(c[0] for c in cases)):
        sub = [c for c in cases if c[0] == np]
        dist["np"][np] = len(sub)
        cf = os.path.join(fw.B, "run", "c32_cases_%d_%d.txt" % (os.getpid(), np))
        with open(cf, "w") as f:
            for _, k, c in sub:
                f.write(k + " " + " ".join(map(str, c)) + "\n")
        rc, so, se = fw.smpirun(prog, np, [cf], timeout=1200)
        os.remove(cf)
        per = {}
        for l in so.split("\n"):
            t = l.split()
            if len(t) >= 3 and t[0].isdigit():
                per.setdefault(int(t[0]), []).append((int(t[1]), t[2], [int(x) for x in t[3:]]))
        if rc != 0:
            nxt = min((max(per) if per else 0), len(sub) - 1)
            ctx.fail("driver-crash", "smpi_c32 -np %d ended with rc=%d around case %d %s: %s" % (np, rc, nxt, sub[nxt][1:], se[-300:]),
                     {"np": np, "kind": sub[nxt][1], "input": sub[nxt][2]})
            continue
        gi = [i for i, c in enumerate(sub) if c[1] == "G"]
        si = [i for i, c in enumerate(sub) if c[1] == "S"]
        mg = fw.run_model("c32", "run_c32_group", [sub[i][2] for i in gi]) if gi else []
        ms = fw.run_model("c32", "run_c32_split", [[np] + sub[i][2] for i in si]) if si else []
        for i, m in zip(gi, mg):
            c = sub[i][2]
            case = {"np": np, "kind": "G", "input": c}
            name = OPS[c[0]]
            dist["ops"][name] += 1
            o = [t for w, k, t in per.get(i, []) if k == "G"]
            io = o[0] if o else None
            nontriv = len(m) >= 3 or c[0] in (7, 8)
            ctx.case((np, "G", c), nontriv, {"np": np, "op": name, "input": c, "impl": io, "mpi": m} if nontriv else None)
            if io != m:
                ctx.fail(name, "np=%d %s %s: implementation [rc, result as world ranks..] %s, MPI (verified) %s" % (np, name, c[1:], io, m), case)
        for i, m in zip(si, ms):
            c = sub[i][2]
            case = {"np": np, "kind": "S", "input": c}
            colors, keys = c[:np], c[np:]
            dist["split"] += 1
            S, X, K = {}, {}, {}
            for w, k, t in per.get(i, []):
                {"S": S, "X": X, "K": K}.get(k, {})[w] = t
            flat = []
            for w in range(np):
                flat += S.get(w, [-9])
            nontriv = any(colors.count(x) >= 2 for x in set(colors) if x != UNDEF)
            ctx.case((np, "S", c), nontriv, {"np": np, "colors": colors, "keys": keys, "impl": flat[:40]} if nontriv else None)
            if flat != m:
                ctx.fail("split-order", "np=%d Comm_split colours %s keys %s: implementation per rank [flag newrank size members..] %s, "
                         "MPI (verified: by key, then old rank) %s" % (np, colors, keys, flat, m), case)
                continue
            for w in range(np):
                s = S[w]
                if s[0] == 0:
                    continue
                dist["split_ranks"] += 1
                nr, sz, members = s[1], s[2], s[3:]
                x = X.get(w)
                if x is None or x[0] != 3 or x[1] != 0:
                    ctx.fail("dup", "np=%d split %s rank %d: Comm_compare(comm, dup)=%s (3=CONGRUENT expected), Group_compare=%s (0=IDENT expected)"
                             % (np, c, w, x and x[0], x and x[1]), case)
                    break
                if x[2] != 0:
                    ctx.fail("create", "np=%d split %s rank %d: Comm_create(comm, group of comm) gives a group that compares %s with it (0=IDENT expected)"
                             % (np, c, w, x[2]), case)
                    break
                if x[3] == 0:
                    ctx.fail("cross-comm", "np=%d split %s rank %d: a message sent on the duplicate was received on the original communicator" % (np, c, w), case)
                    break
                if x[3] == 1 and nr == 1:
                    dist["cross_comm_tests"] += 1
                half = (sz + 1) // 2
                exp = [1, nr, half] + members[:half] if nr < half else [0]
                if K.get(w) != exp:
                    ctx.fail("create", "np=%d split %s rank %d: Comm_create on the first %d ranks gives %s, expected %s" % (np, c, w, half, K.get(w), exp), case)
                    break
    ctx.cov["input_distribution"] = dist
    ctx.assumptions += ["groups contain no duplicate (MPI groups are sets); rank lists given to incl/excl are distinct and in range, range triplets "
                        "are valid and denote distinct ranks (anything else is erroneous in MPI and refused by the bindings): not exercised",
                        "Group::rank's fallback to the parent actor's pid (processes created by MPI_Comm_spawn / sampling actors) is not modelled: "
                        "ranks are top-level actors",
                        "Comm_dup, Comm_create and the absence of cross-communicator matching are checked on every generated split, not proved "
                        "(the matching model belongs to C28)"]


META = {
    "level": "proof",
    "text": "Coq theorems over groups of any size (lists without duplicate): union = first group then the new members of the second in their "
            "order (C32_union, C32_union_NoDup); intersection and difference = the members of the FIRST group that are / are not in the second, "
            "in the first group's order (C32_intersection_first_order after the repair, C32_difference_first_order); incl maps new rank i to "
            "old rank ranks[i] without duplicates (C32_incl); excl, with the binding's shortcuts, keeps the unlisted ranks in order (C32_excl); "
            "range_incl/range_excl denote first, first+stride, .. up to last for both stride signs and the loops terminate (C32_range_incl, "
            "C32_range_excl); Group_rank/translate_ranks give positions or MPI_UNDEFINED (C32_rank, C32_translate); compare is IDENT/SIMILAR/"
            "UNEQUAL exactly for equal / permuted / different member lists (C32_compare); Comm_split gives each rank the ranks of its colour, "
            "once each, sorted by key then old rank (C32_split_order). The pinned intersection is refuted (C32_intersection_pinned_refuted) "
            "and was repaired. Tied to the rebuilt library by an MPI program run under smpirun -np 1..12 whose answers (as world ranks) must "
            "equal the extracted model's.",
    "note": "Trusted: Coq kernel, extraction (ExtrOcamlBasic), the MPI harness and checks/C32.py. Modelled, not verified: the C++ functions. "
            "Checked on every run but not proved: Comm_dup and Comm_create keep the group, messages do not cross communicators (two same-tag "
            "messages on a communicator and its duplicate received in the opposite order). Not modelled: erroneous arguments, the parent-pid "
            "fallback of Group::rank, inter-communicators.",
    "technique": "Coq proof (list induction, Permutation/StronglySorted, nia for the range loops) + extracted-model correspondence under smpirun",
    "claimed": True,
}
