"""Shared by C14, C02, C01 (eng3): generator of synchronisation programs for harness/eng3_interp.cpp, encoding,
parsing of the canonical observation line."""
import os
import fw

SLEEP, LOCK, UNLOCK, ACQ, REL, CVWAIT, NOTIFY1, NOTIFYALL, BAR, PUT, GET = range(11)
EXEC, DAEMON, ONEXIT, KILL, YIELD, JOIN, SUSPEND, RESUME = range(11, 19)
ACQT = 19      # AcquireT s=A timeout=B/8 s (Semaphore::acquire_timeout); only C14's generator produces it
NAMES = ["Sleep", "Lock", "Unlock", "Acquire", "Release", "CvWait", "NotifyOne", "NotifyAll", "BarWait", "Put", "Get",
         "Exec", "Daemonize", "OnExit", "Kill", "Yield", "Join", "Suspend", "Resume", "AcquireT"]
TIMED = {SLEEP, PUT, GET, EXEC, ACQT}


def platform():
    return os.path.join(fw.REPO, "examples/platforms/small_platform.xml")


def encode(p):
    """p = dict(nm, sems=[caps], nc, bars=[counts], nmb, actors=[(host, [(code,a,b),...]),...]) -> int list"""
    out = [len(p["actors"]), p["nm"], len(p["sems"])] + list(p["sems"]) + [p["nc"], len(p["bars"])] + list(p["bars"]) + [p["nmb"]]
    for host, ops in p["actors"]:
        out += [host, len(ops)]
        for o in ops:
            out += list(o)
    return out


def pretty(p):
    return {"mutexes": p["nm"], "sems": p["sems"], "condvars": p["nc"], "barriers": p["bars"], "mailboxes": p["nmb"],
            "actors": [{"host": h, "ops": ["%s(%s)" % (NAMES[c], ",".join(str(x) for x in ((a, b) if c in (CVWAIT, PUT, ACQT) else (a,)))) for c, a, b in ops]}
                       for h, ops in p["actors"]]}


def wellformed(ops):
    """Unlock / CvWait only on a mutex the actor holds, no lock of a mutex already held (statically exact: ownership only
    changes by the actor's own ops)."""
    held = set()
    for c, a, b in ops:
        if c == LOCK:
            if a in held:      # self-relock of a non-recursive mutex: see the C04 remark in C14's assumptions
                return False
            held.add(a)
        elif c == UNLOCK:
            if a not in held:
                return False
            held.discard(a)
        elif c == CVWAIT:
            if b not in held:
                return False
    return True


def gen_prog(rng, na_max=3, nops_max=6, sleeps=True, mail=True, nblocks=None):
    """Pattern blocks (critical sections, producer/consumer on semaphores, condvar wait/notify under the mutex, barriers,
    put/get pairs, optional dyadic sleeps) dealt to actors, then a few random mutations kept only when still well-formed.
    Deadlocks, lost signals and blocked senders are legitimate outcomes and are wanted."""
    na = rng.randint(2, na_max)
    nm = rng.randint(1, 3)
    sems = [rng.choice([0, 0, 1, 1, 2]) for _ in range(rng.randint(0, 2))]
    nc = rng.choice([0, 1, 1])
    nmb = rng.randint(0, 2) if mail else 0
    bars = []
    acts = [[] for _ in range(na)]
    room = lambda a, k: len(acts[a]) + k <= nops_max
    nblocks = nblocks if nblocks is not None else rng.randint(2, 2 + 2 * na)
    for _ in range(nblocks):
        kind = rng.choice(["cs", "cs", "cs2", "sem", "pc", "cv", "bar", "mail", "mail", "sleep"])
        a = rng.randrange(na)
        if kind == "cs" and room(a, 2):
            m = rng.randrange(nm)
            inner = []
            if sleeps and rng.random() < 0.3 and room(a, 3):
                inner = [(SLEEP, rng.choice([1, 2, 4, 8]), 0)]
            acts[a] += [(LOCK, m, 0)] + inner + [(UNLOCK, m, 0)]
        elif kind == "cs2" and nm >= 2 and room(a, 4):
            m1, m2 = rng.sample(range(nm), 2)
            acts[a] += [(LOCK, m1, 0), (LOCK, m2, 0), (UNLOCK, m2, 0), (UNLOCK, m1, 0)]
        elif kind == "sem" and sems and room(a, 2):
            s = rng.randrange(len(sems))
            acts[a] += [(ACQ, s, 0), (REL, s, 0)]
        elif kind == "pc" and sems:
            s = rng.randrange(len(sems))
            b = rng.randrange(na)
            if room(a, 1) and room(b, 1) and (a != b or room(a, 2)):
                acts[a].append((REL, s, 0))
                acts[b].append((ACQ, s, 0))
        elif kind == "cv" and nc:
            m = rng.randrange(nm)
            b = rng.randrange(na)
            if a != b and room(a, 3) and room(b, 3):
                acts[a] += [(LOCK, m, 0), (CVWAIT, 0, m), (UNLOCK, m, 0)]
                acts[b] += [(LOCK, m, 0), (rng.choice([NOTIFY1, NOTIFYALL]), 0, 0), (UNLOCK, m, 0)]
        elif kind == "bar" and len(bars) < 2:
            members = [x for x in range(na) if room(x, 1) and rng.random() < 0.8]
            if len(members) >= 1:
                cnt = len(members) if rng.random() < 0.8 else max(1, len(members) + rng.choice([-1, 1]))
                for x in members:
                    acts[x].append((BAR, len(bars), 0))
                bars.append(cnt)
        elif kind == "mail" and nmb:
            b = rng.randrange(na)
            mb = rng.randrange(nmb)
            if a != b and room(a, 1) and room(b, 1):
                acts[a].append((PUT, mb, rng.randint(1, 9)))
                acts[b].append((GET, mb, 0))
        elif kind == "sleep" and sleeps and room(a, 1):
            acts[a].append((SLEEP, rng.choice([1, 2, 3, 4, 8]), 0))
    # mutations: swap two neighbours / delete one op / duplicate one op, kept when the actor stays well-formed
    for _ in range(rng.choice([0, 0, 1, 2, 3])):
        a = rng.randrange(na)
        ops = list(acts[a])
        if not ops:
            continue
        i = rng.randrange(len(ops))
        mut = rng.choice(["swap", "del", "dup"])
        if mut == "swap" and i + 1 < len(ops):
            ops[i], ops[i + 1] = ops[i + 1], ops[i]
        elif mut == "del":
            del ops[i]
        elif mut == "dup" and len(ops) < nops_max:
            ops.insert(i, ops[i])
        if wellformed(ops):
            acts[a] = ops
    for a in range(na):
        if not acts[a]:
            acts[a] = [(SLEEP, 1, 0)] if sleeps else [(LOCK, 0, 0), (UNLOCK, 0, 0)]
    return {"nm": nm, "sems": sems, "nc": nc, "bars": bars, "nmb": nmb,
            "actors": [(rng.randrange(5), ops) for ops in acts]}


def gen_prog_ext(rng, na_max=4, nops_max=7):
    """gen_prog + the remaining activity kinds of C01/C02: exec, yield, daemons, on_exit callbacks, kill, join,
    suspend/resume.  Aimed at: several daemons with on_exit callbacks still alive when the last regular actor ends, actors
    killed while blocked or while holding a mutex, coinciding dates (sleeps are multiples of 1/8 s)."""
    p = gen_prog(rng, na_max=na_max, nops_max=nops_max)
    acts = [list(ops) for _, ops in p["actors"]]
    na = len(acts)
    ins = lambda a, op: acts[a].insert(rng.randint(0, len(acts[a])), op)
    for a in range(na):
        for _ in range(rng.choice([0, 0, 1, 2])):
            ins(a, rng.choice([(EXEC, rng.choice([1, 2, 5, 10]), 0), (YIELD, 0, 0), (SLEEP, rng.choice([1, 2, 4]), 0)]))
    others = lambda a: [x for x in range(na) if x != a]
    if rng.random() < 0.4:
        a = rng.randrange(na)
        acts[a] += [(SLEEP, rng.choice([1, 2, 4, 8]), 0)] * rng.choice([0, 1]) + [(KILL, rng.choice(others(a)), 0)]
    if rng.random() < 0.3:
        a = rng.randrange(na)
        ins(a, (JOIN, rng.choice(others(a)), 0))
    if rng.random() < 0.3:
        a = rng.randrange(na)
        t = rng.choice(others(a))
        acts[a] += [(SUSPEND, t, 0), (SLEEP, rng.choice([1, 2, 4]), 0), (RESUME, t, 0)][:rng.choice([1, 3, 3])]
    daemons = [a for a in range(na) if rng.random() < 0.45]
    if len(daemons) == na:
        daemons.pop()
    for a in daemons:
        if rng.random() < 0.7:   # keep it alive until the regular actors are done
            acts[a].append(rng.choice([(SLEEP, 400, 0), (SLEEP, 800, 0)]))
        acts[a].insert(0, (DAEMON, 0, 0))
    for a in range(na):
        if a in daemons or rng.random() < 0.35:
            for k in range(rng.choice([1, 1, 2])):
                acts[a].insert(0, (ONEXIT, 10 * a + k, 0))
    p["actors"] = [(h, ops) for (h, _), ops in zip(p["actors"], acts)]
    return p


def is_timed(p):
    return any(c in TIMED for _, ops in p["actors"] for c, _, _ in ops)


def parse_obs(line):
    """-> dict(dl, end, actors=[(pc, status, [(i, r, clk)])], sems, tr=[(a,i)], ex=[(a,tag,failed,clk)]) or dict(crash=...)"""
    if not line.startswith("ok "):
        return {"crash": line}
    head, acts, sem, tr, ht, ex, gx = [x.strip() for x in line.split("|")][:7]
    extra = [x.strip() for x in line.split("|")][7:]      # hx=: handled operations merged with the timer events
    hx = [tuple(int(y) for y in x.split(".")) for f in extra if f.startswith("hx=") for x in f[3:].split(",") if x]
    h = dict(t.split("=") for t in head.split()[1:])
    actors = []
    for a in acts.split(";"):
        pc, st, log = a.split(":")
        recs = []
        for r in [x for x in log.split(",") if x]:
            ir, clk = r.split("@")
            i, res = ir.split(".")
            recs.append((int(i), int(res), clk))
        actors.append((int(pc), st, recs))
    sems = [int(x) for x in sem[len("sem="):].split(",") if x]
    trace = [tuple(int(y) for y in x.split(".")) for x in tr[len("tr="):].split(",") if x]
    handled = [tuple(int(y) for y in x.split(".")) for x in ht[len("ht="):].split(",") if x]
    exits = []
    for x in [x for x in ex[len("ex="):].split(",") if x]:
        atf, clk = x.split("@")
        a, tag, failed = atf.split(".")
        exits.append((int(a), int(tag), int(failed), clk))
    return {"dl": int(h["dl"]), "end": h["end"], "actors": actors, "sems": sems, "tr": trace, "ht": handled, "ex": exits, "gx": gx[len("gx="):], "hx": hx}


def model_obs_of_impl(o):
    """the projection compared with Ref.obs (without its two leading flags)"""
    out = []
    for pc, st, recs in o["actors"]:
        out += [pc, 1 if st != "F" else 0, len(recs)] + [r for _, r, _ in recs]
    return out + list(o["sems"])


def run_impl(exe, cases, cfg=(), env=None, prefix=(), timeout=1800):
    """cases: list of int lists -> list of observation lines"""
    cmd = list(prefix) + [exe, platform()] + ["--cfg=" + c for c in cfg]
    rc, so, se = fw.sh2(cmd, inp="\n".join(" ".join(map(str, c)) for c in cases) + "\n", timeout=timeout, env=env)
    lines = so.split("\n")
    if lines and lines[-1] == "":
        lines.pop()
    if rc != 0 or len(lines) != len(cases):
        raise fw.BuildError("eng3_interp %s: rc=%d, %d answers for %d cases: %s" % (" ".join(cfg), rc, len(lines), len(cases), se[-500:]))
    return lines
