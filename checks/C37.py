"""C37 — replaying the time-independent (TI) trace of an MPI run yields the online per-rank completion dates.

Per generated SPMD script (2..8 ranks; send/recv, isend/irecv + wait/waitall/test loops, sendrecv, barrier, bcast, reduce,
allreduce, alltoall, gather, scatter, allgather, gatherv, scatterv, allgatherv, alltoallv, reduce_scatter(_block), sleep):
  1. online run of harness/smpi_c37.c under `smpirun -trace-ti` (computation not simulated): per-rank date just before
     MPI_Finalize + the TI trace;
  2. K(encode): every trace line must be the line the extracted Coq `encode` gives for the call the script makes
     (ties TiCodec.trace/print to the PMPI tracers and TIData::print);
  3. K(decode): the extracted Coq `decode` of every real line must be `norm` of that call; and the real parsers are
     observed through the trace the *replay* writes (it re-prints every field it parsed): that second trace must be the
     `encode` of the decoded call;
  4. O: replay with the in-tree smpireplaymain; per-rank end date (date of the rank's last replayed action) must equal
     the online date within 4*1e-9*max(1,|t|)  (DESIGN 1.3).
"""
import json, math, os, re, shutil, time
import fw

NAMES = ["init", "finalize", "barrier", "send", "isend", "recv", "irecv", "wait", "test", "waitall", "bcast", "reduce",
         "allreduce", "alltoall", "gather", "allgather", "scatter", "gatherv", "allgatherv", "scatterv", "alltoallv",
         "reducescatter", "sendRecv", "sleep", "compute"]
DTS = [0, 1, 2, 5, 6]            # MPI_DOUBLE INT CHAR FLOAT BYTE (TI ids)
RDTS = [0, 1, 5]                 # datatypes MPI_SUM is defined on
DTSIZE = {0: 8, 1: 4, 2: 1, 3: 2, 4: 8, 5: 4, 6: 1}
TOL = 4e-9


# ------------------------------------------------------------------------------------------------ scripts
def gen_script(rng, big=False):
    n = rng.randint(2, 8)
    ops = []
    pending = False
    nops = rng.randint(3, 14 if big else 9)

    def size(maxbytes, dt):
        m = maxbytes // DTSIZE[dt]
        r = rng.random()
        if r < 0.12:
            return 0
        if r < 0.3:
            return rng.randint(1, 4)
        if r < 0.45:   # around the eager/rendezvous and detached-send thresholds (65536 bytes)
            return max(0, min(m, 65536 // DTSIZE[dt] + rng.randint(-2, 2)))
        return rng.randint(1, m)

    for _ in range(nops):
        k = rng.random()
        dt = rng.choice(DTS)
        if k < 0.14:
            s, d = rng.sample(range(n), 2)
            ops.append([1, s, d, rng.randint(0, 50), size(200000, dt), dt])
        elif k < 0.30:
            for _ in range(rng.randint(1, 3)):
                s, d = rng.sample(range(n), 2)
                ops.append([2, s, d, rng.randint(0, 50), size(150000, dt), dt])
            pending = True
            if rng.random() < 0.7:
                ops.append([rng.choice([3, 3, 4, 5])])
                pending = False
        elif k < 0.36:
            ops.append([6])
        elif k < 0.42:
            ops.append([7, rng.randrange(n), size(100000, dt), dt])
        elif k < 0.48:
            dt = rng.choice(RDTS)
            ops.append([8, rng.randrange(n), size(100000, dt), dt])
        elif k < 0.53:
            dt = rng.choice(RDTS)
            ops.append([9, size(100000, dt), dt])
        elif k < 0.58:
            ops.append([10, size(20000, dt), dt])
        elif k < 0.65:
            c = size(20000, dt)
            ops.append([11, rng.randrange(n), c, dt, rng.choice([0, 0, c, rng.randint(0, 7)])])
        elif k < 0.71:
            c = size(20000, dt)
            ops.append([12, rng.randrange(n), c, dt, rng.choice([0, 0, c, rng.randint(0, 7)])])
        elif k < 0.75:
            ops.append([13, size(20000, dt), dt])
        elif k < 0.79:
            ops.append([14, rng.randrange(n), dt] + [size(20000, dt) for _ in range(n)])
        elif k < 0.83:
            ops.append([15, rng.randrange(n), dt] + [size(20000, dt) for _ in range(n)])
        elif k < 0.86:
            ops.append([16, dt] + [size(20000, dt) for _ in range(n)])
        elif k < 0.89:
            ops.append([17, dt] + [size(8000, dt) for _ in range(n * n)])
        elif k < 0.92:
            dt = rng.choice(RDTS)
            ops.append([18, dt] + [size(8000, dt) for _ in range(n)])
        elif k < 0.95:
            dt = rng.choice(RDTS)
            ops.append([22, size(8000, dt), dt])
        elif k < 0.98:
            # micro-seconds: values needing more than 6 significant digits included
            ops.append([19, rng.randrange(n), rng.choice([rng.randint(1, 999), rng.randint(1000, 3000000), 1234567, 250000])])
        else:
            ops.append([21, rng.randint(1, n - 1), size(100000, dt), dt])
    if pending:
        ops.append([3])
    return {"n": n, "ops": ops}


CORPUS = [
    # a rank that makes no call at all (regression of a false alarm of this check)
    {"n": 6, "ops": [[1, 4, 1, 25, 82720, 6], [1, 5, 1, 23, 2835, 5], [2, 2, 0, 40, 13383, 5], [3]]},
    # the three witnesses of the C37_pinned_*_refuted lemmas
    {"n": 4, "ops": [[11, 2, 100, 0, 0]]},                      # gather, recvcount 0 on the non-root ranks
    {"n": 4, "ops": [[19, 1, 1234567], [6]]},                   # sleep needing 7 significant digits
    {"n": 4, "ops": [[22, 5, 0], [22, 100, 1]]},                # MPI_Reduce_scatter_block
    # zero receive counts everywhere
    {"n": 3, "ops": [[10, 0, 1], [13, 0, 0], [12, 1, 0, 6, 0], [11, 0, 0, 2, 0]]},
    # a bit of everything
    {"n": 4, "ops": [[1, 0, 1, 7, 1000, 0], [2, 1, 2, 3, 70000, 1], [2, 2, 1, 4, 10, 6], [3], [6], [7, 2, 5000, 0],
                     [8, 1, 3000, 1], [9, 2000, 0], [10, 300, 1], [11, 0, 100, 0, 100], [12, 3, 200, 1, 200],
                     [13, 50, 0], [19, 1, 250000], [17, 6] + list(range(1, 17)), [14, 1, 0, 3, 0, 2, 9],
                     [15, 2, 1, 4, 4, 0, 1], [16, 5, 1, 2, 3, 4], [18, 0, 2, 2, 0, 5], [21, 1, 70000, 0]]},
    {"n": 2, "ops": [[2, 0, 1, 5, 100000, 0], [2, 1, 0, 6, 100, 0], [5], [2, 0, 1, 1, 8192, 6], [4], [6]]},
    {"n": 8, "ops": [[2, 0, 7, 5, 20000, 0], [2, 3, 4, 5, 65536, 6], [7, 7, 65536, 6], [3], [16, 1] + [3] * 8]},
]


def rank_calls(script):
    """the calls each rank makes, as integer lists of TiCodec.call_ints; ('T', ints) = one or more identical tests"""
    n = script["n"]
    calls = [[[0]] for _ in range(n)]
    pend = [[] for _ in range(n)]
    for op in script["ops"]:
        c, a = op[0], op[1:]
        for r in range(n):
            out = calls[r]
            if c == 1:
                if r == a[0]:
                    out.append([3, a[1], a[2], a[3], a[4]])
                elif r == a[1]:
                    out.append([5, a[0], a[2], a[3], a[4]])
            elif c == 2:
                if r == a[0]:
                    out.append([4, a[1], a[2], a[3], a[4]])
                    pend[r].append((a[0], a[1], a[2]))
                elif r == a[1]:
                    out.append([6, a[0], a[2], a[3], a[4]])
                    pend[r].append((a[0], a[1], a[2]))
            elif c == 3:
                if pend[r]:
                    out.append([9, len(pend[r])])
                pend[r] = []
            elif c == 4:
                for p in pend[r]:
                    out.append([7, p[0], p[1], p[2]])
                pend[r] = []
            elif c == 5:
                if pend[r]:
                    out.append(("T", [8, pend[r][0][0], pend[r][0][1], pend[r][0][2]]))
                    for p in pend[r][1:]:
                        out.append([7, p[0], p[1], p[2]])
                pend[r] = []
            elif c == 6:
                out.append([2])
            elif c == 7:
                out.append([10, a[1], a[0], a[2]])
            elif c == 8:
                out.append([11, a[1], 0, a[0], a[2]])
            elif c == 9:
                out.append([12, a[0], 0, a[1]])
            elif c == 10:
                out.append([13, a[0], a[0], a[1], a[1]])
            elif c == 11:
                out.append([14, a[1], a[1] if r == a[0] else a[3], a[0], a[2], a[2]])
            elif c == 12:
                out.append([16, a[1] if r == a[0] else a[3], a[1], a[0], a[2], a[2]])
            elif c == 13:
                out.append([15, a[0], a[0], a[1], a[1]])
            elif c == 14:
                cn = a[2:2 + n]
                out.append([17, cn[r], n] + (cn if r == a[0] else [0] * n) + [a[0], a[1], a[1]])
            elif c == 15:
                cn = a[2:2 + n]
                out.append([19, n] + (cn if r == a[0] else [0] * n) + [cn[r], a[0], a[1], a[1]])
            elif c == 16:
                cn = a[1:1 + n]
                out.append([18, cn[r], n] + cn + [a[0], a[0]])
            elif c == 17:
                m = a[1:]
                sc = [m[r * n + j] for j in range(n)]
                rc = [m[j * n + r] for j in range(n)]
                out.append([20, sum(sc), n] + sc + [sum(rc), n] + rc + [a[0], a[0]])
            elif c == 18:
                out.append([21, n] + a[1:1 + n] + [0, a[0]])
            elif c == 19:
                if r == a[0]:
                    out.append([23, a[1]])
            elif c == 21:
                out.append([22, a[1], (r + a[0]) % n, a[1], (r - a[0] + n) % n, a[2], a[2]])
            elif c == 22:
                out.append([25, a[0], a[1]])
    for r in range(n):
        calls[r].append([1])
    return calls


def script_text(s):
    return "%d %d\n" % (s["n"], len(s["ops"])) + "".join("%d %d %s\n" % (o[0], len(o) - 1, " ".join(map(str, o[1:]))) for o in s["ops"])


# ------------------------------------------------------------------------------------------------ running
LOADERR = re.compile(r"error while loading shared libraries|file too short|cannot open shared object")


def smpirun(args, timeout=300):
    """smpirun with a retry when libsimgrid is being relinked by a concurrent build"""
    for attempt in range(4):
        rc, so, se = fw.sh2([fw.SMPIRUN] + args, timeout=timeout)
        if rc != 0 and LOADERR.search(so + se):   # cannot happen while fw holds the shared build lock; be patient anyway
            time.sleep(20)
            continue
        break
    return rc, so, se


def common(n):
    return ["-np", str(n), "-platform", fw.SMALL_PLATFORM, "--cfg=smpi/host-speed:1f", "--log=root.thres:critical",
            "--cfg=smpi/simulate-computation:no", "--cfg=smpi/display-timing:no", "--cfg=tracing/smpi/sleeping:yes"]


def read_trace(index_file):
    """-> {rank: [tokens of each line after the rank]}"""
    res = {}
    if not os.path.exists(index_file):
        return None
    for fn in open(index_file).read().split():
        if not os.path.exists(fn):
            return None
        for l in open(fn):
            t = l.split()
            if len(t) >= 2:
                res.setdefault(int(t[0]), []).append(t[1:])
    return res


def tok_matches(model_tok, text):
    tag, v = model_tok
    try:
        if tag == 0:
            return int(text) == v
        return float(text) == v / 1e6      # the harness' (double)usec / 1e6, same IEEE division
    except ValueError:
        return False


def line_matches(model, toks):
    """model = [kindcode, tag, v, tag, v, ...]; toks = [name, tok, ...]"""
    if not model or model[0] < 0 or NAMES[model[0]] != toks[0]:
        return False
    mt = list(zip(model[1::2], model[2::2]))
    return len(mt) == len(toks) - 1 and all(tok_matches(m, t) for m, t in zip(mt, toks[1:]))


def toks_to_ints(toks):
    """real line -> [kindcode, tag, value, ...] for run_c37_decode; amounts in micro-units when exact"""
    out = [NAMES.index(toks[0])]
    for t in toks[1:]:
        if re.fullmatch(r"-?\d+", t):
            out += [0, int(t)]
        else:
            u = round(float(t) * 1e6)
            if u / 1e6 != float(t):
                return None
            out += [1, u]
    return out


def run_both(ctx, prog, script, idx, work):
    """stage 1 (no model): online run + replay.  Returns None when the case could not be evaluated, else a record"""
    n = script["n"]
    d = os.path.join(work, "c%d" % idx)
    shutil.rmtree(d, ignore_errors=True)
    os.makedirs(d)
    sp = os.path.join(d, "script.txt")
    open(sp, "w").write(script_text(script))
    t1 = os.path.join(d, "t1.txt")
    case = {"script": script}
    rec = {"case": case, "n": n, "ok": True}
    rc, so, se = smpirun(common(n) + ["-trace-ti", "-trace-file", t1, prog, sp])
    online = {int(m.group(1)): float(m.group(2)) for m in re.finditer(r"^END (\d+) (\S+)$", so, flags=re.M)}
    if rc != 0 or len(online) != n:
        ctx.mismatch("online-run", "the generated program did not run to completion online (rc=%d): %s" % (rc, (so + se)[-600:]), case)
        return None
    tr1 = read_trace(t1)
    if tr1 is None or sorted(tr1) != list(range(n)):
        ctx.mismatch("online-trace", "TI trace files missing/incomplete", case)
        return None
    rec["tr1"] = tr1
    # replay (with TI tracing on: the replay re-prints what its parsers read)
    t2 = os.path.join(d, "t2.txt")
    rc, so, se = smpirun(common(n) + ["--log=smpi_replay.thres:verbose", "--log=smpi_replay.fmt:%i|%.12r|%m%n",
                                      "-trace-ti", "-trace-file", t2, "-replay", t1])
    last = {}
    for l in (so + "\n" + se).split("\n"):
        p = l.split("|")
        if len(p) >= 3 and p[0].isdigit():
            try:
                last[int(p[0]) - 1] = float(p[1])
            except ValueError:
                pass
    for r in range(n):   # init/finalize are not logged by the replayer: a rank making no other call ends at date 0
        if r not in last and all(x[0] in ("init", "finalize") for x in tr1[r]):
            last[r] = 0.0
    sample = " | ".join(" ".join(x) for r in sorted(tr1) for x in tr1[r][1:3])[:300]
    if rc != 0 or sorted(last) != list(range(n)):
        why = [l for l in (so + "\n" + se).split("\n") if re.search(r"CRITICAL|what\(\)|MPI_ERR|replay failed|Assertion|out of range", l)]
        ctx.fail("replay-aborts", "the replay of the recorded trace does not run to completion (rc=%d): %s ; trace: %s"
                 % (rc, (why[0].strip()[:300] if why else (so + se)[-300:].strip()), sample), case)
        rec["ok"] = False
    else:
        worst = max(range(n), key=lambda r: abs(last[r] - online[r]) / max(1.0, abs(online[r])))
        dev = abs(last[worst] - online[worst])
        if dev > TOL * max(1.0, abs(online[worst])):
            ctx.fail("dates-differ", "rank %d finishes at %.12f online and at %.12f in the replay of its trace (|diff| %.3g); trace: %s"
                     % (worst, online[worst], last[worst], dev, sample), case)
            rec["ok"] = False
    rec["tr2"] = read_trace(t2) if rec["ok"] else None
    shutil.rmtree(d, ignore_errors=True)
    return rec


def check_encode(ctx, rec, enc, nrm):
    """stage 2: every traced line = encode of the call the script makes.  enc/nrm: {(rank, call index): ints}"""
    n, tr1, case = rec["n"], rec["tr1"], rec["case"]
    calls = rec["calls"]
    expected_norm = {}
    for r in range(n):
        lines = tr1[r]
        j = 0
        for i, c in enumerate(calls[r]):
            m = enc[(r, i)]
            hit = False
            if isinstance(c, tuple):   # one or more identical test lines
                while j < len(lines) and line_matches(m, lines[j]):
                    expected_norm[(r, j)] = nrm[(r, i)]
                    j += 1
                    hit = True
            elif j < len(lines) and line_matches(m, lines[j]):
                expected_norm[(r, j)] = nrm[(r, i)]
                j += 1
                hit = True
            if not hit:
                got = " ".join(lines[j]) if j < len(lines) else "<end of trace>"
                ctx.mismatch("encode-vs-tracer", "rank %d: the tracer wrote '%s' where the model's encode gives %s %s for call %s"
                             % (r, got, NAMES[m[0]] if m and 0 <= m[0] < len(NAMES) else "?", m[1:], c), case)
                return None
        if j != len(lines):
            ctx.mismatch("encode-vs-tracer", "rank %d: unexpected extra trace line '%s'" % (r, " ".join(lines[j])), case)
            return None
    return expected_norm


def check_reprint(ctx, rec):
    """stage 3b: the real parsers, observed through the trace written by the replay"""
    tr1, tr2, case = rec["tr1"], rec["tr2"], rec["case"]
    if tr2 is None:
        return True
    for r in range(rec["n"]):
        l1, l2 = tr1[r], tr2.get(r, [])
        if len(l1) != len(l2):
            ctx.mismatch("parser-reprint", "rank %d: %d lines traced online, %d by the replay" % (r, len(l1), len(l2)), case)
            return False
        for a, b in zip(l1, l2):
            if a[0] == "sendRecv" and b[0] == "sendRecv" and len(a) == len(b):   # the replay prints actor ids there
                a = a[:2] + ["*"] + a[3:4] + ["*"] + a[5:]
                b = b[:2] + ["*"] + b[3:4] + ["*"] + b[5:]
            if a[0] != b[0] or len(a) != len(b) or any(x != y and not same_number(x, y) for x, y in zip(a[1:], b[1:])):
                ctx.mismatch("parser-reprint", "rank %d: line '%s' is re-printed by the replay as '%s': its parser read other values"
                             % (r, " ".join(a), " ".join(b)), case)
                return False
    return True


def same_number(x, y):
    try:
        return float(x) == float(y)
    except ValueError:
        return False


def kinds_of(script):
    return sorted(set(o[0] for o in script["ops"]))


def run(ctx):
    ctx.simgrid(["simgrid", "smpimain", "smpireplaymain"])
    ctx.prove(extra_trusted=["binary64 formatting: a double printed with 17 significant digits is read back unchanged (checked on every sleep line of every run, not proved)",
                             "python mirror (rank_calls) of which MPI call each rank of the generated script makes"])
    prog = fw.build_smpi_prog("smpi_c37")
    work = os.path.join(fw.B, "run", "c37_%d" % os.getpid())
    os.makedirs(work, exist_ok=True)
    ctx.cov["rule"] = ("one case = one generated SPMD script run online and replayed; non-trivial = the script contains at least one "
                       "communication call and all three stages (tracer lines = encode, decode of the lines, replay dates) were evaluated; "
                       "distinct = distinct scripts")
    if ctx.replay:
        scripts = [json.load(open(ctx.replay))["case"]["script"]]
    else:
        scripts = list(CORPUS) + [gen_script(ctx.rng, big=not ctx.quick) for _ in range(ctx.n(30, 300))]
    dist = {}
    recs = [run_both(ctx, prog, s, idx, work) for idx, s in enumerate(scripts)]
    live = [r for r in recs if r is not None]
    # stage 2: one batched call of the extracted encode / norm for all calls of all cases
    keys, enc_in, nrm_in = [], [], []
    for ci, r in enumerate(live):
        r["calls"] = rank_calls(r["case"]["script"])
        for rk in range(r["n"]):
            for i, c in enumerate(r["calls"][rk]):
                ints = c[1] if isinstance(c, tuple) else c
                keys.append((ci, rk, i))
                enc_in.append([1, r["n"]] + ints)
                nrm_in.append([r["n"]] + ints)
    if live:
        enc_out = fw.run_model("c37", "run_c37_encode", enc_in)
        nrm_out = fw.run_model("c37", "run_c37_norm", nrm_in)
        per = [({}, {}) for _ in live]
        for (ci, rk, i), e, m in zip(keys, enc_out, nrm_out):
            per[ci][0][(rk, i)] = e
            per[ci][1][(rk, i)] = m
        dkeys, dec_in = [], []
        for ci, r in enumerate(live):
            r["expected_norm"] = check_encode(ctx, r, per[ci][0], per[ci][1])
            if r["expected_norm"] is None:
                r["ok"] = False
                continue
            for (rk, j) in sorted(r["expected_norm"]):
                ti = toks_to_ints(r["tr1"][rk][j])
                dkeys.append((ci, rk, j))
                dec_in.append([6, r["n"]] + (ti if ti is not None else [99]))
        # stage 3a: batched decode of the real lines
        if dec_in:
            dec_out = fw.run_model("c37", "run_c37_decode", dec_in)
            reported = set()
            for (ci, rk, j), dcd in zip(dkeys, dec_out):
                r = live[ci]
                if dcd != r["expected_norm"][(rk, j)] and ci not in reported:
                    reported.add(ci)
                    r["ok"] = False
                    ctx.mismatch("decode-roundtrip", "rank %d line '%s': model decode gives %s, the traced call normalises to %s"
                                 % (rk, " ".join(r["tr1"][rk][j]), dcd, r["expected_norm"][(rk, j)]), r["case"])
        for r in live:
            if r["expected_norm"] is not None and not check_reprint(ctx, r):
                r["ok"] = False
    for idx, (s, r) in enumerate(zip(scripts, recs)):
        for k in kinds_of(s):
            dist[k] = dist.get(k, 0) + 1
        nontriv = r is not None and any(o[0] != 19 for o in s["ops"])
        ctx.case(json.dumps(s, sort_keys=True), nontriv, {"script": s, "verdict": r and r["ok"]} if idx in (1, 5, len(CORPUS)) else None)
    shutil.rmtree(work, ignore_errors=True)
    ctx.cov["input_distribution"] = {"scripts": len(scripts), "ranks": "2..8", "ops per script": "3..14",
                                     "scripts containing opcode (1 send,2 isend/irecv,3 waitall,4 wait,5 test loop,6 barrier,7 bcast,8 reduce,"
                                     "9 allreduce,10 alltoall,11 gather,12 scatter,13 allgather,14 gatherv,15 scatterv,16 allgatherv,17 alltoallv,"
                                     "18 reduce_scatter,19 usleep,21 sendrecv,22 reduce_scatter_block)": dist,
                                     "sizes": "0, 1..4, around 65536 bytes, uniform up to 200 kB (p2p) / 20 k elements (collectives)"}
    ctx.assumptions += ["smpi/simulate-computation:no, tracing/smpi/sleeping:yes (plain -trace-ti does not record sleeps at all), small_platform.xml, default collective selector",
                        "predefined datatypes only (their TI id is a decimal string); MPI_COMM_WORLD only; no MPI_ANY_SOURCE, no waitany/ssend/scan (no replay action for them)",
                        "the equality of dates is established by the runs (K/O), the theorems cover the line codec"]


META = {
    "level": "proof",
    "text": "Coq theorems over all calls/argument values/rank counts >= 2: the replay parsers read back exactly the call each TI trace line was "
            "printed from (C37_roundtrip: decode (encode c) = Some (norm c)), hence the line grammar is unambiguous (C37_encode_injective); the pinned "
            "code did so only under a side condition (C37_roundtrip_pinned_partial) and the three refuted cases (gather with recvcount 0 off root, sleep "
            "amounts beyond 6 digits, MPI_Reduce_scatter_block) were reproduced on the real code and repaired. The model is tied on every run to the PMPI "
            "tracers/TIData::print (trace lines of generated programs = extracted encode) and to the replay parsers (decode of the real lines; fields "
            "re-printed by the replay). The equality of per-rank completion dates is decided by online-vs-replay runs of generated 2..8-rank programs.",
    "note": "Partial by nature: no theorem about smpi_replay's timing injection; dates are compared by the correspondence runs with the DESIGN 1.3 "
            "tolerance. Trusted: Coq kernel, extraction, the interpreter harness/smpi_c37.c, the python mirror of which call each rank makes, binary64 "
            "printing with 17 digits round-trips. Not modelled: derived datatypes, communicators other than WORLD, location/comm_* actions, allgatherv "
            "lines with displacements, flop amounts of reduce as non-integers.",
    "technique": "Coq proof (codec round trip, list induction) + extracted-model differential correspondence + online/replay date comparison",
    "claimed": True,
}
