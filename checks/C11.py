"""C11 — actor lifecycle: join, on_exit, daemons, kill time, suspend/resume (machinery shared with C03, see checks/C03.py)
and auto-restart after host reboots (own machinery below: Coq model SGV.Kernel.Restart, harness/c11_restart_drv.cpp).
K (restart): per incarnation (pid) creation (victim, host, date), on_exit callbacks run (tag, date) in order and termination
   date of the extracted model vs. the rebuilt library, compared exactly (dates are multiples of 1/4 s).
O (restart): evaluated on the implementation's log alone: every (incarnation, registered callback) pair runs exactly once,
   in that incarnation, most recently registered first, at the date of its termination; a restarted incarnation inherits
   exactly the callbacks registered on the actor whose set_auto_restart made the boot record; one new incarnation per
   boot record at every effective reboot."""
import json
from collections import Counter
from fractions import Fraction
import C03
import fw

OFF, ON, KILLV, NOP = 1, 2, 3, 0


# ------------------------------------------------------------------------------------------------- restart: cases
def r_encode(c):
    out = [c["nh"], len(c["victims"])]
    for v in c["victims"]:
        out += [v["host"], v["mode"], v["kill"], len(v["pre"])] + list(v["pre"]) + [len(v["post"])] + list(v["post"]) + [len(v["beh"])]
        for b in v["beh"]:
            out += [1 if b["auto"] else 0, len(b["start"])] + list(b["start"]) + [len(b["late"])] + list(b["late"]) + [b["life"]]
    out.append(len(c["steps"]))
    for s in c["steps"]:
        out += [s[0], s[1]]
    return out


def r_gen(rng):
    nh = rng.choice([1, 1, 2])
    nv = rng.choice([1, 1, 2, 2, 3])
    ns = rng.randint(2, 9)
    dup = rng.random() < 0.1
    victims = []
    for v in range(1, nv + 1):
        mode = rng.choice([1, 1, 1, 1, 1, 0, 0, 0, 2, 3])
        cnt = [0]

        def tags(n, base):
            res = []
            for _ in range(n):
                cnt[0] += 1
                res.append(7 if dup and rng.random() < 0.5 else 100 * v + base + cnt[0])
            return res
        beh = []
        for i in range(rng.randint(1, 4)):
            beh.append({"auto": rng.random() < (0.5 if mode in (0, 3) and i == 0 else 0.15),
                        "start": tags(rng.choice([0, 1, 1, 2]), 10 * (i + 1)),
                        "late": tags(rng.choice([0, 0, 1, 2]), 10 * (i + 1)),
                        "life": rng.choice([0, 1, 2, ns + 2, ns + 2, ns + 2, rng.randint(0, ns + 2)])})
        victims.append({"host": rng.randint(1, nh), "mode": mode,
                        "kill": 4 * rng.randint(0, ns + 1) + 3 if rng.random() < 0.2 else 0,
                        "pre": tags(rng.choice([0, 1, 1, 2]), 0), "post": tags(rng.choice([0, 0, 1, 2]), 0), "beh": beh})
    steps, on = [], {h: True for h in range(1, nh + 1)}
    for _ in range(ns):
        r = rng.random()
        h = rng.randint(1, nh)
        if r < 0.08:
            steps.append([KILLV, rng.randint(1, nv)])
        elif r < 0.14:
            steps.append([NOP, 0])
        elif r < 0.22:                       # whatever the state (turning on a host that is on / off one that is off: no-op)
            steps.append([rng.choice([OFF, ON]), h])
            on[h] = steps[-1][0] == ON
        else:
            steps.append([OFF if on[h] else ON, h])
            on[h] = not on[h]
    return {"restart": 1, "nh": nh, "victims": victims, "steps": steps}


def _v(host, mode, pre, post, beh, kill=0):
    return {"host": host, "mode": mode, "kill": kill, "pre": pre, "post": post,
            "beh": [{"auto": a, "start": s, "late": l, "life": f} for a, s, l, f in beh]}


R_CORPUS = [
    # three reboots; every restarted incarnation registers callbacks of its own (seeded change C11-a: shared instead of copied)
    {"restart": 1, "nh": 1, "victims": [_v(1, 1, [100], [101], [(False, [], [], 9), (False, [11], [12], 9), (False, [21], [], 9), (False, [31], [], 9)])],
     "steps": [[OFF, 1], [ON, 1], [OFF, 1], [ON, 1], [OFF, 1], [ON, 1], [OFF, 1]]},
    # the actor makes itself auto-restart; late registrations of the first incarnation are inherited as well (shared record)
    {"restart": 1, "nh": 1, "victims": [_v(1, 0, [100], [], [(True, [10], [11], 9), (False, [20], [21], 0), (False, [], [30], 9)])],
     "steps": [[OFF, 1], [ON, 1], [NOP, 0], [ON, 1], [OFF, 1], [ON, 1], [KILLV, 1], [OFF, 1], [ON, 1]]},
    # deployment-style records: auto-restart one (no inherited list) and a plain one (dropped at the first turn_off)
    {"restart": 1, "nh": 2, "victims": [_v(1, 2, [100], [], [(False, [10], [], 9), (True, [20], [], 9)]), _v(1, 3, [200], [], [(False, [210], [], 9)]),
                                        _v(2, 1, [300], [301], [(False, [], [], 1), (False, [320], [], 9)])],
     "steps": [[OFF, 1], [ON, 1], [OFF, 2], [ON, 2], [OFF, 1], [ON, 1], [OFF, 2], [ON, 2]]},
    # kill time recorded with the boot record: every incarnation created before it dies at that date, later ones have none
    {"restart": 1, "nh": 1, "victims": [_v(1, 1, [100], [], [(False, [10], [], 9), (False, [20], [], 9)], kill=27)],
     "steps": [[OFF, 1], [ON, 1], [OFF, 1], [ON, 1], [NOP, 0], [NOP, 0], [OFF, 1], [ON, 1], [NOP, 0]]},
    # an auto-restart actor that returned before the reboot is restarted too; two victims on one host
    {"restart": 1, "nh": 1, "victims": [_v(1, 1, [100], [], [(False, [], [], 0), (False, [120], [121], 0)]), _v(1, 1, [], [200], [(False, [210], [], 9)])],
     "steps": [[NOP, 0], [OFF, 1], [ON, 1], [NOP, 0], [OFF, 1], [ON, 1], [ON, 1], [OFF, 1]]},
]


# ------------------------------------------------------------------------------------------------- restart: observations
def r_ticks(x):
    f = Fraction(float(x)) * 4
    return int(f) if f.denominator == 1 else f


def r_parse_impl(line):
    obs = {"create": {}, "order": [], "reg": {}, "auto": {}, "exits": {}, "term": {}, "end": None, "crash": None}
    for ent in line.split("|"):
        t = ent.split()
        if not t:
            continue
        if "CRASH" in t:
            obs["crash"] = " ".join(t[t.index("CRASH"):])
            t = t[:t.index("CRASH")]
            if not t:
                continue
        if t[0] == "C":
            obs["create"][int(t[1])] = (int(t[2]), int(t[3]), r_ticks(t[4]))
            obs["order"].append(int(t[1]))
        elif t[0] == "G":
            obs["reg"].setdefault(int(t[1]), []).append((int(t[2]), r_ticks(t[3])))
        elif t[0] == "A":
            obs["auto"].setdefault(int(t[1]), r_ticks(t[2]))
        elif t[0] == "X":
            obs["exits"].setdefault(int(t[1]), []).append((int(t[2]), r_ticks(t[3])))
        elif t[0] == "T":
            obs["term"].setdefault(int(t[1]), []).append(r_ticks(t[2]))
        elif t[0] == "E":
            obs["end"] = r_ticks(t[1])
    return obs


def r_parse_model(m):
    obs = {"create": {}, "exits": {}, "term": {}}
    i = 0
    while i < len(m):
        if m[i] == 1:
            obs["create"][m[i + 1]] = (m[i + 2], m[i + 3], m[i + 4])
            i += 5
        elif m[i] == 2:
            obs["exits"].setdefault(m[i + 1], []).append((m[i + 2], m[i + 3]))
            i += 4
        else:
            obs["term"].setdefault(m[i + 1], []).append(m[i + 2])
            i += 3
    return obs


# ------------------------------------------------------------------------------------------------- restart: oracle
def r_oracle(c, obs):
    """The property text on an implementation log. Returns [(signature, explanation)]."""
    if obs["crash"]:
        return [("crash", "the simulation died: %s" % obs["crash"])]
    bad = []
    nv = len(c["victims"])
    incs = {v: [p for p in obs["order"] if obs["create"][p][0] == v] for v in range(1, nv + 1)}
    origin = {}
    for v in range(1, nv + 1):
        mode = c["victims"][v - 1]["mode"]
        # the boot record shares the list of the actor whose set_auto_restart(true) created it: the first incarnation when it
        # was not auto-restart already (records of the deployment have no list; restarted incarnations are born auto-restart)
        first = incs[v][0] if incs[v] else None
        origin[v] = first if mode != 2 and first is not None and first in obs["auto"] else None
    for p in obs["order"]:
        v = obs["create"][p][0]
        ts = obs["term"].get(p, [])
        if len(ts) != 1:
            bad.append(("termination-count", "actor %d: %d termination signals" % (p, len(ts))))
            continue
        own = [t for t, _ in obs["reg"].get(p, [])]
        o = origin[v]
        inherited = [t for t, _ in obs["reg"].get(o, [])] if o is not None and p != o else []
        want = (inherited + own)[::-1]
        got = [t for t, _ in obs["exits"].get(p, [])]
        if Counter(got) != Counter(want):
            extra, missing = Counter(got) - Counter(want), Counter(want) - Counter(got)
            bad.append(("on-exit-restart-not-once", "incarnation pid %d of victim %d (callbacks inherited from the boot record %s, registered on it %s): "
                        "callbacks that ran at its end %s; ran without being registered on it / more than once: %s; never ran: %s"
                        % (p, v, inherited, own, got, sorted(extra.elements()), sorted(missing.elements()))))
        elif got != want:
            bad.append(("on-exit-restart-order", "incarnation pid %d of victim %d: callbacks ran as %s, reverse registration order is %s" % (p, v, got, want)))
        kt = c["victims"][v - 1]["kill"]
        if kt > 0 and obs["create"][p][2] < kt < ts[0]:      # the kill time travels with the boot record
            bad.append(("restart-kill-time-late", "incarnation pid %d of victim %d created at %s with kill time %s terminates at %s" % (p, v, obs["create"][p][2], kt, ts[0])))
        if any(d != ts[0] for _, d in obs["exits"].get(p, [])):
            bad.append(("on-exit-restart-date", "incarnation pid %d: callbacks at %s, termination at %s" % (p, obs["exits"][p], ts[0])))
    for p in obs["exits"]:
        if p not in obs["create"]:
            bad.append(("on-exit-restart-not-once", "callbacks %s ran in actor %d which is no incarnation of a victim" % (obs["exits"][p], p)))
    # one new incarnation per boot record at every effective reboot
    on = {h: True for h in range(1, c["nh"] + 1)}
    for j, (code, h) in enumerate(c["steps"]):
        d = 4 * (j + 1)
        if code == OFF and h in on:
            on[h] = False
        elif code == ON and h in on and not on[h]:
            on[h] = True
            for v in range(1, nv + 1):
                sp = c["victims"][v - 1]
                if sp["host"] != h:
                    continue
                rec = sp["mode"] == 2 or (origin[v] is not None and obs["auto"][origin[v]] < d)
                born = [p for p in incs[v] if obs["create"][p][2] == d]
                if len(born) != (1 if rec else 0):
                    bad.append(("restart-count", "host %d rebooted at %s: victim %d (%s) has %d new incarnation(s)" % (h, d, v, "auto-restart" if rec else "not auto-restart", len(born))))
    return bad


def run_restart(ctx, nq, nt):
    drv = fw.build_harness("c11_restart_drv", ["-std=gnu++20"])
    cases = list(R_CORPUS) + [r_gen(ctx.rng) for _ in range(ctx.n(nq, nt))]
    if ctx.replay:
        cases = [json.load(open(ctx.replay))["case"]]
    enc = [r_encode(c) for c in cases]
    model = fw.run_model("c11", "run_c11_restart", enc)
    rc, impl, err = fw.run_lines(drv, [], [" ".join(map(str, e)) for e in enc], timeout=3000)
    if rc != 0 or len(impl) != len(cases):
        raise fw.BuildError("c11_restart_drv ended with rc=%d after %d/%d cases: %s" % (rc, len(impl), len(cases), err[-300:]))
    dist = {"cases": len(cases), "incarnations": 0, "restarted_incarnations": 0, "restarted_with_own_callbacks": 0, "callbacks_run": 0, "modes": {}}
    for c, m, il in zip(cases, model, impl):
        mo, io = r_parse_model(m), r_parse_impl(il)
        for v in c["victims"]:
            dist["modes"][v["mode"]] = dist["modes"].get(v["mode"], 0) + 1
        restarted = [p for p, (v, _, d) in io["create"].items() if d > 0]
        dist["incarnations"] += len(io["create"])
        dist["restarted_incarnations"] += len(restarted)
        dist["restarted_with_own_callbacks"] += sum(1 for p in restarted if io["reg"].get(p))
        dist["callbacks_run"] += sum(len(x) for x in io["exits"].values())
        nontrivial = bool(restarted)
        ctx.case(("restart", str(r_encode(c))), nontrivial, {"case": c, "impl": il[:300]} if nontrivial and len(restarted) > 1 else None)
        verdict = r_oracle(c, io)
        for sig, what in verdict:
            ctx.fail(sig, what + " | case " + json.dumps(c), c)
        ctl = {p for p in io["term"] if p not in io["create"]}
        same = (not io["crash"] and {p: x for p, x in mo["create"].items() if x[0] != 0} == io["create"]
                and mo["exits"] == io["exits"] and {p: t for p, t in mo["term"].items() if mo["create"].get(p, (0,))[0] != 0} == {p: t for p, t in io["term"].items() if p not in ctl})
        if not same and not verdict:
            ctx.mismatch("correspondence SGV.Kernel.Restart.run_c11_restart vs c11_restart_drv",
                         "model create %s exits %s term %s\nimpl  create %s exits %s term %s" % (mo["create"], mo["exits"], mo["term"], io["create"], io["exits"], io["term"]), c)
    ctx.cov["input_distribution_restart"] = dist
    ctx.assumptions += ["restart family: tick 1/4 s; the controller acts at whole seconds, victims register callbacks at their start and 1/4 s later, "
                        "return at x.5 s, kill times at x.75 s: no two kinds of events share a date (their order inside one date is the model's: "
                        "host actor list order, pid order)",
                        "restart family: on_exit is never called on a dead actor, no actor is created on a host that is off, set_host is not used, "
                        "the controller's host is never turned off; daemon flag and properties of boot records are not modelled"]


def run(ctx):
    is_restart = False
    if ctx.replay:
        is_restart = isinstance(json.load(open(ctx.replay)).get("case"), dict) and "restart" in json.load(open(ctx.replay))["case"]
    if not is_restart:
        C03.run_family(ctx, "C11", ["life", "life", "life", "wait"], 500, 12000,
                       ["dynamic actor creation is not modelled; auto-restart after a host reboot is modelled separately (SGV.Kernel.Restart)"])
    else:
        ctx.simgrid(["simgrid"])
        ctx.prove()
    if is_restart or not ctx.replay:
        run_restart(ctx, 300, 2500)
        ctx.cov["rule"] = ctx.cov.get("rule", "") + (" | restart family: generated reboot scenarios (1-2 hosts, 1-3 victims of 4 kinds, <= 9 controller "
                                                     "steps off/on/kill/nop, per-incarnation callbacks, lifetimes, kill times); non-trivial = at least one "
                                                     "incarnation was created by a reboot")


META = {
    "level": "proof",
    "text": "Coq theorems about the engine model shared with C03: whatever the reason an actor ends for, its on_exit callbacks run exactly once "
            "each in reverse registration order at the date of the end, followed by the termination signal, and a dead actor keeps no callback, "
            "kill timer or daemon flag (C11_on_exit_once_reverse, C11_dead_is_clean); a scheduled suspended actor executes and observes nothing "
            "until resume (C11_suspended_no_progress); kill times and join timeouts are never jumped over by the clock "
            "(C11_kill_time_not_jumped_over); observations of every run are time-ordered (C11_log_ordered). Auto-restart after host reboots "
            "(model SGV.Kernel.Restart of HostImpl::turn_off/turn_on, ProcessArg, ActorImpl::create(ProcessArg*), set_auto_restart, with the "
            "on_exit vectors as an explicit heap so that sharing is expressible), for every history of kernel events and any number of reboots: "
            "the callbacks observed in an incarnation are exactly the content of its own vector, each once, most recent first, all at the date "
            "of its end, nothing before its end and nothing in any other incarnation (C11_restart, C11_restart_nothing_before_creation); that "
            "vector changes only by a registration on that very incarnation while it lives (C11_restart_callbacks_private); a re-created actor "
            "starts with a copy of the recorded vector, the recorded code and host, auto-restart again (C11_restart_recreates_recorded); the "
            "record shares the vector of the actor that called set_auto_restart and living actors never share (C11_restart_record, "
            "C11_restart_no_sharing_between_actors); the share-instead-of-copy variant of create(ProcessArg*) is refuted "
            "(C11_restart_share_variant_refuted). join = min(death, t0+t), daemon sweep, kill-time exactness, frozen execs of suspended actors, "
            "and the reboot scenarios (which incarnations exist, what runs at their end, when) are tied to the rebuilt library by exact "
            "per-actor log comparison of generated programs and judged by an oracle on every implementation log.",
    "note": "on_exit/suspension/time/restart theorems are proved for all states, runs or event histories; join, daemon sweep and kill-time "
            "exactness are checked by the correspondence and the oracle only (no end-to-end Coq theorem). The restart model is untimed (dates are "
            "inputs of the history; the scenario compiler SGV.Kernel.Restart.history decides when events happen and is tied by the "
            "correspondence only). Callbacks registered on the actor that called set_auto_restart are inherited by every restarted incarnation "
            "(the record shares its vector: behaviour of the code, shown by teshsuite/s4u/actor-autorestart), callbacks registered on a "
            "restarted incarnation are not. Not modelled: dynamic creation, comm suspension, daemon flag/properties/restart count of boot "
            "records, set_host. Fixed defect e6bd85acee (suspend of an actor owning a terminated exec crashed). Known finding "
            "resume-reschedules-running-actor (C11_resume_race_witness): the model stops at the race, those cases are judged by the oracle.",
    "technique": C03.META["technique"],
    "claimed": True,
}
