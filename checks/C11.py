"""C11 — actor lifecycle: join, on_exit, daemons, kill time, suspend/resume. Machinery shared with C03 (see checks/C03.py)."""
import C03


def run(ctx):
    C03.run_family(ctx, "C11", ["life", "life", "life", "wait"], 500, 12000,
                   ["auto-restart after a host reboot and dynamic actor creation are not modelled"])


META = {
    "level": "proof",
    "text": "Coq theorems about the engine model shared with C03: whatever the reason an actor ends for, its on_exit callbacks run exactly once "
            "each in reverse registration order at the date of the end, followed by the termination signal, and a dead actor keeps no callback, "
            "kill timer or daemon flag (C11_on_exit_once_reverse, C11_dead_is_clean); a scheduled suspended actor executes and observes nothing "
            "until resume (C11_suspended_no_progress); kill times and join timeouts are never jumped over by the clock "
            "(C11_kill_time_not_jumped_over); observations of every run are time-ordered (C11_log_ordered). join = min(death, t0+t), daemon "
            "sweep when the last regular actor ends, kill-time exactness and frozen execs of suspended actors are tied to the rebuilt library "
            "by exact per-actor log comparison of generated programs and judged by an oracle on every implementation log.",
    "note": "on_exit/suspension/time theorems are proved for all states or all runs; join, daemon sweep and kill-time exactness are checked by "
            "the correspondence and the oracle only (no end-to-end Coq theorem). Not modelled: auto-restart after reboot, host failure, dynamic "
            "creation, comm suspension. Fixed defect e6bd85acee (suspend of an actor owning a terminated exec crashed). Known finding "
            "resume-reschedules-running-actor (C11_resume_race_witness): the model stops at the race, those cases are judged by the oracle.",
    "technique": C03.META["technique"],
    "claimed": True,
}
