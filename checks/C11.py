"""C11 — actor lifecycle: join, on_exit, daemons, kill time, suspend/resume. Machinery shared with C03 (see checks/C03.py)."""
import C03


def run(ctx):
    C03.run_family(ctx, "C11", ["life", "life", "life", "wait"], 500, 12000,
                   ["auto-restart after a host reboot and dynamic actor creation are not modelled"])


META = {"level": "proof", "text": "", "note": "", "technique": C03.META["technique"], "claimed": False}
