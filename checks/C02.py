"""C02 — the outcome does not depend on the context factory, on contexts/nthreads or on contexts/synchro.

O = equality of the canonical observation of harness/eng3_interp (per actor: completed operations with results and
    simulated dates, final status; deadlock report; final clock; semaphore values; on_exit callbacks per actor with dates)
    between the reference configuration (thread, 1 worker) and each of factory {thread,raw,boost} x nthreads {1,2,4} x
    synchro {futex,posix,busy_wait}.  With one worker the global order of operation starts and of on_exit callbacks is
    compared as well (under parallel workers that order is the interleaving of user code itself, not an outcome).
The Coq part (Kernel/Sched.v) proves the scheduling logic: the state after a sub-round / a whole run is the same for every
admissible execution order of the user code of the runnable actors."""
import json
import fw
import eng3_common as E

FACTORIES = ["thread", "raw", "boost"]
NTHREADS = [1, 2, 4]
SYNCHROS = ["futex", "posix", "busy_wait"]


def configs(ctx):
    allc = [(f, n, s) for f in FACTORIES for n in NTHREADS for s in SYNCHROS]
    return allc


def canon(line, serial):
    """what is compared: everything for serial runs; without the global start order / global on_exit order otherwise"""
    if not line.startswith("ok "):
        return line
    parts = [x.strip() for x in line.split("|")]
    return " | ".join(parts if serial else parts[:3] + parts[4:6])   # drop tr (and gx) under parallel workers; ht is kept


def run(ctx):
    ctx.simgrid(["simgrid"])
    ctx.prove()
    exe = fw.build_harness("eng3_interp")
    import C14
    progs = list(C14.CORPUS)
    cfgs = configs(ctx)
    if ctx.replay:
        rp = json.load(open(ctx.replay))["case"]
        progs = [rp["prog"]]
        progs[0]["actors"] = [(h, [tuple(o) for o in ops]) for h, ops in progs[0]["actors"]]
        if rp.get("config"):
            cfgs = [tuple(rp["config"])]
    else:
        for i in range(ctx.n(25, 250)):
            progs.append(E.gen_prog_ext(ctx.rng, na_max=5, nops_max=8) if ctx.rng.random() < 0.6 else E.gen_prog(ctx.rng, na_max=5, nops_max=10))
    enc = [E.encode(p) for p in progs]
    ctx.cov["rule"] = ("generated S4U programs (2-5 actors; mutex/semaphore/condvar/barrier/mailbox patterns, sleeps, execs, yields, daemons, "
                       "on_exit, kill, join, suspend/resume) x 27 configurations; non-trivial = the reference run advances the clock or "
                       "ends in a deadlock; distinct = distinct programs")
    ref = E.run_impl(exe, enc, cfg=["contexts/factory:thread", "contexts/nthreads:1"])
    dist = {"programs": len(progs), "configurations": len(cfgs), "runs": 0, "deadlocks_ref": 0, "crashes_ref": 0,
            "with_daemons": sum(any(c == E.DAEMON for _, ops in p["actors"] for c, _, _ in ops) for p in progs),
            "with_kill": sum(any(c == E.KILL for _, ops in p["actors"] for c, _, _ in ops) for p in progs)}
    for p, l in zip(progs, ref):
        o = E.parse_obs(l)
        if "crash" in o:
            dist["crashes_ref"] += 1
            ctx.notes.append("reference configuration: %s on %s" % (o["crash"], json.dumps(E.pretty(p))))
        else:
            dist["deadlocks_ref"] += o["dl"]
        nontriv = "crash" not in o and (o["dl"] == 1 or float(o["end"]) > 0)
        ctx.case(json.dumps(p), nontriv, {"prog": E.pretty(p), "reference": l[:300]} if nontriv else None)
    for (f, n, s) in cfgs:
        cfg = ["contexts/factory:" + f, "contexts/nthreads:%d" % n, "contexts/synchro:" + s]
        lines = E.run_impl(exe, enc, cfg=cfg)
        for p, l, r in zip(progs, lines, ref):
            dist["runs"] += 1
            a, b = canon(l, n == 1), canon(r, n == 1)
            if not l.startswith("ok ") and not r.startswith("ok "):
                # the program makes the simulator abort under the reference configuration too (a defect of another
                # property: e.g. suspend/resume of an actor blocked on a synchro): how it dies (signal, time-out) is not
                # an observable result of the simulation and is not compared
                dist["both_abort"] = dist.get("both_abort", 0) + 1
                continue
            if a != b:
                kind = "crash" if not l.startswith("ok ") else ("deadlock-report" if l.split("|")[0].split()[1] != r.split("|")[0].split()[1] else "log")
                ctx.fail("config-dependent-%s" % kind,
                         "factory=%s nthreads=%d synchro=%s gives\n   %s\nthe reference (thread, 1 worker) gives\n   %s\nprogram %s"
                         % (f, n, s, a[:600], b[:600], E.pretty(p)), {"prog": p, "config": [f, n, s]})
    ctx.cov["input_distribution"] = dist
    ctx.assumptions += ["actors share no unsynchronised memory: the interpreter's actors write only their own log; the global order of "
                        "operation starts is compared only with one worker thread",
                        "user code of an actor between two simcalls is a deterministic function of its own local state (Sched.micro)"]
    ctx.cov["trusted_base"] = ctx.cov.get("trusted_base", []) + [
        "NOT modelled (runtime, outside any Gallina model): the assembly context switch of ContextRaw, Boost.Context, pthread/futex "
        "synchronisation of Parmap workers, data races in user code; they are only exercised by the 27-configuration runs"]


META = {
    "level": "proof",
    "text": "Coq (Kernel/Sched.v, arbitrary user code `micro` and kernel handler `handle`): every admissible execution of the user phase of a "
            "sub-round - any order, any assignment to Parmap workers, any interleaving of their micro-steps - leaves all actors in the same local "
            "state (C02_user_phase_confluent, C02_user_phase_perm); with simcalls handled by maestro in list order the sub-round and whole runs are "
            "schedule independent (C02_subround_sched_indep, C02_run_sched_indep). Tie: every generated program is run on the rebuilt simulator "
            "under thread/raw/boost x nthreads 1/2/4 x synchro futex/posix/busy_wait and the canonical logs must be identical.",
    "note": "The theorem is about the scheduling logic of EngineImpl::run/run_all_actors under the property's hypothesis (actor-local user code). "
            "Context-switch assembly, Boost.Context, futexes and thread creation are not modelled: they are covered only by the differential runs.",
    "technique": "Coq proof (commutation of steps on disjoint components, induction on sub-rounds) + 27-configuration differential runs of a generic S4U interpreter",
    "claimed": True,
}
