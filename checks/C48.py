"""C48 — configuration flags parse and validate values.
T: gen/cfg.py lists every item and alias the rebuilt library registers (help()/show_aliases() through harness/xbt1_config) into
   Gen/CfgFlags.v; C48_registered_names_resolve is re-checked against it.
K/O: (lib) every registered item x valid and invalid texts of its type through set_as_string / set_parse("name:value"), value read
   back with get_value<T>, judged by the extracted parser model: unparsable => exception and value unchanged, parsable => stored
   value equals the parsed one (or the item's own validation callback refused it);
   (ops) operation sequences (set_as_string, set_parse with several tokens, set_value<T>) on a test table declared by the driver
   (4 types, aliases, counting and rejecting callbacks) vs. the extracted table model: outcome of every op, final values, callback counts."""
import json, os, sys
from fractions import Fraction
import fw

sys.path.insert(0, os.path.join(fw.ROOT, "gen"))
import cfg as gen_cfg

TY = ["int", "double", "boolean", "string"]
PARSER_MESSAGES = {"not a boolean", "out of range", "invalid double", "underflow", "overflow", "invalid integer"}
INT_MAX, INT_MIN = 2 ** 31 - 1, -2 ** 31

VALID = {
    0: ["0", "1", "-1", "42", "+7", " 12", "\t-3", "2147483647", "-2147483648", "0x1F", "0X10", "017", "-0x8", "00", "1000000"],
    1: ["0", "1.5", "-2.25", ".5", "3.", "1e3", "2.5E-1", " 8", "+0.125", "0x1p3", "inf", "-INF", "nan", "0.1", "1e-7", "123456789", "1e300"],
    2: ["yes", "no", "on", "off", "true", "false", "1", "0", "YES", "No", "oN", "OFF", "True", "FALSE"],
    3: ["", "abc", "x y", "a:b", "42", "Full", "/tmp/x.trace", "help me", "!bang", "a,b", "UTF\xe9"],
}
INVALID = {
    0: ["", " ", "abc", "12abc", "1.5", "2147483648", "-2147483649", "99999999999999999999", "-99999999999999999999", "0x", "08", "1 ",
        "+-1", "1e3", "0x1G", "--1", "1,", "yes"],
    1: ["", " ", "abc", "1.5x", "1e400", "-1e400", "1,5", "1 ", "1e", "..5", "0x", "e3", "1.5.2", "1e-400", "--1", "yes"],
    2: ["", "y", "n", "2", "tru", "yes ", " on", "00", "01", "of", "enable", "t", "-1", "1.0"],
}
SEPARATORS = " \t\n,"


def enc_str(s):
    b = [ord(c) & 0xff for c in s]
    return [len(b)] + b


def dec_value(toks, i):
    """decode one value of the driver/model encodings; returns (python value, next index)"""
    tag = int(toks[i])
    if tag == 1:
        return ("int", int(toks[i + 1])), i + 2
    if tag == 3:
        return ("inf", int(toks[i + 1])), i + 2
    if tag == 4:
        return ("nan",), i + 1
    if tag == 5:
        return ("bool", int(toks[i + 1])), i + 2
    if tag == 6:
        n = int(toks[i + 1])
        return ("str", tuple(int(x) for x in toks[i + 2:i + 2 + n])), i + 2 + n
    raise ValueError("tag %s" % tag)


def dec_impl_value(toks, i):
    if int(toks[i]) == 2:
        return ("dbl", Fraction(int(toks[i + 1])) * Fraction(2) ** int(toks[i + 2]), None), i + 3
    return dec_value(toks, i)


def dec_model_value(toks, i):
    if int(toks[i]) == 2:
        return ("dbl", Fraction(int(toks[i + 1]), int(toks[i + 2])), int(toks[i + 3])), i + 4
    return dec_value(toks, i)


def same_value(model, impl):
    if model[0] == "dbl" and impl[0] == "dbl":
        x, r = model[1], impl[1]
        return r == x if model[2] == 1 else abs(r - x) * 2 ** 52 <= abs(x)
    return model == impl


def show(v):
    if v[0] == "dbl":
        try:
            return repr(float(v[1]))
        except OverflowError:
            return "huge"
    if v[0] == "str":
        return repr("".join(chr(c) for c in v[1]))
    return str(v[1]) if len(v) > 1 else v[0]


def rand_text(rng, ty, want_valid):
    if ty == 3:
        if rng.random() < 0.5:
            return rng.choice(VALID[3])
        return "".join(rng.choice("abcXYZ019 ./:-_!") for _ in range(rng.randint(0, 10)))
    if want_valid:
        r = rng.random()
        if ty == 0 and r < 0.5:
            return rng.choice(["", "+", "-", " ", " -"]) + str(rng.choice([rng.randint(1, 10 ** 9), rng.randint(1, 100), INT_MAX]))
        if ty == 1 and r < 0.5:
            return rng.choice(["", "-", "+"]) + "%d.%s" % (rng.randint(0, 4096), rng.choice(["5", "25", "125", "0", "75"])) + rng.choice(["", "e2", "E-1", "e+3"])
        if ty == 2 and r < 0.3:
            w = rng.choice(VALID[2][:8])
            return "".join(c.upper() if rng.random() < 0.5 else c for c in w)
        return rng.choice(VALID[ty])
    r = rng.random()
    if r < 0.6:
        return rng.choice(INVALID[ty])
    base = rng.choice(VALID[ty])
    return rng.choice([base + rng.choice("xz;/ "), base + base if ty == 2 else base + "q", "#" + base, base[:-1] + "_" if base else "_"])


# ----------------------------------------------------------------------------------------------- lib mode
def run_lib(ctx, drv, items, aliases, dist):
    rng = ctx.rng
    alias_of = {}
    for a, r in aliases:
        alias_of.setdefault(r, []).append(a)
    types = {n: t for n, t, _ in items}
    cases = []
    if ctx.replay:
        rp = json.load(open(ctx.replay))["case"]
        if rp.get("mode") != "lib":
            return
        cases = [(rp["via"], rp["type"], rp["name"], rp["value"])]
    else:
        per_item = ctx.n(4, 16)
        for n, t, _ in items:
            for k in range(per_item):
                txt = rand_text(rng, t, k % 2 == 0)
                via = 1 if (rng.random() < 0.4 and txt and not any(c in SEPARATORS for c in txt)) else 0
                name = rng.choice(alias_of[n]) if n in alias_of and rng.random() < 0.5 else n
                cases.append((via, t, name, txt))
        for a, r in aliases:                                  # every alias at least once with a valid and an invalid text
            cases.append((0, types[r], a, rand_text(rng, types[r], True)))
            cases.append((0, types[r], a, rand_text(rng, types[r], False)))
        for _ in range(ctx.n(20, 300)):                      # unknown names
            n = rng.choice(items)[0]
            bad = rng.choice([n + "x", n.replace("/", "_", 1), n.upper(), n[:-1], "no/such-item", "", n.replace("-", "_")])
            if bad not in types and bad not in dict(aliases):
                cases.append((0, 3, bad, "1"))
    known = set(types) | set(a for a, _ in aliases)
    model = fw.run_model("c48", "run_c48_parse", [[t] + [ord(c) & 0xff for c in v] for _, t, _, v in cases])
    # a parsable text reaches the item's callback, which may end the process: those cases run in a forked child
    lines = [" ".join(map(str, [1 if (n in known and m != [0]) else 0, via, t] + enc_str(n) + enc_str(v)))
             for (via, t, n, v), m in zip(cases, model)]
    rc, out, err = fw.run_lines(drv, ["lib"], lines, timeout=1800)
    if rc != 0 or len(out) != len(cases):
        i = min(len(out), len(cases) - 1)
        ctx.fail("driver-crash", "xbt1_config lib ended with rc=%d after %d/%d cases: %s" % (rc, len(out), len(cases), err[-300:]),
                 {"mode": "lib", "via": cases[i][0], "type": cases[i][1], "name": cases[i][2], "value": cases[i][3]})
        return
    for (via, t, n, v), l, m in zip(cases, out, model):
        case = {"mode": "lib", "via": via, "type": t, "name": n, "value": v}
        toks = l.split()
        if n not in known:
            dist["lib_unknown_name"] += 1
            ctx.case(("lib", via, n, v), True, None)
            if toks != ["1"]:
                ctx.fail("unknown-name-accepted", "configuration item %r does not exist but get/set did not throw: %s" % (n, l[:80]), case)
            continue
        parsable = m != [0]
        ctx.case(("lib", via, n, v), True, {"item": n, "type": TY[t], "text": v, "via": ["set_as_string", "set_parse"][via], "observed": l[:60]})
        if not toks or toks[0] == "4":
            dist["lib_abort_in_callback"] += 1
            if not parsable:
                ctx.fail("unparsable-not-rejected-by-exception",
                         "%s item %r, text %r is not a %s but the set ended the process instead of throwing" % (TY[t], n, v, TY[t]), case)
            continue
        outcome = int(toks[0])
        before, i = dec_impl_value(toks, 2)
        after, i = dec_impl_value(toks, i + 1)
        what, _ = dec_value(toks, i + 1)
        what = "".join(chr(c) for c in what[1])
        if not parsable:
            dist["lib_unparsable"] += 1
            if outcome == 0:
                ctx.fail("accepts-unparsable-" + TY[t], "%s item %r accepted the text %r (stored %s)" % (TY[t], n, v, show(after)), case)
            elif after != before:
                ctx.fail("unparsable-changes-value", "%s item %r: rejected text %r changed the value from %s to %s" % (TY[t], n, v, show(before), show(after)), case)
            continue
        want, _ = dec_model_value([str(x) for x in m], 0)
        if outcome == 0:
            dist["lib_stored"] += 1
            if not same_value(want, after):
                ctx.fail("stored-value-differs-" + TY[t], "%s item %r set to %r reads back %s, the parsed value is %s" % (TY[t], n, v, show(after), show(want)), case)
        else:
            dist["lib_refused_by_callback"] += 1
            if what in PARSER_MESSAGES:
                ctx.fail("rejects-parsable-" + TY[t], "%s item %r refused the valid text %r with the parser's error %r" % (TY[t], n, v, what), case)


# ----------------------------------------------------------------------------------------------- ops mode
NAMES = ["t/int", "t/int-old", "t/pos", "t/dbl", "t/dbl-old", "t/dbl-older", "t/bool", "t/str", "t/nope", "t_int", "t/int-ol", ""]
NAME_TY = {"t/int": 0, "t/int-old": 0, "t/pos": 0, "t/dbl": 1, "t/dbl-old": 1, "t/dbl-older": 1, "t/bool": 2, "t/str": 3}
ITEMS = ["t/int", "t/pos", "t/dbl", "t/bool", "t/str"]


def gen_op(rng, last):
    k = rng.random()
    name = rng.choice(NAMES[:8]) if rng.random() < 0.85 else rng.choice(NAMES)
    ty = NAME_TY.get(name, rng.randrange(4))
    if k < 0.55:
        t2 = ty if rng.random() < 0.85 else rng.randrange(4)
        return (0, name, rand_text(rng, t2, rng.random() < 0.6))
    if k < 0.8:
        toks = []
        for _ in range(rng.randint(0, 4)):
            n = rng.choice(NAMES[:8]) if rng.random() < 0.9 else rng.choice(NAMES[8:11])
            v = rand_text(rng, NAME_TY.get(n, 0), rng.random() < 0.75)
            v = "".join(c for c in v if c not in SEPARATORS)
            toks.append(n + ":" + v)
        if last and rng.random() < 0.15:
            toks.append("nocolon")
        text = rng.choice(["", " ", ",,"]) + rng.choice([" ", ",", "\t", "\n", ", "]).join(toks) + rng.choice(["", " ", ","])
        return (1, "", text)
    if name not in NAME_TY:
        return (2, name, "1")
    canon = {0: lambda: str(rng.choice([0, 1, -5, 42, INT_MAX, INT_MIN, rng.randint(-1000, 1000)])),
             1: lambda: rng.choice(["2.5", "-0.125", "3", "0", "1024.75", "1e3"]),
             2: lambda: rng.choice(["0", "1"]),
             3: lambda: rng.choice(["", "abc", "!no", "x y", "a:b,c"])}[ty]()
    return (2, name, canon)


CORPUS_OPS = [
    [(0, "t/int-old", "-42")], [(0, "t/int", "42x")], [(0, "t/nope", "1")], [(0, "t/pos", "0")], [(0, "t/pos", "-3"), (0, "t/pos", "5")],
    [(0, "t/bool", "oN"), (0, "t/bool", "of")], [(0, "t/dbl-older", "1e3"), (0, "t/dbl-old", "1e400")], [(0, "t/str", "!x"), (0, "t/str", "ok")],
    [(1, "", "t/int:3,t/dbl:2.5 t/bool:yes\tt/str:hello")], [(1, "", "t/int:3,t/int:x,t/int:9")], [(1, "", " , ")], [(1, "", "t/int:5 nocolon")],
    [(1, "", "t/str:a:b")], [(2, "t/int", "2147483647")], [(2, "t/pos", "-1")], [(2, "t/dbl-old", "2.5")], [(2, "t/nope", "1")],
    [(0, "t/int", "0x7fffffff"), (0, "t/int", "0x80000000")], [(0, "t/int", "017")], [(0, "t/int", "08")], [(0, "t/dbl", "0x1p-2")],
]


def run_ops(ctx, drv, dist):
    rng = ctx.rng
    if ctx.replay:
        rp = json.load(open(ctx.replay))["case"]
        if rp.get("mode") != "ops":
            return
        cases = [[tuple(o) for o in rp["ops"]]]
    else:
        cases = [list(c) for c in CORPUS_OPS]
        for _ in range(ctx.n(800, 15000)):
            n = rng.randint(1, 8)
            cases.append([gen_op(rng, k == n - 1) for k in range(n)])
    flat = [[x for (k, n, s) in c for x in [k] + enc_str(n) + enc_str(s)] for c in cases]
    model = fw.run_model("c48", "run_c48_ops", flat)
    # a token without ':' makes set_parse abort: those cases run in a forked child
    rc, out, err = fw.run_lines(drv, ["ops"], [" ".join(map(str, [1 if 4 in m[1:1 + m[0]] else 0] + f)) for f, m in zip(flat, model)], timeout=900)
    if rc != 0 or len(out) != len(cases):
        i = min(len(out), len(cases) - 1)
        ctx.fail("driver-crash", "xbt1_config ops ended with rc=%d after %d/%d cases: %s" % (rc, len(out), len(cases), err[-300:]),
                 {"mode": "ops", "ops": cases[i]})
        return
    for c, l, m in zip(cases, out, model):
        case = {"mode": "ops", "ops": [list(o) for o in c]}
        dist["ops_cases"] += 1
        dist["ops_ops"] += len(c)
        ncodes = m[0]
        mcodes, mdump = m[1:1 + ncodes], [str(x) for x in m[1 + ncodes:]]
        toks = l.split()
        d = toks.index("D") if "D" in toks else len(toks)
        icodes = [int(x) for x in toks[:d]]
        for k in mcodes:
            dist["ops_outcomes"][k] += 1
        ctx.case(("ops", tuple(c)), any(k != 1 for k in mcodes), {"ops": [list(o) for o in c[:3]], "outcomes": icodes[:3]})
        # the model keeps going after an abort; the process does not
        if 4 in mcodes:
            cut = mcodes.index(4) + 1
            if icodes[:cut] != mcodes[:cut]:
                ctx.fail("ops-outcome", "ops %r: outcomes %s, specified %s (0 ok, 1 unknown name, 2 unparsable, 3 refused, 4 abort)" % (c, icodes, mcodes[:cut]), case)
            continue
        if icodes != mcodes:
            ctx.fail("ops-outcome", "ops %r: outcomes %s, specified %s (0 ok, 1 unknown name, 2 unparsable, 3 refused by callback, 4 abort)" % (c, icodes, mcodes), case)
            continue
        i = j = 0
        itoks = toks[d + 1:]
        for name in ITEMS:
            iv, i = dec_impl_value(itoks, i)
            ic = int(itoks[i])
            i += 1
            mv, j = dec_model_value(mdump, j)
            mc = int(mdump[j])
            j += 1
            if not same_value(mv, iv):
                ctx.fail("ops-value", "ops %r: item %s holds %s, specified %s" % (c, name, show(iv), show(mv)), case)
                break
            if ic != mc:
                ctx.fail("ops-callbacks", "ops %r: callback of %s ran %d times, specified %d" % (c, name, ic, mc), case)
                break


def run(ctx):
    ctx.simgrid(["simgrid"])
    drv = fw.build_harness("xbt1_config")
    items, aliases = [], []
    try:
        changed, items, aliases = gen_cfg.generate(drv, fw.COQ)
        if changed:
            ctx.notes.append("Gen/CfgFlags.v regenerated with new content (%d items, %d aliases)" % (len(items), len(aliases)))
        src = gen_cfg.scan_sources(fw.REPO)
        missing = sorted(src - set(n for n, _, _ in items))
        ctx.notes.append("flags declared with a literal name in src/ but not registered in this build (conditional code, unit tests): %s" % ", ".join(missing))
    except gen_cfg.TranslateError as e:
        ctx.mismatch("gen/cfg.py", "cannot list the registered configuration items: %s" % e)
    ctx.prove()
    dist = {"registered_items": len(items), "registered_aliases": len(aliases), "lib_stored": 0, "lib_unparsable": 0, "lib_refused_by_callback": 0,
            "lib_abort_in_callback": 0, "lib_unknown_name": 0, "ops_cases": 0, "ops_ops": 0, "ops_outcomes": [0, 0, 0, 0, 0]}
    ctx.cov["rule"] = ("lib: every registered item (by name or alias) x valid and invalid texts of its type (hand-picked boundary texts and random "
                       "mutations), through set_as_string or set_parse; unknown names. ops: random sequences of 1-8 operations (set_as_string, "
                       "set_parse with 0-4 tokens and random separators, set_value<T>) on the 5-item test table incl. aliases, unknown names, "
                       "wrong-type texts, values the callbacks refuse. non-trivial = anything but an op sequence that only hits unknown names; "
                       "distinct = distinct case")
    if items:
        run_lib(ctx, drv, items, aliases, dist)
    run_ops(ctx, drv, dist)
    ctx.cov["input_distribution"] = dist
    ctx.assumptions += ["strtol/strtod are glibc's in the C locale; long is 64 bits, int 32 bits",
                        "texts contain no NUL character (they travel as C strings)",
                        "get_value<T>/set_value<T> are only used with the item's own type (anything else is undefined behaviour in config.cpp: "
                        "static_cast without check) - not exercised",
                        "for library items a parsable text may be refused by the item's own callback (exception or abort in the forked child); "
                        "the callbacks of the 147 library items are not modelled, those of the test table are",
                        "double values: exact comparison when the decimal is a binary64 number, else within 2^-52 relative (strtod's rounding is not modelled)"]


META = {
    "level": "proof",
    "claimed": True,
    "text": "Coq theorems about a Gallina transcription of config.cpp for ALL tables, names, texts and callbacks: a successful set by name or "
            "alias stores exactly the parsed value, runs the item's callback exactly once and leaves every other item untouched (C48_set_get, "
            "C48_set_succeeds, C48_alias); unparsable texts and unknown names are rejected without any change (C48_reject_unparsable, "
            "C48_unknown_name); a refusing callback has run exactly once (C48_callback_once); parser specifications: the 8 boolean literals "
            "case-insensitively and nothing else, decimal integers of any length with int range and full consumption, decimal reals with range "
            "and full consumption (C48_parse_*). The registered items/aliases are regenerated from the rebuilt library and proved to resolve "
            "unambiguously (C48_registered_names_resolve). Every registered item x valid/invalid texts and random operation sequences on a test "
            "table are run against the library and judged by the extracted model.",
    "note": "Trusted: Coq kernel, extraction, the C++ driver (forks per case), gen/cfg.py (parses help()/show_aliases() output). Callbacks of the "
            "library's own items are not modelled (a parsable text refused by them is accepted as such). In set_string_value the value is "
            "assigned before the callback runs, so a refused value stays stored: the model and C48_callback_once say so explicitly. "
            "strtol base 0 (hex/octal) and strtod specials are modelled and tied by correspondence; theorems cover the decimal grammar.",
    "technique": "Coq proof (finite-map reasoning on association lists, string-prefix lemmas shared with C27) + library-to-Coq item list translator + "
                 "extracted-model differential correspondence with forked driver",
}
