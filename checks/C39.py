"""C39 — declared-independent transitions commute; the dependency relation is symmetric.

T: gen/deplut.py re-executes the consteval builder chain of Transition.cpp into Gen/DepLut.v; the theorems over it
   (symmetry for all transitions; commutation + mutual non-disabling on the mutex, semaphore, barrier, actor, random and
   communication kernel) are re-checked.
K: random synthetic pairs of transitions, built by the real deserialize_transition(), go through the real
   Transition::dispatch_depends in both orders and through the extracted model; random operation sequences go through
   the real MutexImpl / SemaphoreImpl / BarrierImpl / MailboxImpl+CommImpl (kernel in MC mode; every step re-described by
   the real observer's serialize() -> deserialize_transition()) and through the kernel model the commutation theorem is
   about; the verdict of the real dispatch_depends on every adjacent pair of a comm sequence is compared with the model's.
O: on the real code, depends(t1,t2) must equal depends(t2,t1); two co-enabled steps of different actors that the real
   dispatch_depends declares independent must leave the real kernel objects in the same state in either order
   (barriers: queue and granted sets; communications: requests, their pairing, mailbox queues, values returned)."""
import json, os, sys
import fw

sys.path.insert(0, os.path.join(fw.ROOT, "gen"))
import deplut  # noqa: E402

DRV_FLAGS = ["-std=gnu++20", "-fno-access-control"]

# constructor layouts (as checks/C43 proves them equal to what the application packs): (wire kinds, role of each field)
# wire: u4 i4 i8 b s ; role: o1 o2 snd rcv tmo or None
LAYOUT = {
    "RANDOM": [("i4", None), ("i4", None)],
    "ACTOR_JOIN": [("i8", "o1"), ("b", None)],
    "ACTOR_SLEEP": [], "ACTOR_EXIT": [], "UNKNOWN": [],
    "ACTOR_CREATE": [("i8", "o1")],
    "BARRIER_ASYNC_LOCK": [("u4", "o1")], "BARRIER_WAIT": [("u4", "o1")],
    "COMM_ASYNC_RECV": [("u4", "o1"), ("u4", "o2"), ("i4", None), ("s", None)],
    "COMM_ASYNC_SEND": [("u4", "o1"), ("u4", "o2"), ("i4", None), ("s", None)],
    "COMM_IPROBE": [("u4", "o2"), ("b", None), ("i4", None)],
    "COMM_TEST": [("u4", "o1"), ("i8", "snd"), ("i8", "rcv"), ("u4", "o2"), ("s", None)],
    "COMM_WAIT": [("b", "tmo"), ("u4", "o1"), ("i8", "snd"), ("i8", "rcv"), ("u4", "o2"), ("s", None)],
    "MUTEX_ASYNC_LOCK": [("u4", "o1"), ("i8", None)], "MUTEX_TEST": [("u4", "o1"), ("i8", None)],
    "MUTEX_TRYLOCK": [("u4", "o1"), ("i8", None)], "MUTEX_UNLOCK": [("u4", "o1"), ("i8", None)],
    "MUTEX_WAIT": [("u4", "o1"), ("i8", None)],
    "SEM_ASYNC_LOCK": [("u4", "o1"), ("b", None), ("i4", None)], "SEM_UNLOCK": [("u4", "o1"), ("b", None), ("i4", None)],
    "SEM_WAIT": [("u4", "o1"), ("b", None), ("i4", None)],
    "CONDVAR_ASYNC_LOCK": [("u4", "o1"), ("u4", "o2")], "CONDVAR_WAIT": [("u4", "o1"), ("u4", "o2"), ("b", None), ("b", None)],
    "CONDVAR_SIGNAL": [("u4", "o1")], "CONDVAR_BROADCAST": [("u4", "o1")],
}


def le(v, n):
    return list((v % (1 << (8 * n))).to_bytes(n, "little"))


def enc(kind, v):
    if kind == "u4" or kind == "i4":
        return le(v, 4)
    if kind == "i8":
        return le(v, 8)
    if kind == "b":
        return [1 if v else 0]
    return le(len(v), 2) + list(v) + [0]


def gen_plain(rng, names, tname, aid):
    """-> (bytes, core dict)"""
    core = {"ty": names.index(tname), "aid": aid, "o1": 0, "o2": 0, "snd": -1, "rcv": -1, "tmo": 0}
    b = le(names.index(tname), 4)
    for (kind, role) in LAYOUT[tname]:
        if kind == "s":
            v = [120]
        elif kind == "b":
            v = rng.randint(0, 1)
        elif kind == "i8":
            v = rng.choice([-1, rng.randint(0, 4), rng.randint(0, 4)])
        else:
            v = rng.randint(0, 2)
        if role:
            core[role] = v
        b += enc(kind, v)
    return b, core


def gen_transition(rng, names, aid):
    """-> (times_considered, bytes, model description [kind, outer, ty, aid, o1, o2, snd, rcv, tmo])"""
    plain = [n for n in names if n in LAYOUT]
    r = rng.random()
    if r < 0.12:   # TestAny: the current transition is transitions_[times_considered]
        k = rng.randint(1, 3)
        subs = [gen_plain(rng, names, "COMM_TEST", aid) for _ in range(k)]
        tc = rng.randrange(k)
        b = le(names.index("TESTANY"), 4) + le(k, 4)
        for sb, _ in subs:
            b += sb
        b += enc("s", [120])
        c = subs[tc][1]
        return tc, b, [1, aid, c["ty"], aid, c["o1"], c["o2"], c["snd"], c["rcv"], c["tmo"]]
    if r < 0.24:   # WaitAny: the times_considered-th wait whose sender and receiver are known
        k = rng.randint(1, 3)
        subs = [gen_plain(rng, names, "COMM_WAIT", aid) for _ in range(k)]
        en = [i for i, (_, c) in enumerate(subs) if c["snd"] >= 0 and c["rcv"] >= 0]
        if en:
            tc = rng.randrange(len(en))
            b = le(names.index("WAITANY"), 4) + le(k, 4)
            for sb, _ in subs:
                b += sb
            b += enc("s", [120])
            c = subs[en[tc]][1]
            return tc, b, [1, aid, c["ty"], aid, c["o1"], c["o2"], c["snd"], c["rcv"], c["tmo"]]
    t = rng.choice(plain)
    b, c = gen_plain(rng, names, t, aid)
    return 0, b, [0, aid, c["ty"], aid, c["o1"], c["o2"], c["snd"], c["rcv"], c["tmo"]]


class Model:
    def __init__(self, area):
        self.exe = fw.build_model(area)

    def run(self, fn, cases):
        if not cases:
            return []
        inp = "\n".join(" ".join(str(int(x)) for x in c) for c in cases) + "\n"
        rc, so, se = fw.sh2([self.exe, fn], inp=inp, timeout=1800)
        lines = so.split("\n")
        if lines and lines[-1] == "":
            lines.pop()
        if rc != 0 or len(lines) != len(cases):
            raise fw.BuildError("model %s: rc %d, %d answers for %d cases: %s" % (fn, rc, len(lines), len(cases), se[-500:]))
        return [[int(t) for t in l.split()] for l in lines]


def run(ctx):
    ctx.simgrid(["simgrid"] if ctx.quick else ["simgrid", "simgrid-mc"])
    rep = json.load(open(ctx.replay))["case"] if ctx.replay else None
    lut = None
    try:
        lut = deplut.extract(fw.REPO)
        deplut.write_if_changed(os.path.join(fw.COQ, "theories", "Gen", "DepLut.v"), deplut.render(lut))
    except deplut.Untranslatable as e:
        ctx.mismatch("gen/deplut.py", "the translator no longer understands the dependency table: %s" % e)
    ok = ctx.prove(extra_trusted=["gen/deplut.py (Python re-execution of the consteval DependencyTableBuilder chain)",
                                  "the hand-written EVAL_* cases of Mc/Trans.v (tied by the differential runs; digest of the C++ switch in Gen/DepLut.v)"])
    names = lut["names"] if lut else deplut.parse_type_enum(fw.REPO)
    model = Model("c39")
    drv = fw.build_harness("mc2_dep_drv", extra=DRV_FLAGS + ["-I" + fw.REPO + "/src/smpi/include"])

    def drive(lines):
        rc, out, err = fw.run_lines(drv, ["--log=root.thres:critical"], lines, timeout=2400)
        if len(out) != len(lines):
            raise fw.BuildError("mc2_dep_drv answered %d lines for %d (rc %d): %s" % (len(out), len(lines), rc, err[-400:]))
        return out

    ctx.cov["rule"] = ("one case = one pair of synthetic transitions of different or equal actors (all types, TestAny/WaitAny wrappers "
                       "included, object ids in 0..2 so that collisions are frequent) evaluated by the real dispatch_depends in both "
                       "orders, or one operation sequence on a real mutex/semaphore; non-trivial = the pair is declared dependent or "
                       "shares an object / the sequence has a contended acquisition")
    dist = {"pairs": 0, "dependent": 0, "died": 0, "mutex_seqs": 0, "sem_seqs": 0, "barrier_seqs": 0, "comm_seqs": 0,
            "comm_adjacent_verdicts": 0, "barrier_pairs": 0, "comm_pairs": 0, "comm_pairs_independent": 0, "model_counterexamples": 0}

    # ---- pairs through the real dispatch_depends
    n = ctx.n(1500, 6000)
    pairs = []
    if rep:
        if rep.get("kind") == "pair":
            pairs = [rep["pair"]]
    else:
        for _ in range(n):
            a1 = ctx.rng.randint(0, 4)
            a2 = ctx.rng.choice([a1, ctx.rng.randint(0, 4), ctx.rng.randint(0, 4), ctx.rng.randint(0, 4)])
            t1 = gen_transition(ctx.rng, names, a1)
            t2 = gen_transition(ctx.rng, names, a2)
            pairs.append([a1, t1[0], t1[1], t1[2], a2, t2[0], t2[1], t2[2]])
    lines = ["dep %d %d %s | %d %d %s" % (p[0], p[1], " ".join(map(str, p[2])), p[4], p[5], " ".join(map(str, p[6]))) for p in pairs]
    real = drive(lines) if lines else []
    mod = model.run("run_c39_depends", [p[3] + p[7] for p in pairs])
    modr = model.run("run_c39_depends", [p[7] + p[3] for p in pairs])
    for p, r, m, mr in zip(pairs, real, mod, modr):
        dist["pairs"] += 1
        case = {"kind": "pair", "pair": p}
        desc = "%s by actor %d / %s by actor %d" % (names[p[3][2]], p[0], names[p[7][2]], p[4])
        if r.startswith("DIED"):
            dist["died"] += 1
            ctx.case(("pair", tuple(p[3]), tuple(p[7])), False)
            if m != [0]:
                ctx.mismatch("depends", "the real dispatch_depends dies on %s, the model answers %s" % (desc, m), case)
            continue
        d12, d21 = [int(x) for x in r.split()]
        shares = p[3][4] == p[7][4] or p[3][5] == p[7][5]
        ctx.case(("pair", tuple(p[3]), tuple(p[7])), bool(d12) or shares,
                 {"pair": desc, "fields": [p[3], p[7]], "depends": d12} if d12 and p[0] != p[4] else None)
        dist["dependent"] += d12
        if d12 != d21:
            ctx.fail("asymmetric-%s-%s" % tuple(sorted([names[p[3][2]], names[p[7][2]]])),
                     "dispatch_depends is not symmetric on %s: %d one way, %d the other (fields %s / %s)" % (desc, d12, d21, p[3], p[7]), case)
            continue
        if m != [1, d12] or mr != [1, d21]:
            ctx.mismatch("depends", "model says %s/%s, dispatch_depends says %d/%d on %s (fields %s / %s)" % (m, mr, d12, d21, desc, p[3], p[7]), case)

    # ---- the kernel model the commutation theorem talks about, against the real MutexImpl / SemaphoreImpl
    nseq = ctx.n(150, 3000) if not rep else 0
    mseqs = [[x for _ in range(ctx.rng.randint(1, 14)) for x in (ctx.rng.randint(1, 4), ctx.rng.choice([0, 0, 1, 2, 3, 3, 4]))] for _ in range(nseq)]
    mm = model.run("run_c39_mutex_seq", mseqs)

    def split_model(ans, seq, sem):
        """-> (enabled subsequence, expected states)"""
        pos, ops, states = 0, [], []
        for i in range(0, len(seq), 2):
            if ans[pos] == 0:
                pos += 1
                continue
            if not sem:
                ow, res, k = ans[pos + 1], ans[pos + 2], ans[pos + 3]
                q = ans[pos + 4:pos + 4 + k]
                pos += 4 + k
                states.append([ow, res, k] + q)
            else:
                v, k = ans[pos + 1], ans[pos + 2]
                q = ans[pos + 3:pos + 3 + k]
                g = ans[pos + 3 + k]
                gr = sorted(ans[pos + 4 + k:pos + 4 + k + g])
                pos += 4 + k + g
                states.append([v, k] + q + [g] + gr)
            ops += [seq[i], seq[i + 1]]
        return ops, states

    plans = [split_model(a, s, False) for a, s in zip(mm, mseqs)]
    real = drive(["mseq " + " ".join(map(str, ops)) for ops, _ in plans]) if plans else []
    for (ops, states), r, seq in zip(plans, real, mseqs):
        dist["mutex_seqs"] += 1
        got = [[int(x) for x in part.split()] for part in r.split(";") if part.strip()]
        ctx.case(("mseq", tuple(seq)), any(s[2] > 0 for s in states))
        if got != states:
            ctx.mismatch("McKernel.mstep", "real MutexImpl and the model disagree on ops %s: real %s, model %s" % (ops, got, states), {"kind": "mseq", "ops": ops})
    sseqs = [[ctx.rng.randint(0, 2)] + [x for _ in range(ctx.rng.randint(1, 14)) for x in (ctx.rng.randint(1, 4), ctx.rng.choice([0, 0, 1, 1, 2]))] for _ in range(nseq)]
    sm = model.run("run_c39_sem_seq", sseqs)
    plans = [split_model(a, s[1:], True) for a, s in zip(sm, sseqs)]
    real = drive(["sseq %d " % s[0] + " ".join(map(str, ops)) for (ops, _), s in zip(plans, sseqs)]) if plans else []
    for (ops, states), r, seq in zip(plans, real, sseqs):
        dist["sem_seqs"] += 1
        got = [[int(x) for x in part.split()] for part in r.split(";") if part.strip()]
        ctx.case(("sseq", tuple(seq)), any(s[1] > 0 for s in states))
        if got != states:
            ctx.mismatch("McKernel.sstep", "real SemaphoreImpl and the model disagree on capacity %d ops %s: real %s, model %s" % (seq[0], ops, got, states), {"kind": "sseq", "seq": seq})


    # ---- barriers: the kernel model against the real BarrierImpl
    bseqs = [[ctx.rng.randint(1, 3)] + [x for _ in range(ctx.rng.randint(1, 12)) for x in (ctx.rng.randint(1, 4), ctx.rng.choice([0, 0, 1]))] for _ in range(nseq)]
    bm = model.run("run_c39_bar_seq", bseqs)

    def split_bar(ans, seq):
        pos, ops, states = 0, [], []
        for i in range(0, len(seq), 2):
            if ans[pos] == 0:
                pos += 1
                continue
            k = ans[pos + 1]
            q = ans[pos + 2:pos + 2 + k]
            g = ans[pos + 2 + k]
            gr = sorted(ans[pos + 3 + k:pos + 3 + k + g])
            pos += 3 + k + g
            states.append([k] + q + [g] + gr)
            ops += [seq[i], seq[i + 1]]
        return ops, states

    plans = [split_bar(a, s[1:]) for a, s in zip(bm, bseqs)]
    real = drive(["bseq %d " % s[0] + " ".join(map(str, ops)) for (ops, _), s in zip(plans, bseqs)]) if plans else []
    for (ops, states), r, seq in zip(plans, real, bseqs):
        dist["barrier_seqs"] += 1
        got = [[int(x) for x in part.split()] for part in r.split(";") if part.strip()]
        ctx.case(("bseq", tuple(seq)), any(s[0] > 0 for s in states))
        if got != states:
            ctx.mismatch("McKernel2.bstep", "real BarrierImpl and the model disagree on expected %d ops %s: real %s, model %s" % (seq[0], ops, got, states), {"kind": "bseq", "seq": seq})

    # ---- barriers: two arrivals of different actors, both orders on the real BarrierImpl, against the real verdict
    bpairs = []
    if rep and rep.get("kind") == "bpair":
        bpairs = [rep["bpair"]]
    elif not rep:
        bpairs = [[2, [3], 1, 2], [3, [4], 1, 2], [3, [4, 3], 1, 2], [1, [], 1, 2], [2, [], 1, 2]]
        for _ in range(ctx.n(40, 600)):
            n = ctx.rng.randint(1, 4)
            q = ctx.rng.sample([3, 4, 5], ctx.rng.randint(0, min(3, n - 1)))
            bpairs.append([n, q, 1, 2])
    lock = le(names.index("BARRIER_ASYNC_LOCK"), 4) + le(0, 4)
    verdict = drive(["dep 1 0 %s | 2 0 %s" % (" ".join(map(str, lock)), " ".join(map(str, lock)))])[0] if bpairs else "1 1"
    bar_indep = verdict.split()[0] == "0"
    lines = []
    for n, q, a1, a2 in bpairs:
        pre = " ".join("%d 0" % x for x in q)
        lines += ["bseq %d %s %d 0 %d 0" % (n, pre, a1, a2), "bseq %d %s %d 0 %d 0" % (n, pre, a2, a1)]
    real = drive(lines) if lines else []
    mres = model.run("run_c39_bar_pair", [[n, len(q)] + q + [a1, a2] for n, q, a1, a2 in bpairs])
    for i, (bp, mr) in enumerate(zip(bpairs, mres)):
        dist["barrier_pairs"] += 1
        n, q, a1, a2 = bp
        fin = []
        for r in (real[2 * i], real[2 * i + 1]):
            last = [int(x) for x in [part for part in r.split(";") if part.strip()][-1].split()]
            k = last[0]
            fin.append((sorted(last[1:1 + k]), sorted(last[2 + k:])))
        same = fin[0] == fin[1]
        ctx.case(("bpair", n, tuple(q)), len(q) > 0)
        if (mr[1] == 1) != same or (mr[2] == 0) != bar_indep:
            ctx.mismatch("McKernel2.bstep", "two arrivals on a barrier of %d with %s waiting: the model says commute=%d indep=%d, the real kernel %s / %s" %
                         (n, q, mr[1], 1 - mr[2], same, bar_indep), {"kind": "bpair", "bpair": bp})
        if bar_indep and not same:
            known = n >= 2 and len(q) == n - 1
            ctx.fail("barrier-lock-lock-oversubscribed" if known else "barrier-lock-lock-noncommute",
                     "dispatch_depends declares two BARRIER_ASYNC_LOCK independent, but on a real barrier of %d with %s already waiting, actors %d then %d "
                     "leave (queue, granted) = %s and %d then %d leave %s" % (n, q, a1, a2, fin[0], a2, a1, fin[1]), {"kind": "bpair", "bpair": bp})

    # ---- communications: the kernel model against the real MailboxImpl / CommImpl, step descriptions and verdicts included
    def gen_cseq(length):
        seq, cnt = [], {}
        for _ in range(length):
            a = ctx.rng.randint(1, 4)
            c = ctx.rng.choice([0, 0, 1, 1, 2, 2, 3, 4, 5])
            if c in (2, 3):
                arg = ctx.rng.randrange(cnt[a]) if cnt.get(a) and ctx.rng.random() < 0.9 else ctx.rng.randint(0, 2)
            else:
                arg = ctx.rng.randint(0, 2) if ctx.rng.random() < 0.3 else 0
                if c < 2:
                    cnt[a] = cnt.get(a, 0) + 1
            seq += [a, c, arg]
        return seq

    def model_ops(ans, seq):
        """-> (enabled subsequence, per op [ret, ty, actor, rank, mbox, snd, rcv, queue [(is_send, actor, rank)]])"""
        pos, ops, out = 0, [], []
        for i in range(0, len(seq), 3):
            if ans[pos] == 0:
                pos += 1
                continue
            ret, ty, a, rk, mb, snd, rcv, n = ans[pos + 1:pos + 9]
            q = [tuple(ans[pos + 9 + 3 * j:pos + 12 + 3 * j]) for j in range(n)]
            pos += 9 + 3 * n
            ops += seq[i:i + 3]
            out.append([ret, ty, a, rk, mb, snd, rcv, q])
        return ops, out

    def parse_real(line):
        body, rest = line.split("|")
        deps, reqs, boxes = rest.split("#")
        steps = [[int(x) for x in part.split()] for part in body.split(";") if part.strip()]
        rq = [int(x) for x in reqs.split()]
        requests = [tuple(rq[i:i + 5]) for i in range(0, len(rq), 5)]     # actor rank comm src dst
        bx = [int(x) for x in boxes.split()]
        queues, pos = [], 0
        while pos < len(bx):
            n = bx[pos]
            queues.append([tuple(bx[pos + 1 + 3 * j:pos + 4 + 3 * j]) for j in range(n)])
            pos += 1 + 3 * n
        return steps, [int(x) for x in deps.split()], requests, queues

    def abstract(steps, ops, requests, queues):
        """the final state of the real kernel without comm ids: pairing of requests, queues of requests, values returned"""
        owner = {}
        for a, k, c, _, _ in requests:
            owner.setdefault(c, []).append((a, k))
        peers = {(a, k): tuple(x for x in owner[c] if x != (a, k)) for a, k, c, _, _ in requests}
        qs = [[(e[0], e[1]) + tuple(k for (a, k) in owner.get(e[2], []) if a == e[1]) for e in q] for q in queues]
        rets = {}
        for st, i in zip(steps, range(0, len(ops), 3)):
            if st[0] >= 0:
                rets.setdefault(ops[i], []).append(st[0])
        return peers, qs, rets

    ncs = ctx.n(120, 2500) if not rep else 0
    cseqs = [gen_cseq(ctx.rng.randint(2, 12)) for _ in range(ncs)]
    if rep and rep.get("kind") == "cseq":
        cseqs = [rep["seq"]]
    cm = model.run("run_c39_comm_seq", cseqs)
    plans = [model_ops(a, s) for a, s in zip(cm, cseqs)]
    cd = model.run("run_c39_comm_deps", [ops for ops, _ in plans])
    real = drive(["cseq " + " ".join(map(str, ops)) for ops, _ in plans]) if plans else []
    for (ops, mo), r, seq, mdeps in zip(plans, real, cseqs, cd):
        dist["comm_seqs"] += 1
        case = {"kind": "cseq", "seq": seq}
        steps, deps, requests, queues = parse_real(r)
        ctx.case(("cseq", tuple(seq)), any(st[4] >= 0 or st[5] >= 0 for st in steps))
        idof, bad = {}, None
        for st, m in zip(steps, mo):
            ret, ty, comm, mb, snd, rcv, n = st[:7]
            q = [tuple(st[7 + 3 * j:10 + 3 * j]) for j in range(n)]
            mret, mty, a, rk, mmb, msnd, mrcv, mq = m
            if rk >= 0:
                if mty in (9, 10) and (a, rk) not in idof:
                    idof[(a, rk)] = comm
                if idof.get((a, rk)) != comm:
                    bad = "request (%d,%d) is comm %s, the step names comm %d" % (a, rk, idof.get((a, rk)), comm)
            if [ret, ty, mb] != [mret, mty, mmb] or (ty in (12, 13) and [snd, rcv] != [msnd, mrcv]):
                bad = "step %s: real ret/type/mailbox/sender/receiver %s, model %s" % (m[2:4], [ret, ty, mb, snd, rcv], [mret, mty, mmb, msnd, mrcv])
            if [(e[0], e[1]) for e in q] != [(e[0], e[1]) for e in mq] or any(idof.get((e[1], e[2])) != r_[2] for e, r_ in zip(mq, q)):
                bad = "mailbox %d after step %s: real queue %s, model %s" % (mb, m[2:4], q, mq)
            if bad:
                break
        if len(steps) != len(mo):
            bad = "%d real steps for %d model steps" % (len(steps), len(mo))
        if bad:
            ctx.mismatch("McKernel2.comm", "real MailboxImpl/CommImpl and the model disagree on ops %s: %s" % (ops, bad), case)
            continue
        dist["comm_adjacent_verdicts"] += len(deps)
        if deps != mdeps:
            ctx.mismatch("depends(comm)", "on ops %s the real dispatch_depends says %s on the adjacent pairs of different actors, the model %s" % (ops, deps, mdeps), case)

    # ---- communications: two co-enabled steps of different actors after a random prefix, both orders on the real kernel
    cpairs = []
    if rep and rep.get("kind") == "cpair":
        cpairs = [rep["cpair"]]
    elif not rep:
        fixed = [[[1, 1, 0], [1, 2, 0], [2, 0, 0]], [[1, 0, 0], [1, 2, 0], [2, 1, 0]], [[], [1, 0, 0], [2, 0, 0]], [[], [1, 0, 0], [2, 1, 0]],
                 [[1, 1, 0], [2, 0, 0], [3, 0, 0]], [[1, 1, 0], [2, 0, 0], [3, 4, 0]], [[1, 1, 0], [2, 0, 0], [3, 5, 0]]]
        cpairs = list(fixed)
        for _ in range(ctx.n(300, 5000)):
            pre = gen_cseq(ctx.rng.randint(0, 8))
            t = gen_cseq(2)
            if ctx.rng.random() < 0.6:
                t[5] = t[2] if t[4] < 2 or t[4] > 3 else t[5]      # same mailbox more often
            cpairs.append([pre, t[0:3], t[3:6]])
    # keep the pairs of different actors that are both enabled after the prefix (model), on the enabled prefix
    probe = model.run("run_c39_comm_seq", [p[0] + p[1] for p in cpairs] + [p[0] + p[2] for p in cpairs])
    todo = []
    for i, p in enumerate(cpairs):
        if p[1][0] == p[2][0]:
            continue
        o1, _ = model_ops(probe[i], p[0] + p[1])
        o2, _ = model_ops(probe[len(cpairs) + i], p[0] + p[2])
        pre_en = o1[:-3] if o1[-3:] == p[1] and len(o1) >= 3 else None
        if pre_en is None or o2 != pre_en + p[2]:
            continue
        todo.append((p, pre_en))
    lines = []
    for p, pre_en in todo:
        lines += ["cseq " + " ".join(map(str, pre_en + p[1] + p[2])), "cseq " + " ".join(map(str, pre_en + p[2] + p[1]))]
    real = drive(lines) if lines else []
    for i, (p, pre_en) in enumerate(todo):
        dist["comm_pairs"] += 1
        case = {"kind": "cpair", "cpair": p}
        ra = parse_real(real[2 * i])
        rb = parse_real(real[2 * i + 1])
        ctx.case(("cpair", tuple(pre_en), tuple(p[1]), tuple(p[2])), p[1][1] < 2 or p[2][1] < 2)
        if len(ra[0]) != len(pre_en) // 3 + 2 or len(rb[0]) != len(ra[0]) or not ra[1]:
            ctx.mismatch("McKernel2.comm", "the model says %s and %s are both enabled after %s, the real kernel ran %d/%d steps" % (p[1], p[2], pre_en, len(ra[0]), len(rb[0])), case)
            continue
        indep = ra[1][-1] == 0
        dist["comm_pairs_independent"] += int(indep)
        sa = abstract(ra[0], pre_en + p[1] + p[2], ra[2], ra[3])
        sb = abstract(rb[0], pre_en + p[2] + p[1], rb[2], rb[3])
        if indep and sa != sb:
            tn = {0: "ASYNC_SEND", 1: "ASYNC_RECV", 2: "TEST", 3: "WAIT", 4: "IPROBE", 5: "IPROBE"}
            ctx.fail("comm-noncommute-%s-%s" % tuple(sorted([tn[p[1][1]], tn[p[2][1]]])),
                     "the real dispatch_depends declares COMM_%s by actor %d and COMM_%s by actor %d (args %d / %d) independent after the ops %s, but the real "
                     "kernel ends in different states: %s one way, %s the other" % (tn[p[1][1]], p[1][0], tn[p[2][1]], p[2][0], p[1][2], p[2][2], pre_en, sa, sb), case)

    # ---- thorough: the recorded barrier finding shows in the verdicts of simgrid-mc itself
    if not ctx.quick and not rep:
        prog = fw.build_harness("mc4_prog")
        plat = os.path.join(fw.REPO, "examples", "platforms", "small_platform.xml")
        verdicts = {}
        for red in ("dpor", "odpor"):
            rc, so, se = fw.sh2([fw.SIMGRID_MC, prog, plat, "2", "B0,Q0/M0,B0/B0/B0", "--cfg=model-check/reduction:" + red, "--log=root.thres:info"], timeout=600)
            verdicts[red] = "violation" if "CRITICAL TRANSITION FOUND" in so + se or "Counter-example" in so + se else ("clean" if "exploration ended" in so + se else "error")
        ctx.cov["mc_confirmation_barrier"] = verdicts
        if verdicts.get("dpor") == "violation" and verdicts.get("odpor") == "clean":
            ctx.fail("barrier-lock-lock-oversubscribed", "simgrid-mc on a barrier of 2 used by 4 actors (program B0,Q0/M0,B0/B0/B0 of harness/mc4_prog): reduction dpor "
                     "reports the assertion violation (trace 1;3;1;1), reduction odpor explores 4 traces and reports nothing", {"kind": "bpair", "bpair": [2, [3], 1, 2]})

    # ---- when the commutation proof no longer checks: look for a concrete state and pair in the model
    if not ok and lut is not None and not rep:
        cases = []
        for a1 in (1,):
            for a2 in (2,):
                for p1 in range(5):
                    for p2 in range(5):
                        for ho, ow, q in ((0, 0, []), (1, 1, []), (1, 2, []), (1, 3, []), (1, 1, [3]), (1, 2, [3]), (1, 3, [1]), (1, 3, [2]), (1, 3, [4]),
                                          (1, 1, [2]), (1, 2, [1]), (1, 3, [1, 2]), (1, 3, [2, 1]), (1, 3, [4, 1]), (1, 3, [4, 2])):
                            cases.append([a1, p1, a2, p2, ho, ow] + q)
        res = model.run("run_c39_mutex_pair", cases)
        dep = model.run("run_c39_mutex_dep", [[c[0], c[1], c[2], c[3], 0, 0] for c in cases])
        opn = ["ASYNC_LOCK", "TEST", "TRYLOCK", "UNLOCK", "WAIT"]
        for c, r, d in zip(cases, res, dep):
            if d == [1, 0] and r[0] == 1 and r[1] == 1 and (r[2] == 0 or r[3] == 0 or r[4] == 0):
                dist["model_counterexamples"] += 1
                ctx.mismatch("C39_commute_sync_partial",
                             "the table declares MUTEX_%s (actor %d) and MUTEX_%s (actor %d) on the same mutex independent, but on the kernel model with owner %s and queue %s "
                             "they %s" % (opn[c[1]], c[0], opn[c[3]], c[2], c[5] if c[4] else None, c[6:],
                                          "do not commute" if r[2] == 0 else "disable each other"),
                             {"kind": "model-witness", "case": c})
                break
    ctx.cov["input_distribution"] = dist
    ctx.assumptions += ["UNKNOWN transitions are the base class (depends() = false); mock subclasses of the unit tests are out of scope",
                        "kernel model: non-recursive mutexes, one pending acquisition per actor and semaphore, no timeouts",
                        "commutation on the running application (state fingerprints after each transition) is not observed: no hook is installed; "
                        "the kernel model is tied to the real MutexImpl/SemaphoreImpl by operation sequences instead"]


META = {
    "level": "proof",
    "text": "Coq theorems over the dependency table regenerated from Transition.cpp on every run: dispatch_depends answers the same in both "
            "orders for all transitions of all types (C39_symmetric); on a model of the kernel as the checker drives it (mutexes, semaphores, "
            "barriers, actor creation/join/exit/sleep, random, communications on mailboxes: isend/irecv/test/wait/iprobe) two enabled transitions "
            "of different actors that the checker declares independent - each described as its observer serializes it right after execution in "
            "the trace t1;t2, comm ids being any numbering faithful to that trace - reach the same state in either order and neither disables the "
            "other, in every well-formed state, well-formedness being preserved by every enabled step (C39_commute_partial, C39_xwf_invariant, "
            "C39_commute_sync_partial, C39_wf_invariant). Where the statement is false the "
            "refutation is proved and replayed on the real code: two arrivals at an oversubscribed barrier (C39_barrier_lock_lock_refuted, recorded "
            "finding, excluded by a side condition) and the COMM_TEST rule before fix 786c1edee0 (C39_pinned_test_rule_refuted). The model of "
            "dispatch_depends is tied to the rebuilt library on random synthetic pairs (both orders, real deserialize_transition + "
            "dispatch_depends); the kernel model on random operation sequences against the real MutexImpl, SemaphoreImpl, BarrierImpl and "
            "MailboxImpl/CommImpl in MC mode, each comm step re-described by the real observer's serialize() and every adjacent verdict compared; "
            "independently of the model, co-enabled barrier and comm steps that the real dispatch_depends declares independent are run in both "
            "orders on the real kernel objects and must end in the same state.",
    "note": "Partial: condition variables (and their implicit mutex operations) are not modelled; excluded region: two BARRIER_ASYNC_LOCK on a "
            "barrier whose round lacks exactly one participant (finding barrier-lock-lock-oversubscribed); comm model without match functions, "
            "permanent receivers, detached sends, timeouts, TestAny/WaitAny steps, and without the cancellation of pending comms when an actor "
            "dies; actors end by ACTOR_EXIT; commutation is not observed on the running application (no state-fingerprint hook).",
    "technique": "translator (builder chain re-executed -> Coq table) + Coq proofs (case analysis driven by the table) + differential correspondence "
                 "+ both-orders oracle on the real kernel objects",
    "claimed": True,
}
