"""C39 — declared-independent transitions commute; the dependency relation is symmetric.

T: gen/deplut.py re-executes the consteval builder chain of Transition.cpp into Gen/DepLut.v; the theorems over it
   (symmetry for all transitions; commutation + mutual non-disabling on the mutex and semaphore kernel) are re-checked.
K: random synthetic pairs of transitions, built by the real deserialize_transition(), go through the real
   Transition::dispatch_depends in both orders and through the extracted model; random operation sequences go through
   the real MutexImpl / SemaphoreImpl and through the kernel model the commutation theorem is about.
O: on the real code, depends(t1,t2) must equal depends(t2,t1)."""
import json, os, sys
import fw

sys.path.insert(0, os.path.join(fw.ROOT, "gen"))
import deplut  # noqa: E402

DRV_FLAGS = ["-std=gnu++20", "-fno-access-control"]

# constructor layouts (as checks/C43 proves them equal to what the application packs): (wire kinds, role of each field)
# wire: u4 i4 i8 b s ; role: o1 o2 snd rcv tmo or None
LAYOUT = {
    "RANDOM": [("i4", None), ("i4", None)],
    "ACTOR_JOIN": [("i8", "o1"), ("b", None)],
    "ACTOR_SLEEP": [], "ACTOR_EXIT": [], "UNKNOWN": [],
    "ACTOR_CREATE": [("i8", "o1")],
    "BARRIER_ASYNC_LOCK": [("u4", "o1")], "BARRIER_WAIT": [("u4", "o1")],
    "COMM_ASYNC_RECV": [("u4", "o1"), ("u4", "o2"), ("i4", None), ("s", None)],
    "COMM_ASYNC_SEND": [("u4", "o1"), ("u4", "o2"), ("i4", None), ("s", None)],
    "COMM_IPROBE": [("u4", "o2"), ("b", None), ("i4", None)],
    "COMM_TEST": [("u4", "o1"), ("i8", "snd"), ("i8", "rcv"), ("u4", "o2"), ("s", None)],
    "COMM_WAIT": [("b", "tmo"), ("u4", "o1"), ("i8", "snd"), ("i8", "rcv"), ("u4", "o2"), ("s", None)],
    "MUTEX_ASYNC_LOCK": [("u4", "o1"), ("i8", None)], "MUTEX_TEST": [("u4", "o1"), ("i8", None)],
    "MUTEX_TRYLOCK": [("u4", "o1"), ("i8", None)], "MUTEX_UNLOCK": [("u4", "o1"), ("i8", None)],
    "MUTEX_WAIT": [("u4", "o1"), ("i8", None)],
    "SEM_ASYNC_LOCK": [("u4", "o1"), ("b", None), ("i4", None)], "SEM_UNLOCK": [("u4", "o1"), ("b", None), ("i4", None)],
    "SEM_WAIT": [("u4", "o1"), ("b", None), ("i4", None)],
    "CONDVAR_ASYNC_LOCK": [("u4", "o1"), ("u4", "o2")], "CONDVAR_WAIT": [("u4", "o1"), ("u4", "o2"), ("b", None), ("b", None)],
    "CONDVAR_SIGNAL": [("u4", "o1")], "CONDVAR_BROADCAST": [("u4", "o1")],
}


def le(v, n):
    return list((v % (1 << (8 * n))).to_bytes(n, "little"))


def enc(kind, v):
    if kind == "u4" or kind == "i4":
        return le(v, 4)
    if kind == "i8":
        return le(v, 8)
    if kind == "b":
        return [1 if v else 0]
    return le(len(v), 2) + list(v) + [0]


def gen_plain(rng, names, tname, aid):
    """-> (bytes, core dict)"""
    core = {"ty": names.index(tname), "aid": aid, "o1": 0, "o2": 0, "snd": -1, "rcv": -1, "tmo": 0}
    b = le(names.index(tname), 4)
    for (kind, role) in LAYOUT[tname]:
        if kind == "s":
            v = [120]
        elif kind == "b":
            v = rng.randint(0, 1)
        elif kind == "i8":
            v = rng.choice([-1, rng.randint(0, 4), rng.randint(0, 4)])
        else:
            v = rng.randint(0, 2)
        if role:
            core[role] = v
        b += enc(kind, v)
    return b, core


def gen_transition(rng, names, aid):
    """-> (times_considered, bytes, model description [kind, outer, ty, aid, o1, o2, snd, rcv, tmo])"""
    plain = [n for n in names if n in LAYOUT]
    r = rng.random()
    if r < 0.12:   # TestAny: the current transition is transitions_[times_considered]
        k = rng.randint(1, 3)
        subs = [gen_plain(rng, names, "COMM_TEST", aid) for _ in range(k)]
        tc = rng.randrange(k)
        b = le(names.index("TESTANY"), 4) + le(k, 4)
        for sb, _ in subs:
            b += sb
        b += enc("s", [120])
        c = subs[tc][1]
        return tc, b, [1, aid, c["ty"], aid, c["o1"], c["o2"], c["snd"], c["rcv"], c["tmo"]]
    if r < 0.24:   # WaitAny: the times_considered-th wait whose sender and receiver are known
        k = rng.randint(1, 3)
        subs = [gen_plain(rng, names, "COMM_WAIT", aid) for _ in range(k)]
        en = [i for i, (_, c) in enumerate(subs) if c["snd"] >= 0 and c["rcv"] >= 0]
        if en:
            tc = rng.randrange(len(en))
            b = le(names.index("WAITANY"), 4) + le(k, 4)
            for sb, _ in subs:
                b += sb
            b += enc("s", [120])
            c = subs[en[tc]][1]
            return tc, b, [1, aid, c["ty"], aid, c["o1"], c["o2"], c["snd"], c["rcv"], c["tmo"]]
    t = rng.choice(plain)
    b, c = gen_plain(rng, names, t, aid)
    return 0, b, [0, aid, c["ty"], aid, c["o1"], c["o2"], c["snd"], c["rcv"], c["tmo"]]


class Model:
    def __init__(self, area):
        self.exe = fw.build_model(area)

    def run(self, fn, cases):
        if not cases:
            return []
        inp = "\n".join(" ".join(str(int(x)) for x in c) for c in cases) + "\n"
        rc, so, se = fw.sh2([self.exe, fn], inp=inp, timeout=1800)
        lines = so.split("\n")
        if lines and lines[-1] == "":
            lines.pop()
        if rc != 0 or len(lines) != len(cases):
            raise fw.BuildError("model %s: rc %d, %d answers for %d cases: %s" % (fn, rc, len(lines), len(cases), se[-500:]))
        return [[int(t) for t in l.split()] for l in lines]


def run(ctx):
    ctx.simgrid(["simgrid"])
    rep = json.load(open(ctx.replay))["case"] if ctx.replay else None
    lut = None
    try:
        lut = deplut.extract(fw.REPO)
        deplut.write_if_changed(os.path.join(fw.COQ, "theories", "Gen", "DepLut.v"), deplut.render(lut))
    except deplut.Untranslatable as e:
        ctx.mismatch("gen/deplut.py", "the translator no longer understands the dependency table: %s" % e)
    ok = ctx.prove(extra_trusted=["gen/deplut.py (Python re-execution of the consteval DependencyTableBuilder chain)",
                                  "the hand-written EVAL_* cases of Mc/Trans.v (tied by the differential runs; digest of the C++ switch in Gen/DepLut.v)"])
    names = lut["names"] if lut else deplut.parse_type_enum(fw.REPO)
    model = Model("c39")
    drv = fw.build_harness("mc2_dep_drv", extra=DRV_FLAGS + ["-I" + fw.REPO + "/src/smpi/include"])

    def drive(lines):
        rc, out, err = fw.run_lines(drv, ["--log=root.thres:critical"], lines, timeout=900)
        if len(out) != len(lines):
            raise fw.BuildError("mc2_dep_drv answered %d lines for %d (rc %d): %s" % (len(out), len(lines), rc, err[-400:]))
        return out

    ctx.cov["rule"] = ("one case = one pair of synthetic transitions of different or equal actors (all types, TestAny/WaitAny wrappers "
                       "included, object ids in 0..2 so that collisions are frequent) evaluated by the real dispatch_depends in both "
                       "orders, or one operation sequence on a real mutex/semaphore; non-trivial = the pair is declared dependent or "
                       "shares an object / the sequence has a contended acquisition")
    dist = {"pairs": 0, "dependent": 0, "died": 0, "mutex_seqs": 0, "sem_seqs": 0, "model_counterexamples": 0}

    # ---- pairs through the real dispatch_depends
    n = ctx.n(1500, 30000)
    pairs = []
    if rep:
        if rep.get("kind") == "pair":
            pairs = [rep["pair"]]
    else:
        for _ in range(n):
            a1 = ctx.rng.randint(0, 4)
            a2 = ctx.rng.choice([a1, ctx.rng.randint(0, 4), ctx.rng.randint(0, 4), ctx.rng.randint(0, 4)])
            t1 = gen_transition(ctx.rng, names, a1)
            t2 = gen_transition(ctx.rng, names, a2)
            pairs.append([a1, t1[0], t1[1], t1[2], a2, t2[0], t2[1], t2[2]])
    lines = ["dep %d %d %s | %d %d %s" % (p[0], p[1], " ".join(map(str, p[2])), p[4], p[5], " ".join(map(str, p[6]))) for p in pairs]
    real = drive(lines) if lines else []
    mod = model.run("run_c39_depends", [p[3] + p[7] for p in pairs])
    modr = model.run("run_c39_depends", [p[7] + p[3] for p in pairs])
    for p, r, m, mr in zip(pairs, real, mod, modr):
        dist["pairs"] += 1
        case = {"kind": "pair", "pair": p}
        desc = "%s by actor %d / %s by actor %d" % (names[p[3][2]], p[0], names[p[7][2]], p[4])
        if r.startswith("DIED"):
            dist["died"] += 1
            ctx.case(("pair", tuple(p[3]), tuple(p[7])), False)
            if m != [0]:
                ctx.mismatch("depends", "the real dispatch_depends dies on %s, the model answers %s" % (desc, m), case)
            continue
        d12, d21 = [int(x) for x in r.split()]
        shares = p[3][4] == p[7][4] or p[3][5] == p[7][5]
        ctx.case(("pair", tuple(p[3]), tuple(p[7])), bool(d12) or shares,
                 {"pair": desc, "fields": [p[3], p[7]], "depends": d12} if d12 and p[0] != p[4] else None)
        dist["dependent"] += d12
        if d12 != d21:
            ctx.fail("asymmetric-%s-%s" % tuple(sorted([names[p[3][2]], names[p[7][2]]])),
                     "dispatch_depends is not symmetric on %s: %d one way, %d the other (fields %s / %s)" % (desc, d12, d21, p[3], p[7]), case)
            continue
        if m != [1, d12] or mr != [1, d21]:
            ctx.mismatch("depends", "model says %s/%s, dispatch_depends says %d/%d on %s (fields %s / %s)" % (m, mr, d12, d21, desc, p[3], p[7]), case)

    # ---- the kernel model the commutation theorem talks about, against the real MutexImpl / SemaphoreImpl
    nseq = ctx.n(150, 3000) if not rep else 0
    mseqs = [[x for _ in range(ctx.rng.randint(1, 14)) for x in (ctx.rng.randint(1, 4), ctx.rng.choice([0, 0, 1, 2, 3, 3, 4]))] for _ in range(nseq)]
    mm = model.run("run_c39_mutex_seq", mseqs)

    def split_model(ans, seq, sem):
        """-> (enabled subsequence, expected states)"""
        pos, ops, states = 0, [], []
        for i in range(0, len(seq), 2):
            if ans[pos] == 0:
                pos += 1
                continue
            if not sem:
                ow, res, k = ans[pos + 1], ans[pos + 2], ans[pos + 3]
                q = ans[pos + 4:pos + 4 + k]
                pos += 4 + k
                states.append([ow, res, k] + q)
            else:
                v, k = ans[pos + 1], ans[pos + 2]
                q = ans[pos + 3:pos + 3 + k]
                g = ans[pos + 3 + k]
                gr = sorted(ans[pos + 4 + k:pos + 4 + k + g])
                pos += 4 + k + g
                states.append([v, k] + q + [g] + gr)
            ops += [seq[i], seq[i + 1]]
        return ops, states

    plans = [split_model(a, s, False) for a, s in zip(mm, mseqs)]
    real = drive(["mseq " + " ".join(map(str, ops)) for ops, _ in plans]) if plans else []
    for (ops, states), r, seq in zip(plans, real, mseqs):
        dist["mutex_seqs"] += 1
        got = [[int(x) for x in part.split()] for part in r.split(";") if part.strip()]
        ctx.case(("mseq", tuple(seq)), any(s[2] > 0 for s in states))
        if got != states:
            ctx.mismatch("McKernel.mstep", "real MutexImpl and the model disagree on ops %s: real %s, model %s" % (ops, got, states), {"kind": "mseq", "ops": ops})
    sseqs = [[ctx.rng.randint(0, 2)] + [x for _ in range(ctx.rng.randint(1, 14)) for x in (ctx.rng.randint(1, 4), ctx.rng.choice([0, 0, 1, 1, 2]))] for _ in range(nseq)]
    sm = model.run("run_c39_sem_seq", sseqs)
    plans = [split_model(a, s[1:], True) for a, s in zip(sm, sseqs)]
    real = drive(["sseq %d " % s[0] + " ".join(map(str, ops)) for (ops, _), s in zip(plans, sseqs)]) if plans else []
    for (ops, states), r, seq in zip(plans, real, sseqs):
        dist["sem_seqs"] += 1
        got = [[int(x) for x in part.split()] for part in r.split(";") if part.strip()]
        ctx.case(("sseq", tuple(seq)), any(s[1] > 0 for s in states))
        if got != states:
            ctx.mismatch("McKernel.sstep", "real SemaphoreImpl and the model disagree on capacity %d ops %s: real %s, model %s" % (seq[0], ops, got, states), {"kind": "sseq", "seq": seq})

    # ---- when the commutation proof no longer checks: look for a concrete state and pair in the model
    if not ok and lut is not None and not rep:
        cases = []
        for a1 in (1,):
            for a2 in (2,):
                for p1 in range(5):
                    for p2 in range(5):
                        for ho, ow, q in ((0, 0, []), (1, 1, []), (1, 2, []), (1, 3, []), (1, 1, [3]), (1, 2, [3]), (1, 3, [1]), (1, 3, [2]), (1, 3, [4]),
                                          (1, 1, [2]), (1, 2, [1]), (1, 3, [1, 2]), (1, 3, [2, 1]), (1, 3, [4, 1]), (1, 3, [4, 2])):
                            cases.append([a1, p1, a2, p2, ho, ow] + q)
        res = model.run("run_c39_mutex_pair", cases)
        dep = model.run("run_c39_mutex_dep", [[c[0], c[1], c[2], c[3], 0, 0] for c in cases])
        opn = ["ASYNC_LOCK", "TEST", "TRYLOCK", "UNLOCK", "WAIT"]
        for c, r, d in zip(cases, res, dep):
            if d == [1, 0] and r[0] == 1 and r[1] == 1 and (r[2] == 0 or r[3] == 0 or r[4] == 0):
                dist["model_counterexamples"] += 1
                ctx.mismatch("C39_commute_sync_partial",
                             "the table declares MUTEX_%s (actor %d) and MUTEX_%s (actor %d) on the same mutex independent, but on the kernel model with owner %s and queue %s "
                             "they %s" % (opn[c[1]], c[0], opn[c[3]], c[2], c[5] if c[4] else None, c[6:],
                                          "do not commute" if r[2] == 0 else "disable each other"),
                             {"kind": "model-witness", "case": c})
                break
    ctx.cov["input_distribution"] = dist
    ctx.assumptions += ["UNKNOWN transitions are the base class (depends() = false); mock subclasses of the unit tests are out of scope",
                        "kernel model: non-recursive mutexes, one pending acquisition per actor and semaphore, no timeouts",
                        "commutation on the running application (state fingerprints after each transition) is not observed: no hook is installed; "
                        "the kernel model is tied to the real MutexImpl/SemaphoreImpl by operation sequences instead"]


META = {
    "level": "proof",
    "text": "Coq theorems over the dependency table regenerated from Transition.cpp on every run: dispatch_depends answers the same in both "
            "orders for all transitions of all types (C39_symmetric); on the mutex and semaphore kernel two enabled transitions of different "
            "actors that the table declares independent reach the same state in either order and neither disables the other, in every "
            "well-formed state, well-formedness being invariant (C39_commute_sync_partial, C39_wf_invariant). The model of dispatch_depends is "
            "tied to the rebuilt library on random synthetic pairs (both orders, real deserialize_transition + dispatch_depends), the kernel "
            "model on random operation sequences against the real MutexImpl/SemaphoreImpl.",
    "note": "Partial: commutation is proved for the mutex and semaphore groups only (barrier, condvar x mutex, communications, actor life "
            "cycle, random are not closed); commutation is not observed on the running application (no state-fingerprint hook).",
    "technique": "translator (builder chain re-executed -> Coq table) + Coq proofs (case analysis driven by the table) + differential correspondence",
    "claimed": False,
}
