"""C49 — Parmap applies the function to every element exactly once per apply.
Proof: C49_each_once_per_round holds for every schedule of the small-step model (Xbt/Parmap.v).
K: the extracted model, run under a random schedule (any interleaving of master/worker atomic steps) completed by
   round-robin, and the real simgrid::xbt::Parmap<T> (harness/xbt2_parmap_drv.cpp: per-element atomic counters) must
   report the same thing for the same case: every requested apply() done, every counter equal to 1.
O: the verified oracle each_once (C49_oracle_is_spec) on the counters of the real Parmap."""
import json
import fw

MODES = {0: "posix", 1: "futex", 2: "busy_wait"}


def gen_case(rng, big):
    mode = rng.randint(0, 2)
    nw = rng.choice([1, 2, 3, 4, 8, 16, rng.randint(1, 16)])
    nr = rng.randint(1, 4)
    hi = 500 if big else 40
    ns = [rng.choice([0, 1, 2, nw - 1, nw, nw + 1, rng.randint(0, hi)]) for _ in range(nr)]
    return {"mode": mode, "nw": nw, "ns": ns, "jitter": rng.choice([0, 0, rng.randint(1, 1000)]),
            "sched": [rng.randrange(nw) for _ in range(rng.randint(0, 400 if not big else 3000))]}


CORPUS = [
    {"mode": 0, "nw": 3, "ns": [5, 0, 3], "jitter": 1, "sched": [1, 1, 2, 0, 0, 0, 2, 2, 1, 0, 0, 2, 1, 1, 1, 0, 2, 0, 0, 1]},
    {"mode": 1, "nw": 16, "ns": [500, 500, 0, 1], "jitter": 0, "sched": []},
    {"mode": 2, "nw": 16, "ns": [15, 16, 17], "jitter": 7, "sched": [0] * 50},
    {"mode": 1, "nw": 1, "ns": [0, 7, 0], "jitter": 0, "sched": [0, 0, 0]},
    {"mode": 0, "nw": 2, "ns": [1, 1, 1, 1], "jitter": 3, "sched": [1] * 30 + [0] * 30},
]


def parse(toks):
    """-> list of (n, counters) or None"""
    try:
        k, i, res = toks[0], 1, []
        for _ in range(k):
            n = toks[i]
            res.append((n, toks[i + 1:i + 1 + n]))
            if len(res[-1][1]) != n:
                return None
            i += 1 + n
        return res if i == len(toks) else None
    except IndexError:
        return None


def run(ctx):
    ctx.simgrid(["simgrid"])
    ctx.prove()
    drv = fw.build_harness("xbt2_parmap_drv", extra=["-std=gnu++20"])
    if ctx.replay:
        cases = [json.load(open(ctx.replay))["case"]]
    else:
        cases = CORPUS + [gen_case(ctx.rng, False) for _ in range(ctx.n(500, 6000))] + [gen_case(ctx.rng, True) for _ in range(ctx.n(60, 1500))]
    ctx.cov["rule"] = ("vectors of 0..500 elements (boundary sizes 0, 1, 2, workers-1, workers, workers+1) x 1..16 threads x "
                       "{posix, futex, busy_wait} x 1..4 successive apply() on one Parmap, some elements made slower (yield); model "
                       "side: a random schedule of 0..3000 thread steps then round-robin; non-trivial = at least 2 threads and one "
                       "vector with >= 2 elements; distinct = distinct (mode, threads, sizes, jitter)")
    model_in = [[c["nw"], len(c["ns"])] + c["ns"] + c["sched"] for c in cases]
    model = fw.run_model("c49", "run_c49", model_in)
    lines = ["%d %d %d %s %d" % (c["mode"], c["nw"], len(c["ns"]), " ".join(map(str, c["ns"])), c["jitter"]) for c in cases]
    rc, impl, err = fw.run_lines(drv, ["--log=root.thres:critical"], lines, timeout=ctx.n(1800, 5400))
    dist = {"posix": 0, "futex": 0, "busy_wait": 0, "applies": 0, "elements": 0, "threads": {}}
    if rc != 0 or len(impl) != len(cases):
        k = min(len(impl), len(cases) - 1)
        ctx.fail("hang-or-crash", "xbt2_parmap_drv ended with rc=%d (124 = timeout: an apply() never returned) on case %s after %d/%d cases: %s"
                 % (rc, lines[k], len(impl), len(cases), err[-300:]), cases[k])
    for c, m, il in zip(cases, model, impl):
        obs = parse([int(t) for t in il.split()])
        mobs = parse(m)
        dist[MODES[c["mode"]]] += 1
        dist["applies"] += len(c["ns"])
        dist["elements"] += sum(c["ns"])
        dist["threads"][str(c["nw"])] = dist["threads"].get(str(c["nw"]), 0) + 1
        nontriv = c["nw"] >= 2 and max(c["ns"]) >= 2
        ctx.case((c["mode"], c["nw"], tuple(c["ns"]), c["jitter"]), nontriv,
                 {"case": {k: c[k] for k in ("mode", "nw", "ns", "jitter")}, "impl": il[:120]} if nontriv else None)
        # O: every requested apply() was done and every element processed exactly once
        bad = None
        if obs is None or [n for n, _ in obs] != c["ns"]:
            bad = ("applies-not-done", "expected apply() on vectors of sizes %s, the driver reports %s" % (c["ns"], il[:200]))
        else:
            for r, (n, cnt) in enumerate(obs):
                if any(x != 1 for x in cnt):   # == each_once (C49_oracle_is_spec)
                    j = next(i for i, x in enumerate(cnt) if x != 1)
                    bad = ("element-%s" % ("skipped" if cnt[j] == 0 else "repeated"),
                           "apply #%d on %d elements with %d threads (%s): element %d was processed %d times"
                           % (r, n, c["nw"], MODES[c["mode"]], j, cnt[j]))
                    break
        if bad:
            ctx.fail(bad[0], bad[1], c)
        elif mobs != obs:
            ctx.mismatch("correspondence Parmap.v / parmap.hpp", "case %s: model %s, implementation %s" % (lines[cases.index(c)], str(mobs)[:200], il[:200]), c)
    ctx.cov["input_distribution"] = dist
    ctx.assumptions += [
        "sequentially consistent atomics: relaxed-memory reorderings (fetch_add uses memory_order_relaxed) and lost futex wake-ups are "
        "not modelled; waiting (futex, condition variable, yield loop) is modelled as 'proceed only when the condition holds'",
        "the user function only touches its own element; Parmap destruction and thread creation are not modelled",
        "the real schedules are whatever the OS produces on this machine; the theorem, not the runs, covers all interleavings",
    ]


META = {
    "level": "proof",
    "claimed": True,
    "text": "Coq theorem C49_each_once_per_round: in the small-step interleaving model of parmap.hpp (shared common_index with "
            "fetch_add, thread_counter, work_round; master and workers as program counters; one shared access or one function "
            "application per step), for every schedule, any number of workers and any sequence of apply() calls, the multiset of "
            "indices processed by each completed apply() is exactly {0..n-1} (C49_counters_all_one: all per-element counters are 1); "
            "C49_round_barrier and C49_rounds_in_order cover repeated applies. The real Parmap<T> is run with per-element atomic "
            "counters on 0..500 elements x 1..16 threads x {posix, futex, busy_wait} x repeated applies and judged by the verified "
            "oracle; the extracted model under random schedules must report the same.",
    "note": "Assumes sequentially consistent atomics and reliable wake-ups (named in the evidence): weak-memory behaviours and futex "
            "lost wake-ups cannot be shown by this model. The tie to the source is by observation only (counters, number of applies); "
            "a hang of the real Parmap is reported as a failure through the driver timeout.",
    "technique": "Coq proof (inductive invariant over an interleaving semantics, multiset/permutation reasoning) + runs of the real "
                 "thread pool under the verified oracle + extracted-model correspondence",
}
