"""C49 — Parmap applies the function to every element exactly once per apply.
Proof: C49_each_once_per_round / C49_round_barrier hold for every schedule of the small-step model (Xbt/Parmap.v), where
   a schedule interleaves the atomic steps of the threads AND spurious returns of their blocking waits (futex_wait,
   condition variable, yield); C49_single_wait_refuted*: they fail as soon as a wait is not re-checked.
K: the extracted model, run under a random schedule (steps and spurious wake-ups) completed by round-robin, and the real
   simgrid::xbt::Parmap<T> (harness/xbt2_parmap_drv.cpp: per-element atomic counters read when apply() returns) must
   report the same thing for the same case: every requested apply() done, every counter equal to 1.
   Two phases on the real Parmap: (1) wake-up injection: slow elements, a helper thread sends SIGUSR1 (handler without
   SA_RESTART) to the caller of apply() and to the workers all along, in the three modes; (2) plain runs.
O: the verified oracle each_once (C49_oracle_is_spec) on the counters of the real Parmap."""
import json
import fw

MODES = {0: "posix", 1: "futex", 2: "busy_wait"}


def gen_sched(rng, nw, hi):
    """thread numbers; negative = spurious return of the wait of thread -t-1"""
    return [rng.randrange(-nw, nw) if rng.random() < 0.3 else rng.randrange(nw) for _ in range(rng.randint(0, hi))]


def gen_case(rng, big):
    mode = rng.randint(0, 2)
    nw = rng.choice([1, 2, 3, 4, 8, 16, rng.randint(1, 16)])
    nr = rng.randint(1, 4)
    hi = 500 if big else 40
    ns = [rng.choice([0, 1, 2, nw - 1, nw, nw + 1, rng.randint(0, hi)]) for _ in range(nr)]
    return {"mode": mode, "nw": nw, "ns": ns, "jitter": rng.choice([0, 0, rng.randint(1, 1000)]),
            "sched": gen_sched(rng, nw, 400 if not big else 3000)}


def gen_inject(rng):
    """wake-up injection: elements take `us` microseconds, SIGUSR1 every `period` microseconds"""
    mode = rng.choice([1, 1, 0, 2])
    nw = rng.choice([2, 3, 3, 4, 5, 8])
    ns = [rng.choice([1, 2, nw - 1, nw, nw + 1, 2 * nw + 1, rng.randint(1, 3 * nw)]) for _ in range(rng.randint(2, 5))]
    return {"mode": mode, "nw": nw, "ns": ns, "jitter": rng.randint(0, 1000), "us": rng.choice([500, 1000, 2000]),
            "period": rng.choice([50, 100, 200, 400]), "sched": gen_sched(rng, nw, 400)}


CORPUS = [
    {"mode": 0, "nw": 3, "ns": [5, 0, 3], "jitter": 1, "sched": [1, 1, 2, 0, 0, 0, 2, 2, 1, 0, 0, 2, 1, 1, 1, 0, 2, 0, 0, 1]},
    {"mode": 1, "nw": 16, "ns": [500, 500, 0, 1], "jitter": 0, "sched": []},
    {"mode": 2, "nw": 16, "ns": [15, 16, 17], "jitter": 7, "sched": [0] * 50},
    {"mode": 1, "nw": 1, "ns": [0, 7, 0], "jitter": 0, "sched": [0, 0, 0]},
    {"mode": 0, "nw": 2, "ns": [1, 1, 1, 1], "jitter": 3, "sched": [1] * 30 + [0] * 30},
    {"mode": 1, "nw": 3, "ns": [5, 0, 3], "jitter": 0,
     "sched": [1, 1, -2, 1, -2, 2, 0, 0, 0, 2, 2, -3, 1, 0, 0, 2, 1, 0, 0, 0, 0, 0, 0, 0, 0, -1, 0, -1, 1, 1, 0, -2, 2, 0, 0, 1, -1, -3]},
]
# the model-side schedules are the shapes of C49_single_wait_refuted (EINTR, 2 threads) and ..._no_spurious (EAGAIN, 3 threads)
CORPUS_INJECT = [
    {"mode": 1, "nw": 3, "ns": [3, 3, 5, 1, 7], "jitter": 1, "us": 2000, "period": 200,
     "sched": [0, 0, 0, 1, 1, 2, 2, 0, 1, 2, 0, 0, 0, 0, 1, 1, 1, 1, 0]},
    {"mode": 1, "nw": 2, "ns": [2, 2, 2, 2, 3], "jitter": 0, "us": 2000, "period": 200, "sched": [0, 0, 0, 0, 1, 1, 1, 0, 0, 0, 0, -1]},
    {"mode": 1, "nw": 5, "ns": [5, 12, 4, 20], "jitter": 3, "us": 1000, "period": 100, "sched": [-1, -2, -3, -4, -5] * 8},
    {"mode": 1, "nw": 8, "ns": [8, 7, 9, 30], "jitter": 5, "us": 1000, "period": 50, "sched": []},
    {"mode": 0, "nw": 3, "ns": [3, 3, 5, 1, 7], "jitter": 1, "us": 2000, "period": 200, "sched": [0, 0, 0, 0, 1, 1, 1, 0, 0, 0, 0, -1]},
    {"mode": 2, "nw": 3, "ns": [3, 3, 5, 1, 7], "jitter": 1, "us": 2000, "period": 200, "sched": [0, 0, 0, 0, 1, 1, 1, 0, 0, 0, 0, -1]},
    {"mode": 0, "nw": 2, "ns": [2, 2, 2], "jitter": 0, "us": 2000, "period": 100, "sched": []},
    {"mode": 2, "nw": 5, "ns": [5, 12, 4], "jitter": 3, "us": 1000, "period": 100, "sched": []},
]


def parse(toks):
    """-> (list of the (n, counters) groups that are complete, whether the line is exactly the announced groups)"""
    res = []
    try:
        k, i = toks[0], 1
        for _ in range(k):
            n = toks[i]
            grp = toks[i + 1:i + 1 + n]
            if len(grp) != n:
                return res, False
            res.append((n, grp))
            i += 1 + n
        return res, i == len(toks)
    except IndexError:
        return res, False


def line_of(c):
    l = "%d %d %d %s %d" % (c["mode"], c["nw"], len(c["ns"]), " ".join(map(str, c["ns"])), c["jitter"])
    return l + (" %d %d" % (c["us"], c["period"]) if c.get("us") else "")


def describe(c):
    return "%s mode, %d threads, apply() on vectors of sizes %s%s" % (
        MODES[c["mode"]], c["nw"], c["ns"],
        (", elements of %d us, SIGUSR1 to the caller of apply() and to the workers every %d us" % (c["us"], c["period"])) if c.get("us") else "")


def phase(ctx, drv, cases, dist, name, timeout, hang):
    """run the model and the real Parmap on the cases and judge the observations"""
    model_in = [[c["nw"], len(c["ns"])] + c["ns"] + c["sched"] for c in cases]
    model = fw.run_model("c49", "run_c49", model_in)
    lines = [line_of(c) for c in cases]
    rc, impl, err = fw.run_lines(drv, ["--log=root.thres:critical"], lines, timeout=timeout, env={"C49_HANG_TIMEOUT": str(hang)})
    failed = False
    for c, m, il in zip(cases, model, impl):
        dist[MODES[c["mode"]]] += 1
        dist["inject" if c.get("us") else "plain"] += 1
        dist["applies"] += len(c["ns"])
        dist["elements"] += sum(c["ns"])
        dist["threads"][str(c["nw"])] = dist["threads"].get(str(c["nw"]), 0) + 1
        nontriv = c["nw"] >= 2 and max(c["ns"]) >= 2
        keys = ("mode", "nw", "ns", "jitter") + (("us", "period") if c.get("us") else ())
        ctx.case(tuple(tuple(c[k]) if k == "ns" else c[k] for k in keys), nontriv,
                 {"case": {k: c[k] for k in keys}, "impl": il[:120]} if nontriv else None)
        if il.startswith("HANG"):
            failed = True
            ctx.fail("hang", "%s: apply #%s did not return within %d s (the driver's watchdog)" % (describe(c), il.split()[-1], hang), c)
            continue
        try:
            obs, complete = parse([int(t) for t in il.split()])
        except ValueError:
            obs, complete = [], False
        mobs, mcomplete = parse(m)
        # O: every requested apply() was done and every element processed exactly once
        bad = None
        for r, (n, cnt) in enumerate(obs):
            if any(x != 1 for x in cnt):   # == each_once (C49_oracle_is_spec)
                j = next(i for i, x in enumerate(cnt) if x != 1)
                bad = ("element-%s" % ("skipped" if cnt[j] == 0 else "repeated"),
                       "%s: when apply #%d (on %d elements) returned, element %d had been processed %d time(s) (expected exactly 1); "
                       "counters %s" % (describe(c), r, n, j, cnt[j], cnt))
                break
        if bad is None and (not complete or [n for n, _ in obs] != c["ns"]):
            bad = ("applies-not-done", "%s: the driver reports %s" % (describe(c), il[:200]))
        if bad:
            failed = True
            ctx.fail(bad[0], bad[1], c)
        elif (mobs, mcomplete) != (obs, complete):
            ctx.mismatch("correspondence Parmap.v / parmap.hpp", "case %s: model %s, implementation %s" % (line_of(c), str(mobs)[:200], il[:200]), c)
    if rc != 0 or (len(impl) != len(cases) and not failed):
        k = min(len(impl), len(cases) - 1)
        ctx.fail("hang-or-crash", "xbt2_parmap_drv (%s phase) ended with rc=%d (124 = timeout: an apply() never returned) on case '%s' "
                 "after %d/%d cases: %s" % (name, rc, lines[k], len(impl), len(cases), err[-300:]), cases[k])
    return failed


def run(ctx):
    ctx.simgrid(["simgrid"])
    ctx.prove()
    drv = fw.build_harness("xbt2_parmap_drv", extra=["-std=gnu++20"])
    if ctx.replay:
        inj = [c for c in [json.load(open(ctx.replay))["case"]] if c.get("us")]
        cases = [c for c in [json.load(open(ctx.replay))["case"]] if not c.get("us")]
    else:
        inj = CORPUS_INJECT + [gen_inject(ctx.rng) for _ in range(ctx.n(40, 600))]
        cases = CORPUS + [gen_case(ctx.rng, False) for _ in range(ctx.n(500, 6000))] + [gen_case(ctx.rng, True) for _ in range(ctx.n(60, 1500))]
    ctx.cov["rule"] = ("plain phase: vectors of 0..500 elements (boundary sizes 0, 1, 2, workers-1, workers, workers+1) x 1..16 threads x "
                       "{posix, futex, busy_wait} x 1..4 successive apply() on one Parmap, some elements made slower (yield); injection "
                       "phase: 2..8 threads x 2..5 successive apply() on 1..3*threads elements of 0.5-4 ms each x the three modes (half "
                       "futex), SIGUSR1 (no SA_RESTART) sent every 50-400 us to the thread calling apply() and to the worker threads, "
                       "counters read when apply() returns; model side: a random schedule of 0..3000 events (thread steps, 30% of them "
                       "possibly spurious returns of a wait) then round-robin; non-trivial = at least 2 threads and one vector with >= 2 "
                       "elements; distinct = distinct (mode, threads, sizes, jitter[, element time, signal period])")
    dist = {"posix": 0, "futex": 0, "busy_wait": 0, "inject": 0, "plain": 0, "applies": 0, "elements": 0, "threads": {}}
    failed = False
    if inj:
        failed = phase(ctx, drv, inj, dist, "injection", ctx.n(900, 3600), 60)
    if cases and not (failed and ctx.tier == "quick"):
        phase(ctx, drv, cases, dist, "plain", ctx.n(1800, 5400), 120)
    ctx.cov["input_distribution"] = dist
    ctx.assumptions += [
        "sequentially consistent atomics: relaxed-memory reorderings (fetch_add uses memory_order_relaxed) are not modelled; a wait "
        "(futex, condition variable, yield loop) is 'load, test, block, and when the blocking call returns -- for any reason, at any "
        "time -- whatever the code does next'; lost wake-ups (a wait that never returns) are a liveness matter, outside the model",
        "the user function only touches its own element (the driver's also counts started elements); Parmap destruction and thread "
        "creation are not modelled",
        "the real schedules are whatever the OS produces on this machine (plus the injected signals); the theorem, not the runs, "
        "covers all interleavings",
    ]


META = {
    "level": "proof",
    "claimed": True,
    "text": "Coq theorem C49_each_once_per_round: in the small-step interleaving model of parmap.hpp (shared common_index with "
            "fetch_add, thread_counter, work_round; master and workers as program counters; one shared access, one function "
            "application or one return of a blocking wait per step), for every schedule -- any interleaving of thread steps AND of "
            "spurious returns of the blocking waits (master_wait/worker_wait are load+test, block, re-test as in the source, not atomic "
            "awaits; FUTEX_WAIT's EAGAIN and EINTR are events of the scheduler) --, any number of workers and any sequence of apply() "
            "calls, the multiset of indices processed by each completed apply() is exactly {0..n-1} (C49_counters_all_one: all "
            "per-element counters are 1); C49_round_barrier, C49_rounds_in_order and C49_spurious_wakeups_harmless cover repeated "
            "applies; C49_single_wait_refuted / _no_spurious / C49_round_barrier_single_(worker_)wait_refuted show that the theorems "
            "fail for a wait that is not re-checked (witness schedules = the replay shapes: EINTR with 2 threads, EAGAIN with 3). The "
            "real Parmap<T> is run with per-element atomic counters read when apply() returns, (1) with slow elements while a helper "
            "thread sends SIGUSR1 (handler without SA_RESTART) every 50-400 us to the caller of apply() and to the workers, 2..8 threads "
            "x {posix, futex, busy_wait}, (2) on 0..500 elements x 1..16 threads x the three modes x repeated applies; both are judged "
            "by the verified oracle and the extracted model under random schedules (with spurious events) must report the same.",
    "note": "Assumes sequentially consistent atomics (named in the evidence): weak-memory behaviours cannot be shown by this model; "
            "lost wake-ups are liveness and outside the theorems. The tie to the source is by observation only (counters, number of "
            "applies); a hang of the real Parmap is reported as a failure through the driver's per-case watchdog / timeout; after a "
            "violating apply() the driver stops without destroying the Parmap. Mutants: master_wait `if` instead of `while` (seed "
            "C49-a), worker_wait `if`, dropped `common_index = 0`, `index + 1 < length`, non-atomic fetch_add fire; seq_cst fetch_add "
            "and a `for`-loop master_wait stay quiet (corpus/C49/mutants.list).",
    "technique": "Coq proof (inductive invariant over an interleaving semantics with spurious wake-ups, multiset/permutation "
                 "reasoning, refutation witnesses by vm_compute) + runs of the real thread pool under signal injection judged by the "
                 "verified oracle + extracted-model correspondence",
}
