"""C16 — max-min and BMF allocations are fair.
O : the verified checkers bottleneck_b (maxmin: penalty*rate maximal on a saturated constraint, or at the bound) and bmf_b
    (bmf: penalty*weight*rate maximal on a saturated resource, or at the bound) run on every solve() of the real solvers.
K : the real MaxMin against the exact-rational progressive filling of theories/Lmm/Maxmin.v on every solved system (hence, on
    SHARED-only systems, against the max-min fair allocation computed exactly)."""
import json
import fw
import lmm_common as L
from fractions import Fraction as F
import C15

CORPUS = C15.CORPUS[4:] + [
    # three flows on two links (the classical max-min example), penalties 1
    [(L.NEWC, F(10), 1, -1), (L.NEWC, F(4), 1, -1), (L.NEWV, F(1), F(-1)), (L.NEWV, F(1), F(-1)), (L.NEWV, F(1), F(-1)),
     (L.EXPAND, 0, 0, F(1)), (L.EXPAND, 1, 0, F(1)), (L.EXPAND, 0, 1, F(1)), (L.EXPAND, 1, 2, F(1)), (L.SOLVE,)],
    [(L.NEWC, F(10), 1, -1), (L.NEWV, F(1), F(-1)), (L.NEWV, F(2), F(-1)), (L.NEWV, F(1), F(1)), (L.EXPAND, 0, 0, F(1)),
     (L.EXPAND, 0, 1, F(2)), (L.EXPAND, 0, 2, F(1, 2)), (L.SOLVE,), (L.VBOUND, 2, F(-1)), (L.SOLVE,)],
]


def run(ctx):
    ctx.simgrid(["simgrid"])
    ctx.level = "translation_validation"
    ctx.prove()
    drv = fw.build_harness("lmm_drv")
    if ctx.replay:
        rp = json.load(open(ctx.replay))["case"]
        hist, solvers = [L.ops_of_case(rp)], [rp.get("solver", "maxmin")]
    else:
        n = ctx.n(150, 3000)
        hist = list(CORPUS) + [L.gen_history(ctx.rng, nops=ctx.rng.choice([20, 40, 60]), maxc=ctx.rng.choice([2, 4, 12]),
                                             limits=(ctx.rng.random() < 0.2), fatpipe=(ctx.rng.random() < 0.5)) for _ in range(n)]
        solvers = ("maxmin", "bmf")
    ctx.cov["rule"] = ("same generator as C15 (capacities > 0; half of the histories SHARED-only); every solve() is one evaluation; "
                       "non-trivial = at least two enabled consuming variables share a constraint; distinct = distinct (solver, solved system)")
    stats = {s: {"solves": 0, "aborts": 0, "rejected": 0, "skipped_infeasible": 0} for s in ("maxmin", "bmf")}
    stats["model_compared"] = 0
    stats["shared_only_compared"] = 0
    for solver in solvers:
        runs = L.run_driver(drv, solver, True, hist)
        ocases, where = [], []
        for hi, (h, (segs, crash)) in enumerate(zip(hist, runs)):
            if crash is not None:
                if solver == "bmf" and crash == 1006 and len(segs) < len(h) and h[len(segs)][0] == L.SOLVE:
                    stats[solver]["aborts"] += 1          # "or the solver stops with an explicit error"
                else:
                    ctx.fail(solver + "-crash", "%s: status %s after: %s" % (solver, crash, L.show(h[:len(segs) + 1])), L.case_of(h[:len(segs) + 1], solver=solver))
            for i, s in enumerate(segs):
                if s.op == L.SOLVE:
                    ocases.append(L.snapshot_ints(s))
                    where.append((hi, i))
        ans = fw.run_model("lmm", "run_alloc_oracle", ocases) if ocases else []
        mcases, mwhere = [], []
        for (hi, i), a in zip(where, ans):
            s, h = runs[hi][0][i], hist[hi]
            stats[solver]["solves"] += 1
            nontriv = any(sum(1 for v, w in k["en"] if w > 0) >= 2 for k in s.cns)
            key = (solver, tuple((k["bound"], k["shared"], tuple(k["en"])) for k in s.cns), tuple((x["pen"], x["bound"]) for x in s.vars))
            ctx.case(key, nontriv, dict(C15.describe(s), solver=solver) if nontriv else None)
            if a[0] != 1:
                stats[solver]["skipped_infeasible"] += 1   # infeasible allocations are C15's business (recorded findings there)
                continue
            ok = a[1] == 1 if solver == "maxmin" else a[2] == 1
            if solver == "bmf" and not ok:
                # BMF measures shares with max_consumption_weight (sub-flows): a re-expanded element has a weight that differs
                # from it, the dump does not carry it -> such systems are not judged for bmf
                seen, multi = set(), set()
                for o in h[:i + 1]:
                    if o[0] == L.EXPAND:
                        (multi if (o[1], o[2]) in seen else seen).add((o[1], o[2]))
                if any((c, v) in multi for c, k in enumerate(s.cns) for v, w in k["en"]):
                    stats[solver]["skipped_subflows"] = stats[solver].get("skipped_subflows", 0) + 1
                    continue
            if not ok:
                stats[solver]["rejected"] += 1
                pens = any(x["alive"] and x["pen"] > 0 and x["pen"] != 1 for x in s.vars)
                fat = any((not k["shared"]) and k["en"] for k in s.cns)
                sig = "%s-not-bottleneck%s%s" % (solver, "-penalties" if (solver == "bmf" and pens) else "", "-fatpipe" if (solver == "bmf" and fat) else "")
                ctx.fail(sig, "%s: after solve() some consuming variable below its bound has no saturated constraint on which its penalty-weighted %s is "
                              "maximal: %s   [history: %s]" % (solver, "rate" if solver == "maxmin" else "share", C15.describe(s), L.show(h[:i + 1])),
                         L.case_of(h[:i + 1], solver=solver))
            if solver == "maxmin":
                mcases.append(L.snapshot_ints(s))
                mwhere.append((hi, i))
        if solver == "maxmin" and mcases:
            mv = fw.run_model("lmm", "run_maxmin", mcases)
            for (hi, i), a in zip(mwhere, mv):
                s, h = runs[hi][0][i], hist[hi]
                vals, done = L.model_values(a, len(s.vars))
                stats["model_compared"] += 1
                stats["shared_only_compared"] += all(k["shared"] for k in s.cns)
                if not done:
                    ctx.mismatch("K:C16 maxmin model fuel", "light table not empty after #variables+1 rounds", L.case_of(h[:i + 1], solver=solver))
                    continue
                for v, x in enumerate(s.vars):
                    iv = x["value"] if x["alive"] else F(0)
                    if abs(iv - vals[v]) > 4 * L.TOL * max(1, abs(vals[v])):
                        ctx.mismatch("K:C16 MaxMin vs exact progressive filling",
                                     "variable %d: implementation %.17g, exact %s on %s   [history: %s]" % (v, float(iv), vals[v], C15.describe(s), L.show(h[:i + 1])),
                                     L.case_of(h[:i + 1], solver=solver))
                        break
    ctx.cov["input_distribution"] = stats
    ctx.assumptions += ["tolerance 1e-5 relative for 'saturated', 'maximal' and 'at its bound'",
                        "an xbt_abort of the BMF solver is the explicit error allowed by the statement",
                        "allocations rejected by the C15 checker are not judged here"]


META = {
    "level": "translation_validation",
    "text": "Coq: the checkers bottleneck_b / bmf_b are sound for the bottleneck characterisations of the statement (C16_maxmin_oracle_sound_partial, "
            "C16_bmf_oracle_sound_partial). They run on every allocation of the real MaxMin / BmfSystem over random histories; the real MaxMin is also "
            "compared on every solved system with the exact-rational progressive filling of the Gallina model (the max-min fair allocation on SHARED-only "
            "systems). Not proved: that the Gallina model itself always satisfies the characterisation, and uniqueness on SHARED-only systems.",
    "note": "partial: the universal statement about the algorithm is carried by correspondence + verified per-output checker, not by a theorem about the model.",
    "technique": "verified allocation checker (Coq) on implementation outputs + exact-rational reference model correspondence",
    "claimed": True,
}
