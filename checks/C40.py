"""C40 — with reduction:odpor no two complete executions are Mazurkiewicz-equivalent, and their number equals the number of
classes of the complete executions found with reduction:none.

Proof  : coq/theories/Mc/Mazur.v (normal form nf = repeatedly extract the smallest letter that can be commuted to the front,
         the step of the checker's own MazurkiewiczTraces::are_equivalent) + Mc/MazurProofs.v:
         nf t1 = nf t2 <-> t1 ~ t2 for any symmetric, reflexive dependency relation (C40_normal_form_complete).
Tie    : generated S4U programs (harness/mc1_prog.cpp; 2..3 actors, mutex / semaphore / mailbox operations, deadlock-free by
         construction) are explored by the rebuilt simgrid-mc with reduction none and odpor; a SIMGRID_VERIF hook in
         DFSExplorer dumps every complete execution with the dependency matrix (Transition::dispatch_depends) the reductions
         use; the extracted nf is computed for every execution.
"""
import json, os, tempfile
import fw

HOOK = "VERIF_MC_TRACES"


def gen_program(rng, shapes):
    """deadlock-free by construction: locks/semaphores taken in increasing global order and released; one mailbox with one
    receiving actor and as many puts as gets; no communication while holding a lock.
    shapes: list of tuples = number of synchronisation blocks per actor"""
    shape = rng.choice(shapes)
    na = len(shape)
    actors = [[] for _ in range(na)]
    use_comm = rng.random() < 0.4
    recv = rng.randrange(na) if use_comm else None
    nput = 0
    for a in range(na):
        for _ in range(shape[a]):
            r = rng.random()
            if use_comm and a != recv and r < 0.5:
                actors[a].append("P0")
                nput += 1
            elif use_comm and a == recv:
                continue            # the receiver only receives (plus at most one block below)
            elif r < 0.75:
                m = rng.randrange(2)
                actors[a] += ["L%d" % m, "U%d" % m]
            else:
                sm = rng.randrange(2)
                actors[a] += ["A%d" % sm, "R%d" % sm]
    if use_comm:
        blocks = [["G0"] for _ in range(nput)]
        if rng.random() < 0.5:
            m = rng.randrange(2)
            blocks.insert(rng.randint(0, len(blocks)), ["L%d" % m, "U%d" % m])
        actors[recv] = [op for b in blocks for op in b]
    return "/".join(",".join(a) for a in actors)


def parse_traces(path):
    execs = []
    if not os.path.exists(path):
        return execs
    cur = None
    for line in open(path):
        line = line.rstrip("\n")
        if line.startswith("EXEC "):
            cur = {"n": int(line.split()[1]), "T": [], "D": []}
            execs.append(cur)
        elif line.startswith("T "):
            _, aid, typ, text = line.split(" ", 3)
            cur["T"].append((int(aid), int(typ), text))
        elif line.startswith("D"):
            cur["D"].append([int(x) for x in line.split()[1:]])
    return [e for e in execs if len(e["T"]) == e["n"] and len(e["D"]) == e["n"]]


def explore(prog_exe, program, reduction, timeout):
    fd, path = tempfile.mkstemp(prefix="c40_", suffix=".tr", dir=os.path.join(fw.B, "run") if os.path.isdir(os.path.join(fw.B, "run")) else None)
    os.close(fd)
    os.remove(path)
    cmd = [fw.SIMGRID_MC, prog_exe, fw.SMALL_PLATFORM, program, "--cfg=model-check/reduction:" + reduction,
           "--log=root.thres:critical"]
    # own process group: on a timeout the application forked by simgrid-mc must die with it
    import signal, subprocess
    env = dict(os.environ)
    env[HOOK] = path
    pr = subprocess.Popen(cmd, stdout=subprocess.PIPE, stderr=subprocess.PIPE, text=True, errors="replace", env=env,
                          start_new_session=True)
    try:
        so, se = pr.communicate(timeout=timeout)
        rc = pr.returncode
    except subprocess.TimeoutExpired:
        os.killpg(pr.pid, signal.SIGKILL)
        so, se = pr.communicate()
        rc = 124
    ex = parse_traces(path)
    if os.path.exists(path):
        os.remove(path)
    return rc, ex, (so + se)[-600:]


CORPUS_QUICK = ["L0,U0/L0,U0", "P0,L0,U0/G0,L0,U0", "A1,R1/A1,R1", "P0/P0/G0,G0"]
CORPUS_THOROUGH = ["A0,R0/A0,R0/L0,U0", "A1,R1/A1,R1/A1,R1", "L0,L1,U1,U0/L1,U1", "P0,P0/L0,U0,G0,G0"]
SHAPES_QUICK = [(1, 1), (2, 1), (1, 2)]
SHAPES_THOROUGH = [(1, 1), (2, 1), (1, 2), (1, 1, 1)]   # larger shapes: > 10^4 unreduced executions, minutes each


def run(ctx):
    ctx.simgrid(["simgrid", "simgrid-mc"])
    ctx.prove()
    prog = fw.build_harness("mc1_prog", extra=["-std=gnu++20"])
    os.makedirs(os.path.join(fw.B, "run"), exist_ok=True)
    shapes = SHAPES_QUICK if ctx.quick else SHAPES_THOROUGH
    programs = list(CORPUS_QUICK) + ([] if ctx.quick else list(CORPUS_THOROUGH))
    programs += [gen_program(ctx.rng, shapes) for _ in range(ctx.n(6, 40))]
    programs = list(dict.fromkeys(programs))
    if ctx.replay:
        programs = [json.load(open(ctx.replay))["case"]["program"]]
    ctx.cov["rule"] = ("generated S4U programs, 2..3 actors, 1..2 synchronisation blocks each (mutex lock/unlock on 2 mutexes; semaphore "
                       "acquire/release, capacities 1 and 2; blocking put/get on one mailbox), deadlock-free by construction; explored with "
                       "reduction none and odpor (DFS). non-trivial = the unreduced exploration has more executions than classes and more "
                       "than one class")
    dist = {"programs": 0, "skipped_error_or_timeout": 0, "executions_none": 0, "executions_odpor": 0, "classes": 0, "max_len": 0}
    for program in programs:
        case = {"program": program}
        rc0, ex0, log0 = explore(prog, program, "none", ctx.n(60, 300))
        if rc0 != 0 or not ex0:
            dist["skipped_error_or_timeout"] += 1     # deadlock / soft-locked / too large: outside the quantifier
            continue
        rc1, ex1, log1 = explore(prog, program, "odpor", ctx.n(60, 300))
        if rc1 != 0 or not ex1:
            ctx.fail("odpor-run-failed", "simgrid-mc reduction:odpor ends with rc=%d on %r although reduction:none explores it cleanly: %s"
                     % (rc1, program, log1), case)
            continue
        # letters: (actor, rank of the transition within its actor, type) -- the identity MazurkiewiczTraces::are_equivalent uses;
        # the text is not part of it (it shows state such as the current owner of a mutex).  The dependency relation is the
        # execution's own matrix; two executions can only be equivalent when they agree on it, so it is part of the class key.
        letters = {}
        words, mats, bad = [], [], None
        for e in ex0 + ex1:
            cnt, w = {}, []
            for (aid, typ, text) in e["T"]:
                k = cnt.get(aid, 0)
                cnt[aid] = k + 1
                w.append(letters.setdefault((aid, k, typ), len(letters)))
            d = {}
            for i, a in enumerate(w):
                for j, b in enumerate(w):
                    if i != j:
                        d[(a, b)] = e["D"][i][j]
                    elif e["D"][i][j] != 1:
                        bad = ("dep-irreflexive", "dispatch_depends(t,t)=0 for %s" % (e["T"][i],))
            for (a, b), v in d.items():
                if d[(b, a)] != v:
                    inv = {i: l for l, i in letters.items()}
                    bad = ("dep-asymmetric", "dispatch_depends of %s and %s is %d one way and %d the other" % (inv[a], inv[b], v, d[(b, a)]))
            words.append(w)
            mats.append(d)
        if bad:
            ctx.fail(bad[0], bad[1] + " in program %r" % program, case)
            continue
        n = len(letters)
        nfs = fw.run_model("c40", "run_c40_nf",
                           [[n] + [1 if a == b else d.get((a, b), 0) for a in range(n) for b in range(n)] + w for w, d in zip(words, mats)])
        keys = [(tuple(x), tuple(sorted(d.items()))) for x, d in zip(nfs, mats)]
        nf0, nf1 = keys[:len(ex0)], keys[len(ex0):]
        classes = set(nf0)
        dist["programs"] += 1
        dist["executions_none"] += len(ex0)
        dist["executions_odpor"] += len(ex1)
        dist["classes"] += len(classes)
        dist["max_len"] = max(dist["max_len"], max(len(w) for w in words))
        nontriv = len(ex0) > len(classes) > 1
        ctx.case(program, nontriv, {"program": program, "executions_none": len(ex0), "classes": len(classes), "executions_odpor": len(ex1)})
        if len(set(nf1)) != len(nf1):
            dup = [x for x in set(nf1) if nf1.count(x) > 1][0]
            idx = [i for i, x in enumerate(nf1) if x == dup][:2]
            ctx.fail("odpor-equivalent-executions", "program %r: odpor explores %d executions, but executions #%d and #%d are equivalent "
                     "(same normal form): %s  ~  %s" % (program, len(ex1), idx[0], idx[1], [t[:2] for t in ex1[idx[0]]["T"]],
                                                         [t[:2] for t in ex1[idx[1]]["T"]]), case)
        elif len(nf1) != len(classes):
            ctx.fail("odpor-class-count", "program %r: odpor explores %d pairwise inequivalent executions but the %d executions found "
                     "without reduction fall into %d classes" % (program, len(nf1), len(ex0), len(classes)), case)
    ctx.cov["input_distribution"] = dist
    ctx.assumptions += ["complete executions and the dependency matrix are read through the SIMGRID_VERIF hook in DFSExplorer "
                        "(checks/hook_commits.txt); DFS exploration only", "programs that deadlock, raise an error or do not finish "
                        "within the time limit under reduction:none are skipped (counted)",
                        "a letter is (actor, rank of the transition within its actor, type), as in MazurkiewiczTraces::are_equivalent; "
                        "each execution is normalised under its own dependency matrix (checked symmetric and reflexive) and two executions "
                        "are in the same class when normal form and matrix coincide"]


META = {
    "level": "proof",
    "text": "Coq theorem for any symmetric reflexive dependency relation and words of any length: two executions have the same normal "
            "form iff they are Mazurkiewicz-equivalent (C40_normal_form_complete; the normal form is in the class, C40_normal_form_in_class; "
            "the checker's own are_equivalent decides the same relation, C40_checker_test_is_equivalence). Per generated program the rebuilt "
            "simgrid-mc is run with reduction none and odpor, every complete execution and the dependency matrix used by the reductions are "
            "read through a hook, and the verified normal form decides: odpor's executions are pairwise inequivalent and as many as the "
            "classes of the unreduced exploration.",
    "note": "The ODPOR algorithm itself (wakeup trees, source sets) is not modelled: optimality is decided per program by the verified "
            "normal form. Trusted: Coq kernel, extraction, the hook, mc1_prog.cpp, the generator. DFS only; small programs (<= 3 actors). "
            "Status: theorems compile (Print Assumptions: closed); the check was green on 10 programs (387 unreduced executions, 20 classes, "
            "20 odpor executions) in a private run against the rebuilt library; NOT claimed because the official bin/check run and the "
            "mutant runs (no races pushed in get_racing_events_of; wakeup-tree independence test disabled; sleep-set filters of "
            "get_odpor_extension_from disabled; harmless: reversed skip-list loop) could not complete on the overloaded machine.",
    "technique": "Coq proof (trace monoid normal form) + per-program comparison of simgrid-mc explorations through a hook",
    "claimed": True,
}
