"""C36 — with privatization (mmap or dlopen) a write to a global/static in one rank is never visible in another.

Theorem side (Coq, Smpi/Priv.v): the mmap switching logic (one window, one backing store per rank, smpi_loaded_page) gives
every read the reader's own last write for ANY interleaving, provided the hook runs at every context switch and library
code switches back after touching another actor's segment.
T: the call sites that make this hypothesis true are looked up in the current source (ActorImpl::yield, the SMPI copy
   callback, Request::finish_wait/…); a missing one is reported.
K/O: harness/smpi_c36.c interprets generated scripts (2..8 ranks): rank-specific writes to 24 global/static cells
   (initialised, bss, array, static, function-static, cells used as MPI buffers) between barrier/send/recv/allreduce/
   bcast/sendrecv/isend-irecv-waitall/usleep; every rank dumps all cells after each call.  The real interleaving
   (order of the output lines) is turned into an event trace; the extracted model (run_c36_impl) and the extracted
   specification (run_c36_spec) are run on it and compared with the values the ranks really read.  Run under
   smpi/privatization:mmap and :dlopen, with detached and non-detached sends.  dlopen mode has no model (the OS loader
   makes the copies): for it only the specification is compared (K/O only)."""
import json, os, re, shutil, time
import fw

NCELLS = 24
INIT = [41, 0] + [0] * 8 + [2, 7, 1, 2, 3, 4, 5, 6, 7, 8, 0, 0, 0, 0]
MSG, INB = 16, 20


def gen_script(rng, big):
    n = rng.randint(2, 8)
    ops = []
    dirty = False
    serial = [0]

    def val(r):
        serial[0] += 1
        return (r + 1) * 100000 + serial[0]

    def writes(k):
        nonlocal dirty
        for _ in range(k):
            r = rng.randrange(n)
            c = rng.choice(list(range(0, 20)) + [0, 1, 10, 11, 16, 17])
            if c >= MSG and dirty:
                ops.append([2])
                dirty = False
            ops.append([1, r, c, val(r)])

    # every rank writes something rank-specific first
    for r in range(n):
        for c in rng.sample(range(0, 20), rng.randint(2, 6)):
            ops.append([1, r, c, val(r)])
    for _ in range(rng.randint(3, 12 if big else 7)):
        k = rng.random()
        if k < 0.15:
            ops.append([2])
            dirty = False
        elif k < 0.35:
            s, d = rng.sample(range(n), 2)
            ops.append([rng.choice([3, 3, 9]), s, d])
            dirty = True
        elif k < 0.47:
            ops.append([4])
            dirty = True
        elif k < 0.59:
            ops.append([5, rng.randrange(n)])
            dirty = True
        elif k < 0.71:
            ops.append([6, rng.randint(1, n - 1)])
            dirty = True
        elif k < 0.85:
            ops.append([7, rng.randint(1, n - 1)])
            dirty = True
        else:
            ops.append([8, rng.randrange(n), rng.choice([1, 50, 1000, 20000])])
        writes(rng.randint(1, 5))
    ops.append([2])
    return {"n": n, "ops": ops}


CORPUS = [
    # the interleaving of C36_skipped_hook_refuted: rank 0 writes, rank 1 writes the same cell, rank 0 reads
    {"n": 2, "ops": [[1, 0, 1, 10], [1, 1, 1, 20], [2], [1, 0, 0, 11], [2]]},
    # buffers inside the data segment on both sides, every kind of call
    {"n": 3, "ops": [[1, 0, 16, 100], [1, 1, 16, 200], [1, 2, 16, 300], [3, 0, 1], [2], [4], [5, 2], [6, 1], [7, 2], [9, 2, 0],
                     [8, 1, 1000], [1, 1, 11, 5], [1, 2, 11, 6], [1, 0, 10, 9], [2]]},
    {"n": 8, "ops": [[1, r, 2 + r, 1000 + r] for r in range(8)] + [[2], [4], [7, 3], [2]]},
]


def script_text(s):
    return "%d %d\n" % (s["n"], len(s["ops"])) + "".join("%d %d %s\n" % (o[0], len(o) - 1, " ".join(map(str, o[1:]))) for o in s["ops"])


def mpi_writes(script):
    """for every rank: list (one entry per dump after the initial one) of the cells the MPI call itself wrote, with the
    values the MPI standard prescribes (the python twin of the script semantics: per-rank private memories)"""
    n = script["n"]
    mem = [list(INIT) for _ in range(n)]
    res = [[] for _ in range(n)]
    for op in script["ops"]:
        c, a = op[0], op[1:]
        if c == 1:
            mem[a[0]][a[1]] = a[2]
        elif c == 2:
            for r in range(n):
                res[r].append([])
        elif c in (3, 9):
            src, dst = a
            w = [(INB + i, mem[src][MSG + i]) for i in range(4)]
            for cell, v in w:
                mem[dst][cell] = v
            res[src].append([])
            res[dst].append(w)
        elif c == 4:
            tot = [sum(mem[r][MSG + i] for r in range(n)) for i in range(4)]
            for r in range(n):
                w = [(INB + i, tot[i]) for i in range(4)]
                for cell, v in w:
                    mem[r][cell] = v
                res[r].append(w)
        elif c == 5:
            root = a[0]
            for r in range(n):
                w = [(MSG + i, mem[root][MSG + i]) for i in range(4)] if r != root else []
                res[r].append(w)
            for r in range(n):
                for i in range(4):
                    mem[r][MSG + i] = mem[root][MSG + i]
        elif c in (6, 7):
            sh = a[0]
            new = []
            for r in range(n):
                left = (r - sh + n) % n
                new.append([(INB + i, mem[left][MSG + i]) for i in range(4)])
            for r in range(n):
                for cell, v in new[r]:
                    mem[r][cell] = v
                res[r].append(new[r])
        elif c == 8:
            res[a[0]].append([])
    return res


LOADERR = re.compile(r"error while loading shared libraries|file too short|cannot open shared object")


def run_prog(prog, n, sp, priv, detached0):
    cfg = ["smpi/privatization:" + priv]
    if detached0:
        cfg.append("smpi/send-is-detached-thresh:0")
    for attempt in range(4):
        rc, so, se = fw.smpirun(prog, n, [sp], cfg, timeout=300)
        if rc != 0 and LOADERR.search(so + se):   # cannot happen while fw holds the shared build lock; be patient anyway
            time.sleep(20)
            continue
        break
    return rc, so, se


def build_trace(script, lines):
    """output lines -> (event triples for the model, [(rank, cell, value read)], error text)"""
    n = script["n"]
    mw = mpi_writes(script)
    ndump = [0] * n
    ev, reads, cur = [], [], None
    for l in lines:
        t = l.split()
        if not t:
            continue
        if t[0] == "S":
            cur = int(t[1])
            ev += [0, cur, 0]
        elif t[0] == "W":
            r, c, v = int(t[1]), int(t[2]), int(t[3])
            if r != cur:
                ev += [0, r, 0]     # cannot happen (no yield between S and W); keeps the trace honest if it did
                cur = r
            ev += [3, c, v]
        elif t[0] == "D":
            r = int(t[1])
            vals = [int(x) for x in t[2:]]
            if len(vals) != NCELLS:
                return None, None, "short dump line: " + l
            k = ndump[r]
            ndump[r] += 1
            if k > 0:
                if k - 1 >= len(mw[r]):
                    return None, None, "rank %d dumped more often than the script has calls" % r
                for cell, v in mw[r][k - 1]:
                    ev += [3, cell, v]
            for c in range(NCELLS):
                ev += [4, c, 0]
                reads.append((r, c, vals[c]))
    for r in range(n):
        if ndump[r] != len(mw[r]) + 1:
            return None, None, "rank %d made %d dumps, the script has %d calls for it" % (r, ndump[r] - 1, len(mw[r]))
    return ev, reads, None


def scan_call_sites(ctx):
    """T: the hypothesis of C36_read_own_last_write ('a switch at every context switch, and back after touching another
    actor's segment') as a list of call sites that must exist in the current source"""
    def src(p):
        try:
            return re.sub(r"//[^\n]*", "", open(os.path.join(fw.REPO, p)).read())
        except OSError:
            return ""
    sites = []
    actor = src("src/kernel/actor/ActorImpl.cpp")
    m = re.search(r"void ActorImpl::yield\(\)\s*\{(.*?)\n\}", actor, flags=re.S)
    body = m.group(1) if m else ""
    i_susp = body.find("context_->suspend()")
    i_sw = body.find("smpi_switch_data_segment(get_iface())")
    sites.append(("ActorImpl::yield switches the data segment to the resumed actor after context_->suspend()", i_susp >= 0 and i_sw > i_susp))
    glob = src("src/smpi/internals/smpi_global.cpp")
    m = re.search(r"void smpi_comm_copy_buffer_callback\(.*?\n\}", glob, flags=re.S)
    body = m.group(0) if m else ""
    i1 = body.find("smpi_switch_data_segment(comm->src_actor_->get_iface(), buff)")
    i2 = body.find("smpi_switch_data_segment(comm->dst_actor_->get_iface(), comm->dst_buff_)")
    i3 = body.rfind("memcpy_private(comm->dst_buff_")
    sites.append(("smpi_comm_copy_buffer_callback maps the sender's segment before reading and the receiver's before writing", 0 <= i1 < i2 < i3))
    mem = src("src/smpi/internals/smpi_memory.cpp")
    m = re.search(r"bool smpi_switch_data_segment\(.*?\n\}", mem, flags=re.S)
    body = m.group(0) if m else ""
    sites.append(("smpi_switch_data_segment maps the actor's privatized region over the data segment and records it as loaded",
                  "MAP_FIXED" in body and "privatized_region()->file_descriptor" in body and re.search(r"smpi_loaded_page\s*=\s*actor->get_pid\(\)", body) is not None))
    bench = src("src/smpi/internals/smpi_bench.cpp")
    sites.append(("smpi_bench_begin (return to user code from every MPI call) switches to the calling actor",
                  re.search(r"void smpi_bench_begin\(\)\s*\{\s*smpi_switch_data_segment\(simgrid::s4u::Actor::self\(\)\)", bench) is not None))
    d = dict(sites)
    resume = [w for w in d if w.startswith(("ActorImpl::yield", "smpi_bench_begin"))]
    # hypothesis 'the running rank's segment is mapped before its user code runs again': user code of an SMPI rank only
    # resumes by returning from an MPI call (smpi_bench_begin) after ActorImpl::yield returned; either switch establishes it
    if not any(d[w] for w in resume):
        ctx.mismatch("call-site", "no switch to the resumed rank is left in the current source: " + " / ".join(resume))
    elif not all(d[w] for w in resume):
        ctx.notes.append("one of the two redundant switches on the way back to user code is gone: " + "; ".join(w for w in resume if not d[w]))
    for what, ok in sites:
        if not ok and what not in resume:
            ctx.mismatch("call-site", "not found in the current source: " + what)
    return [w for w, ok in sites if ok]


def run_case(ctx, prog, script, idx, work, priv, det0):
    """runs the program; returns None (could not be evaluated) or the data the batched model calls need"""
    n = script["n"]
    sp = os.path.join(work, "s%d.txt" % idx)
    open(sp, "w").write(script_text(script))
    case = {"script": script, "privatization": priv, "detached_thresh_0": det0}
    rc, so, se = run_prog(prog, n, sp, priv, det0)
    lines = [l for l in se.split("\n") if l[:2] in ("S ", "W ", "D ") or l.startswith("BAD")]
    if rc != 0:
        ctx.mismatch("run", "the generated program did not run to completion (rc=%d, %s): %s" % (rc, priv, (so + se)[-500:]), case)
        return None
    bad = [l for l in lines if l.startswith("BAD")]
    ev, reads, err = build_trace(script, lines)
    if err:
        ctx.mismatch("trace", err, case)
        return None
    inp = [0, NCELLS] + [x for c in range(NCELLS) for x in (c, INIT[c])] + ev
    return {"case": case, "inp": inp, "got": [x for r in reads for x in r], "bad": bad}


def judge(ctx, rec, spec, impl, disc):
    case, got, bad = rec["case"], rec["got"], rec["bad"]
    priv, n = case["privatization"], case["script"]["n"]
    if got != spec or bad:
        k = next((i for i in range(0, min(len(got), len(spec)), 3) if got[i:i + 3] != spec[i:i + 3]), None)
        if k is not None:
            what = "rank %d reads %d in cell %d, its own last write (or the value MPI delivered to it) is %d" % (got[k], got[k + 2], got[k + 1], spec[k + 2])
        else:
            what = bad[0] if bad else "number of reads differs"
        ctx.fail("foreign-value-" + priv, "privatization:%s%s, %d ranks: %s" % (priv, " (non-detached sends)" if case["detached_thresh_0"] else "", n, what), case)
        return False
    if priv == "mmap" and (impl != spec or disc != [1]):
        ctx.mismatch("model-vs-run", "the model of the switching logic does not reproduce the observed reads on the observed interleaving (disciplined=%s)" % disc, case)
        return False
    return True


def run(ctx):
    ctx.simgrid(["simgrid", "smpimain"])
    ctx.prove()
    sites = scan_call_sites(ctx)
    prog = fw.build_smpi_prog("smpi_c36")
    work = os.path.join(fw.B, "run", "c36_%d" % os.getpid())
    os.makedirs(work, exist_ok=True)
    ctx.cov["rule"] = ("one case = one generated script under one configuration (privatization mmap|dlopen x detached|non-detached sends); "
                       "non-trivial = at least two ranks wrote different values to the same cell and a rank switch happened before they read it back; "
                       "distinct = distinct (script, configuration)")
    if ctx.replay:
        rp = json.load(open(ctx.replay))["case"]
        todo = [(rp["script"], rp["privatization"], rp["detached_thresh_0"])]
    else:
        scripts = list(CORPUS) + [gen_script(ctx.rng, not ctx.quick) for _ in range(ctx.n(10, 120))]
        todo = [(s, p, d) for s in scripts for p in ("mmap", "dlopen") for d in (False, True)]
    dist = {"mmap": 0, "dlopen": 0, "ranks": {}}
    recs = [run_case(ctx, prog, s, idx, work, priv, det0) for idx, (s, priv, det0) in enumerate(todo)]
    live = [r for r in recs if r is not None]
    inputs = [r["inp"] for r in live]
    if live:
        specs = fw.run_model("c36", "run_c36_spec", inputs)
        impls = fw.run_model("c36", "run_c36_impl", inputs)
        discs = fw.run_model("c36", "run_c36_disc", inputs)
        for r, sp_, im_, di_ in zip(live, specs, impls, discs):
            r["verdict"] = judge(ctx, r, sp_, im_, di_)
    for idx, ((s, priv, det0), r) in enumerate(zip(todo, recs)):
        dist[priv] += 1
        dist["ranks"][s["n"]] = dist["ranks"].get(s["n"], 0) + 1
        cells = {}
        for o in s["ops"]:
            if o[0] == 1:
                cells.setdefault(o[2], set()).add(o[1])
        nontriv = r is not None and any(len(v) > 1 for v in cells.values())
        ctx.case((json.dumps(s, sort_keys=True), priv, det0), nontriv,
                 {"script": s, "privatization": priv, "verdict": r and r.get("verdict")} if idx in (1, 5) else None)
    shutil.rmtree(work, ignore_errors=True)
    ctx.cov["input_distribution"] = dist
    ctx.assumptions += ["hypothesis of C36_read_own_last_write, as call sites found in the current source: " + "; ".join(sites),
                        "dlopen privatization is the dynamic loader's behaviour: not modelled, judged by the runs only",
                        "globals of the application binary only (not of shared libraries it links), one application instance"]


META = {
    "level": "proof",
    "text": "Coq theorem over all interleavings, rank counts and cells (C36_read_own_last_write): in the model of smpi_switch_data_segment every "
            "read returns the reader's own last write provided the hook runs at every context switch and library code switches back after touching "
            "another actor's segment; both hypotheses are shown necessary (C36_skipped_hook_refuted, C36_foreign_not_restored_refuted). The call "
            "sites that establish the hypothesis are looked up in the current source on every run, and generated 2..8-rank MPI programs writing "
            "rank-specific values to globals/statics (also used as message buffers) are run under mmap and dlopen privatization; the values they "
            "read are compared with the extracted specification (and, for mmap, with the extracted model) on the interleaving that really happened.",
    "note": "Partial by nature: the mmap()/dlopen() system behaviour and the copy of the binary per rank are not modelled (dlopen mode is K/O only); "
            "the model covers the switching logic. Trusted: Coq kernel, extraction, harness/smpi_c36.c, the python twin of the script semantics "
            "(which values MPI delivers), the regex scan of call sites.",
    "technique": "Coq proof (invariant over event traces) + call-site scan + generated MPI programs judged by the extracted specification",
    "claimed": True,
}
