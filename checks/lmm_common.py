"""Shared by checks/C15.py .. C18.py: history generator, encoder, parser of harness/lmm_drv.cpp dumps (exact rationals)."""
from fractions import Fraction as F
import fw

NEWC, NEWV, EXPAND, PEN, VBOUND, CBOUND, FREE, SOLVE = range(8)
OPNAMES = ["constraint_new", "variable_new", "expand", "update_variable_penalty", "update_variable_bound",
           "update_constraint_bound", "variable_free", "solve"]

_cache = {}


def fr(tok):
    """a %.17g double -> the exact rational it denotes"""
    r = _cache.get(tok)
    if r is None:
        r = F(*float(tok).as_integer_ratio())
        if len(_cache) < 200000:
            _cache[tok] = r
    return r


def rate(tok):
    """a solved rate: |v| <= 1e-12 is the 0 the solver meant (cancellation noise such as -7e-17 or 1.9e-17 left by the
    BMF linear algebra; seven orders of magnitude below precision/work-amount = 1e-5, and every generated capacity,
    bound and weight is >= 1/64): the property holds up to the configured precision"""
    r = fr(tok)
    return F(0) if abs(r) <= F(1, 10 ** 12) else r


def q(x):
    x = F(x)
    return [x.numerator, x.denominator]


def encode(ops):
    """ops: tuples (NEWC, bound, policy, limit) (NEWV, pen, bound) (EXPAND, c, v, w) (PEN, v, p) (VBOUND, v, b)
    (CBOUND, c, b) (FREE, v) (SOLVE,)"""
    out = []
    for o in ops:
        k = o[0]
        if k == NEWC:
            out += [0] + q(o[1]) + [o[2], o[3]]
        elif k == NEWV:
            out += [1] + q(o[1]) + q(o[2])
        elif k == EXPAND:
            out += [2, o[1], o[2]] + q(o[3])
        elif k == PEN:
            out += [3, o[1]] + q(o[2])
        elif k == VBOUND:
            out += [4, o[1]] + q(o[2])
        elif k == CBOUND:
            out += [5, o[1]] + q(o[2])
        elif k == FREE:
            out += [6, o[1]]
        else:
            out += [7]
    return out


def show(ops):
    return "; ".join("%s(%s)" % (OPNAMES[o[0]], ", ".join(str(x) for x in o[1:])) for o in ops)


WEIGHTS = [F(1), F(1), F(1), F(2), F(3, 2), F(1, 2), F(1, 4), F(1, 16), F(3)]
PENS = [F(1), F(1), F(2), F(1, 2), F(4), F(3)]
CAPS = [F(1), F(2), F(8), F(10), F(16), F(64), F(5, 2), F(100)]
VBOUNDS = [F(-1), F(-1), F(-1), F(1), F(1, 2), F(3), F(8), F(1, 4)]


def gen_history(rng, nops=60, maxc=12, maxv=20, limits=True, fatpipe=True, zero_cap=0.0, zero_w=0.05, suspend=0.12,
                bounds=True, solve_p=0.2):
    """random history of modifications; every SOLVE is an observation point. All numbers are small dyadic rationals."""
    ops = []
    nc = rng.randint(1, maxc)
    pols = []
    for _ in range(nc):
        cap = rng.choice(CAPS) if rng.random() >= zero_cap else F(0)
        pol = 0 if (fatpipe and rng.random() < 0.25) else 1
        lim = rng.choice([1, 1, 2, 2, 3, 4, -1]) if limits else -1
        ops.append((NEWC, cap, pol, lim))
        pols.append(pol)
    alive, on = [], {}
    nv = 0
    budget = nops

    def new_var():
        nonlocal nv, budget
        pen = rng.choice(PENS) if rng.random() > 0.08 else F(0)
        b = rng.choice(VBOUNDS) if bounds else F(-1)
        ops.append((NEWV, pen, b))
        v = nv
        nv += 1
        alive.append(v)
        on[v] = set()
        for c in rng.sample(range(nc), min(nc, rng.choice([1, 1, 2, 2, 3, 4]))):
            w = rng.choice(WEIGHTS) if rng.random() >= zero_w else F(0)
            ops.append((EXPAND, c, v, w))
            on[v].add(c)
            budget -= 1
        budget -= 1

    for _ in range(rng.randint(1, 4)):
        if nv < maxv:
            new_var()
    while budget > 0:
        r = rng.random()
        budget -= 1
        if r < solve_p:
            ops.append((SOLVE,))
        elif r < solve_p + 0.22 and nv < maxv:
            new_var()
        elif not alive:
            continue
        elif r < solve_p + 0.22 + suspend:
            ops.append((PEN, rng.choice(alive), F(0)))
        elif r < solve_p + 0.22 + 2 * suspend + 0.04:
            ops.append((PEN, rng.choice(alive), rng.choice(PENS)))
        elif r < 0.78:
            v = rng.choice(alive)
            ops.append((FREE, v))
            alive.remove(v)
        elif r < 0.84:
            v = rng.choice(alive)
            if len(on[v]) < 12:
                c = rng.randrange(nc)
                ops.append((EXPAND, c, v, rng.choice(WEIGHTS)))
                on[v].add(c)
        elif r < 0.92 and bounds:
            ops.append((VBOUND, rng.choice(alive), rng.choice(VBOUNDS)))
        else:
            ops.append((CBOUND, rng.randrange(nc), rng.choice(CAPS) if rng.random() >= zero_cap else F(0)))
    ops.append((SOLVE,))
    return ops


def wants_after(ops):
    """requested penalty of every variable after each op (None once freed)"""
    res, cur = [], []
    for o in ops:
        if o[0] == NEWV:
            cur.append(o[1])
        elif o[0] == PEN and cur[o[1]] is not None:
            cur[o[1]] = o[2]
        elif o[0] == FREE:
            cur[o[1]] = None
        res.append(list(cur))
    return res


class Seg:
    __slots__ = ("op", "cns", "vars")


def parse_line(line):
    """-> (segments, crash) ; a segment has .op, .cns = [dict(limit,cur,bound,shared,en=[(v,w)],dis=[(v,w)])],
    .vars = [dict(alive,pen,staged,bound,value,elems=[(c,w)])]"""
    segs, crash = [], None
    for part in line.split("|")[1:]:
        t = part.split()
        if not t:
            continue
        if t[0] == "CRASH":
            crash = int(t[1])
            break
        if t[0] == "BADOP":
            crash = -1
            break
        s = Seg()
        s.op = int(t[0])
        nc, nv = int(t[1]), int(t[2])
        i = 3
        s.cns, s.vars = [], []
        for _ in range(nc):
            k = {"limit": int(t[i]), "cur": int(t[i + 1]), "bound": fr(t[i + 2]), "shared": t[i + 3] != "0"}
            i += 4
            for key in ("en", "dis"):
                n = int(t[i])
                i += 1
                k[key] = [(int(t[i + 2 * j]), fr(t[i + 2 * j + 1])) for j in range(n)]
                i += 2 * n
            s.cns.append(k)
        for _ in range(nv):
            x = {"alive": t[i] != "0", "pen": fr(t[i + 1]), "staged": fr(t[i + 2]), "bound": fr(t[i + 3]), "value": rate(t[i + 4])}
            n = int(t[i + 5])
            i += 6
            x["elems"] = [(int(t[i + 2 * j]), fr(t[i + 2 * j + 1])) for j in range(n)]
            i += 2 * n
            s.vars.append(x)
        segs.append(s)
    return segs, crash


def run_driver(exe, solver, selective, histories, vinit=None, timeout=1800):
    args = [solver, "1" if selective else "0"] + ([str(vinit)] if vinit is not None else [])
    rc, out, err = fw.run_lines(exe, args, [" ".join(map(str, encode(h))) for h in histories], timeout=timeout)
    if rc != 0 or len(out) != len(histories):
        raise fw.BuildError("lmm_drv %s ended with rc=%d after %d/%d histories: %s" % (solver, rc, len(out), len(histories), err[-400:]))
    return [parse_line(l) for l in out]


def elems_ints(es):
    r = [len(es)]
    for (a, w) in es:
        r += [a, w.numerator, w.denominator]
    return r


def c18_oracle_ints(seg, wants):
    r = [len(seg.cns), len(seg.vars)]
    for k in seg.cns:
        r += [k["limit"], k["cur"]] + elems_ints(k["en"]) + elems_ints(k["dis"])
    for v, x in enumerate(seg.vars):
        w = wants[v] if v < len(wants) and wants[v] is not None else F(0)
        r += [1 if x["alive"] else 0] + q(x["pen"]) + q(x["staged"]) + q(w) + elems_ints(x["elems"])
    return r


def case_of(ops, **kw):
    d = {"ops": [[o[0]] + [str(x) for x in o[1:]] for o in ops], "text": show(ops)}
    d.update(kw)
    return d


def ops_of_case(case):
    res = []
    for o in case["ops"]:
        k = int(o[0])
        if k == NEWC:
            res.append((k, F(o[1]), int(o[2]), int(o[3])))
        elif k in (NEWV,):
            res.append((k, F(o[1]), F(o[2])))
        elif k == EXPAND:
            res.append((k, int(o[1]), int(o[2]), F(o[3])))
        elif k in (PEN, VBOUND, CBOUND):
            res.append((k, int(o[1]), F(o[2])))
        elif k == FREE:
            res.append((k, int(o[1])))
        else:
            res.append((k,))
    return res


TOL = F(1, 100000)      # precision/work-amount (relative), as System::print() itself checks


def snapshot_ints(seg, tol=TOL, wants=None):
    """encoding for run_alloc_oracle / run_maxmin: enabled elements only; penalty masked to 0 when the requested
    penalty is 0 (wants given) so that the oracle's 'disabled => value 0' clause also covers suspended variables"""
    r = q(tol) + [len(seg.cns), len(seg.vars)]
    for k in seg.cns:
        r += q(k["bound"]) + [1 if k["shared"] else 0] + elems_ints(k["en"])
    for v, x in enumerate(seg.vars):
        pen = x["pen"] if x["alive"] else F(0)
        if wants is not None and (v >= len(wants) or wants[v] is None or wants[v] <= 0):
            pen = F(0)
        r += q(pen) + q(x["bound"] if x["alive"] else F(-1)) + q(x["value"] if x["alive"] else F(0))
    return r


def model_values(ans, nv):
    vals = [F(ans[2 * i], ans[2 * i + 1]) for i in range(nv)]
    return vals, ans[2 * nv] == 1
