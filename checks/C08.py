"""C08 — Mailbox communications are exactly-once, FIFO and intact.

Proof: Coq theorems over all histories of one mailbox (coq/theories/Kernel/Mailbox.v, MailboxProofs.v, Props/Properties_C08.v).
Tie (K): harness/k2_comm.cpp interprets generated S4U programs on the rebuilt libsimgrid and logs every request in the
  order the kernel handles it plus what every receive obtained; the *observed request sequence* of each mailbox is
  replayed through the extracted step function (run_c08) and every observed pairing must be the model's.
Oracle (O): the extracted, verified decision procedure (run_c08_oracle: exactly-once/intact, oldest-accepted-first,
  nothing acceptable left unpaired) runs on the implementation log itself, always."""
import json
import fw

HARNESS_FLAGS = ["-std=gnu++20", "-fno-access-control"]
K_SLEEP, K_PUT, K_PUT_ASYNC, K_PUT_DET, K_GET, K_GET_ASYNC, K_WAIT_ALL, K_SETRECV, K_WAIT_OLDEST, K_IPROBE = range(10)
K_MQ_PUT, K_MQ_PUT_ASYNC, K_MQ_PUT_DET, K_MQ_GET, K_MQ_GET_ASYNC = 11, 12, 13, 14, 15
SIG_KNOWN = "set-receiver-with-pending-send"


# ------------------------------------------------------------------------------------------------ programs
def encode_program(prog):
    """prog = dict(nmb, nmq, hosts=[(speed,bw,lat_us)], actors=[[ (kind,obj,size,tag,fk,fv,rate) ]])"""
    out = [len(prog["actors"]), prog["nmb"], prog["nmq"], len(prog["hosts"])]
    for h in prog["hosts"]:
        out += list(h)
    for ops in prog["actors"]:
        out.append(len(ops))
        for o in ops:
            out += list(o)
    return out


def gen_hosts(rng):
    n = rng.randint(1, 3)
    return [(10 ** 9, rng.choice([10 ** 5, 10 ** 6, 10 ** 8]), rng.choice([0, 100, 5000])) for _ in range(n)]


def gen_filter(rng, nact, filtered):
    if not filtered:
        return 0, 0, 0
    tag = rng.choice([0, 1, 2])
    fk = rng.choice([0, 0, 1, 2])
    fv = rng.randrange(nact) if fk == 1 else rng.choice([0, 1, 2])
    if tag == 0 and fk == 0:
        tag = 1
    return tag, fk, fv


def gen_program(rng, flavour):
    """flavour: plain | filters | perm_first | perm_late | mixed"""
    nact = rng.randint(2, 6)
    nmb = rng.randint(1, 3)
    actors = [[] for _ in range(nact)]
    use_filters = flavour in ("filters", "mixed") or (flavour.startswith("perm") and rng.random() < 0.4)
    perm = {}
    if flavour in ("perm_first", "perm_late", "mixed"):
        for mb in range(nmb):
            if rng.random() < 0.7:
                perm[mb] = rng.randrange(nact)
    for a in range(nact):
        ops = actors[a]
        if flavour == "perm_first":
            # receivers are declared by actor 0 at t=0 before anything else can be handled; everybody else waits
            if a == 0:
                for mb, who in sorted(perm.items()):
                    ops.append((K_SETRECV, mb, who, 0, 0, 0, 0))
            else:
                ops.append((K_SLEEP, 0, rng.choice([1, 2, 512]), 0, 0, 0, 0))
        for _ in range(rng.randint(1, 8)):
            x = rng.random()
            mb = rng.randrange(nmb)
            filtered = use_filters and rng.random() < 0.6
            tag, fk, fv = gen_filter(rng, nact, filtered)
            size = rng.choice([0, 1, 1000, 10 ** 6, rng.randint(1, 10 ** 7)])
            rate = rng.choice([0, 0, 0, rng.randint(1, 10 ** 6)])
            if x < 0.12:
                ops.append((K_SLEEP, 0, rng.choice([0, 1, 3, 512, 1024, 4096]), 0, 0, 0, 0))
            elif x < 0.45:
                ops.append((rng.choice([K_PUT, K_PUT_ASYNC, K_PUT_ASYNC, K_PUT_DET]), mb, size, tag, fk, fv, rate))
            elif x < 0.80:
                ops.append((rng.choice([K_GET, K_GET, K_GET_ASYNC]), mb, 0, tag, fk, fv, rate))
            elif x < 0.86:
                ops.append((K_WAIT_ALL, 0, 0, 0, 0, 0, 0))
            elif x < 0.92:
                ops.append((K_WAIT_OLDEST, 0, 0, 0, 0, 0, 0))
            elif x < 0.96 and flavour in ("perm_late", "mixed") and perm:
                mbp = rng.choice(sorted(perm))
                ops.append((K_SETRECV, mbp, rng.choice([perm[mbp], perm[mbp], -1, rng.randrange(nact)]), 0, 0, 0, 0))
            elif x < 0.98:
                ops.append((K_IPROBE, mb, 0, tag, fk, fv, 0))
            else:
                ops.append((K_SLEEP, 0, 1, 0, 0, 0, 0))
    return {"nmb": nmb, "nmq": 0, "hosts": gen_hosts(rng), "actors": actors}


def P(nmb, hosts, *actors):
    return {"nmb": nmb, "nmq": 0, "hosts": hosts, "actors": [list(a) for a in actors]}


H2 = [(10 ** 9, 10 ** 8, 100), (10 ** 9, 10 ** 8, 100)]
CORPUS = [
    # the DESIGN section 6 input: put_async 1; set_receiver; put_async 2; get; get
    P(1, H2, [(K_PUT_ASYNC, 0, 1000, 0, 0, 0, 0), (K_SLEEP, 0, 1024, 0, 0, 0, 0), (K_PUT_ASYNC, 0, 1000, 0, 0, 0, 0)],
      [(K_SLEEP, 0, 512, 0, 0, 0, 0), (K_SETRECV, 0, 1, 0, 0, 0, 0), (K_SLEEP, 0, 1024, 0, 0, 0, 0), (K_GET, 0, 0, 0, 0, 0, 0),
       (K_GET, 0, 0, 0, 0, 0, 0)]),
    # a tagged receive left waiting while the send it accepts sits in comm_queue_ (same region)
    P(1, H2, [(K_PUT_ASYNC, 0, 10, 7, 0, 0, 0), (K_SLEEP, 0, 1024, 0, 0, 0, 0), (K_PUT_ASYNC, 0, 10, 8, 0, 0, 0)],
      [(K_SLEEP, 0, 512, 0, 0, 0, 0), (K_SETRECV, 0, 1, 0, 0, 0, 0), (K_SLEEP, 0, 1024, 0, 0, 0, 0), (K_GET_ASYNC, 0, 0, 1, 2, 7, 0)]),
    # plain FIFO, two senders, blocking / async / detached
    P(1, H2, [(K_PUT, 0, 1000, 0, 0, 0, 0), (K_PUT_ASYNC, 0, 0, 0, 0, 0, 0), (K_PUT_DET, 0, 10 ** 6, 0, 0, 0, 0)],
      [(K_PUT_DET, 0, 5, 0, 0, 0, 0), (K_PUT_ASYNC, 0, 7, 0, 0, 0, 50)],
      [(K_GET, 0, 0, 0, 0, 0, 0), (K_GET_ASYNC, 0, 0, 0, 0, 0, 0), (K_GET_ASYNC, 0, 0, 0, 0, 0, 0), (K_GET, 0, 0, 0, 0, 0, 0), (K_GET, 0, 0, 0, 0, 0, 0)]),
    # receives first, then sends; filters on both sides
    P(2, H2, [(K_GET_ASYNC, 0, 0, 1, 2, 2, 0), (K_GET_ASYNC, 0, 0, 1, 1, 1, 0), (K_GET_ASYNC, 1, 0, 1, 0, 0, 0), (K_WAIT_ALL, 0, 0, 0, 0, 0, 0)],
      [(K_SLEEP, 0, 512, 0, 0, 0, 0), (K_PUT, 0, 100, 1, 0, 0, 0), (K_PUT, 0, 100, 2, 0, 0, 0), (K_PUT, 1, 100, 1, 1, 0, 0)]),
    # permanent receiver declared first: eager sends, tagged receives overtaking
    P(1, H2, [(K_SETRECV, 0, 0, 0, 0, 0, 0), (K_SLEEP, 0, 2048, 0, 0, 0, 0), (K_GET, 0, 0, 1, 2, 2, 0), (K_GET, 0, 0, 0, 0, 0, 0),
              (K_GET, 0, 0, 0, 0, 0, 0), (K_IPROBE, 0, 0, 0, 0, 0, 0)],
      [(K_SLEEP, 0, 512, 0, 0, 0, 0), (K_PUT_ASYNC, 0, 10 ** 6, 1, 0, 0, 0), (K_PUT_DET, 0, 10, 2, 0, 0, 0), (K_PUT_ASYNC, 0, 0, 1, 0, 0, 0),
       (K_IPROBE, 0, 0, 1, 2, 2, 0)]),
]


# ------------------------------------------------------------------------------------------------ logs
def parse_log(line):
    ev = {"I": [], "D": {}, "M": {}, "P": set(), "B": {}, "deadlock": False, "crash": None}
    if line.startswith("CRASH") or not line.strip():
        ev["crash"] = line or "no output"
        return ev
    for tok in line.split(" | "):
        f = tok.split()
        if f[0] == "I":
            ev["I"].append(tuple(int(x) for x in f[1:]))
        elif f[0] == "D":
            ev["D"][int(f[1])] = tuple(int(x) for x in f[2:])
        elif f[0] == "M":
            ev["M"][int(f[1])] = int(f[2])
        elif f[0] == "P":
            ev["P"].add(int(f[1]))
        elif f[0] == "B":
            ev["B"][int(f[1])] = int(f[2])
        elif f[0] == "X":
            ev["deadlock"] = True
    return ev


def history(ev, mb):
    """requests on mailbox mb in issue order, as the 9-integer records of run_c08"""
    h = []
    for (seq, actor, kind, obj, size, tag, fk, fv) in sorted(ev["I"]):
        if obj != mb or kind >= 10:
            continue
        label = actor if (tag != 0 or fk != 0) else -1
        if kind in (K_PUT, K_PUT_ASYNC, K_PUT_DET):
            h.append([1, seq, actor, label, tag, fk, fv, seq, size])
        elif kind in (K_GET, K_GET_ASYNC):
            h.append([2, seq, actor, label, tag, fk, fv, 0, 0])
        elif kind == K_SETRECV:
            h.append([3, seq, size, 0, 0, 0, 0, 0, 0])
        elif kind == K_IPROBE:
            h.append([4, seq, actor, label, tag, fk, fv, 0, 0])
    return h


def flat(h):
    return [len(h)] + [x for r in h for x in r]


def observed(ev, h):
    """what every receive of this history obtained: {recv: (payload, size)}; user-level D wins, else the kernel pairing"""
    res, bad = {}, []
    sizes = {r[1]: r[8] for r in h if r[0] == 1}
    for r in h:
        if r[0] != 2:
            continue
        seq = r[1]
        d = ev["D"].get(seq)
        m = ev["M"].get(seq)
        if d is not None:
            payload, psize, ksize, magic = d
            if payload == 0:
                bad.append("receive %d returned without a payload" % seq)
                continue
            if not magic:
                bad.append("receive %d: payload %d corrupted" % (seq, payload))
            if m is not None and m != payload:
                bad.append("receive %d: user buffer holds payload %d but the comm carried %d" % (seq, payload, m))
            if ksize >= 0 and payload in sizes and ksize != sizes[payload]:
                bad.append("receive %d: comm size %d, put %d declared %d" % (seq, ksize, payload, sizes[payload]))
            res[seq] = (payload, psize)
        elif m:
            res[seq] = (m, sizes.get(m, -1))
    return res, bad


def judge(ctx, prog, line, stats):
    ev = parse_log(line)
    case = {"program": encode_program(prog)}
    if ev["crash"]:
        ctx.fail("simulation-crash", "the simulation of the program died: %s" % ev["crash"], case)
        return None
    jobs = []
    for mb in range(prog["nmb"]):
        h = history(ev, mb)
        if not h:
            continue
        obs, bad = observed(ev, h)
        jobs.append((mb, h, obs, bad, ev))
    return case, jobs, ev


def run(ctx):
    ctx.simgrid(["simgrid"])
    ctx.prove()
    drv = fw.build_harness("k2_comm", extra=HARNESS_FLAGS)
    n = ctx.n(300, 10000)
    flavours = ["plain", "filters", "perm_first", "perm_late", "mixed"]
    progs = list(CORPUS) + [gen_program(ctx.rng, flavours[i % len(flavours)]) for i in range(n)]
    if ctx.replay:
        enc = json.load(open(ctx.replay))["case"]["program"]
        progs = [enc]
    lines = [" ".join(map(str, p if isinstance(p, list) else encode_program(p))) for p in progs]
    if ctx.replay:
        progs = [decode_program(enc)]
    rc, out, err = fw.run_lines(drv, [], lines, timeout=3000)
    if rc != 0 or len(out) != len(lines):
        raise fw.BuildError("k2_comm driver failed rc=%d, %d/%d answers: %s" % (rc, len(out), len(lines), err[-500:]))
    ctx.cov["rule"] = ("generated S4U programs: 2-6 actors, 1-3 mailboxes, 1-8 requests per actor among put/put_async/put_init+detach/get/"
                       "get_async/wait/iprobe/set_receiver/sleep, filters (all | label=p | tag=k) on either side, sizes 0..1e7, rates, 1-3 "
                       "hosts with per-host links; five flavours (plain, filters, receiver declared first, set_receiver in the middle, "
                       "mixed). non-trivial = at least two receives obtained a payload; distinct = distinct program")
    dist = {"programs": 0, "mailbox_histories": 0, "pairs": 0, "deadlocks": 0, "in_finding_region": 0, "filtered_requests": 0,
            "probes": 0, "set_receiver": 0}
    todo, model_in, oracle_in = [], [], []
    for prog, line in zip(progs, out):
        dist["programs"] += 1
        r = judge(ctx, prog, line, dist)
        if r is None:
            continue
        case, jobs, ev = r
        dist["deadlocks"] += ev["deadlock"]
        npairs = 0
        for (mb, h, obs, bad, _) in jobs:
            dist["mailbox_histories"] += 1
            dist["filtered_requests"] += sum(1 for x in h if x[0] in (1, 2, 4) and x[3] >= 0)
            dist["probes"] += sum(1 for x in h if x[0] == 4)
            dist["set_receiver"] += sum(1 for x in h if x[0] == 3)
            npairs += len(obs)
            model_in.append(flat(h))
            oracle_in.append(flat(h) + [x for rcv in sorted(obs) for x in (rcv, obs[rcv][0], obs[rcv][1])])
            todo.append((case, mb, h, obs, bad, ev))
        dist["pairs"] += npairs
        ctx.case(case["program"], npairs >= 2,
                 {"program": case["program"], "log": line[:600]} if npairs >= 3 and len(line) < 600 else None)
    model = fw.run_model("c08", "run_c08", model_in) if model_in else []
    verdicts = fw.run_model("c08", "run_c08_oracle", oracle_in) if oracle_in else []
    for (case, mb, h, obs, bad, ev), mo, vd in zip(todo, model, verdicts):
        side, wf = mo[0], mo[1]
        evs = [mo[i:i + 3] for i in range(2, len(mo), 3)]
        mpairs = {e[2]: e[1] for e in evs if e[0] == 1}
        mprobes = {e[1]: e[2] for e in evs if e[0] == 2}
        ipairs = {r: p for r, (p, _) in obs.items()}
        iprobes = {s: ev["B"].get(s) for s in mprobes}
        where = {"mailbox": mb, "history": h, "observed": sorted(ipairs.items()), "model": sorted(mpairs.items())}
        where.update(case)
        if not wf:
            ctx.mismatch("k2_comm log", "issue numbers of mailbox %d are not increasing: %s" % (mb, h), where)
            continue
        dist["in_finding_region"] += (side == 0)
        same = ipairs == mpairs
        for b in bad:
            ctx.fail("payload-not-intact", "mailbox %d: %s" % (mb, b), where)
        once, oldest, nomiss = vd
        if not once:
            ctx.fail("delivery-not-exactly-once", "mailbox %d: the observed deliveries %s are not an injective, mutually accepted, size-preserving "
                     "pairing of the requests %s" % (mb, sorted(ipairs.items()), h), where)
        elif not (oldest and nomiss):
            what = ("a receive obtained a send although an older send that both sides accept was still queued" if not oldest
                    else "a send and a receive that accept each other were both left unpaired")
            if side == 0 and same:
                ctx.fail(SIG_KNOWN, "mailbox %d: %s (set_receiver was called while a send was queued): pairs (recv,payload) %s" % (
                    mb, what, sorted(ipairs.items())), where)
            else:
                ctx.fail("fifo-violated" if not oldest else "missed-match", "mailbox %d: %s: pairs (recv,payload) %s, requests %s" % (
                    mb, what, sorted(ipairs.items()), h), where)
        elif side == 1 and not same:
            ctx.mismatch("mailbox model vs implementation (pairing)", "mailbox %d: requests %s: implementation paired %s, "
                         "model pairs %s; the oracle accepts the implementation's log" % (mb, h, sorted(ipairs.items()), sorted(mpairs.items())), where)
        if side == 1 and iprobes != mprobes:
            ctx.mismatch("mailbox model vs implementation (iprobe)", "mailbox %d: iprobe answers %s, model %s" % (mb, iprobes, mprobes), where)
    ctx.cov["input_distribution"] = dist
    ctx.assumptions += [
        "sequential contexts (default factory, one worker thread): the issue counter incremented by an actor just before a request is the order "
        "in which the kernel handles the requests",
        "no timeouts, cancellations, actor kills or host/link failures on communications (they remove requests from the queues; not modelled)",
        "histories in which set_receiver is called while a send is queued are judged by the oracle only (KNOWN_FINDINGS %s)" % SIG_KNOWN,
        "model-checker interleavings are covered by the theorems (every request order is a history) but simgrid-mc itself is not run by this check"]


def decode_program(enc):
    i = 4
    nact, nmb, nmq, nh = enc[:4]
    hosts = []
    for _ in range(nh):
        hosts.append(tuple(enc[i:i + 3]))
        i += 3
    actors = []
    for _ in range(nact):
        k = enc[i]
        i += 1
        ops = []
        for _ in range(k):
            ops.append(tuple(enc[i:i + 7]))
            i += 7
        actors.append(ops)
    return {"nmb": nmb, "nmq": nmq, "hosts": hosts, "actors": actors}


META = {
    "level": "proof",
    "text": "Coq theorems over every request history of a mailbox (any number of actors, filters all|label|tag on both sides; blocking, async and "
            "detached sends are the same kernel request): C08_exactly_once/C08_no_duplicate_delivery (sends and receives are conserved as "
            "multisets: each is paired exactly once or still queued; pairs accept each other and carry the send's payload and size) with no side "
            "condition; C08_oldest_accepted_partial, C08_no_missed_match_partial, C08_pairwise_fifo_partial under no_pending_send_at_set_receiver "
            "(which C08_side_condition_* show to hold for mailboxes without set_receiver or with the receiver declared before traffic); "
            "C08_fifo_refuted/C08_missed_match_refuted show the full statement fails on the code as it is (known finding "
            "set-receiver-with-pending-send); C08_iprobe_pure_on_queues; C08_oracle_*_sound for the log oracle. Tie: generated S4U programs run on "
            "the rebuilt library; each mailbox's observed request sequence is replayed through the extracted step function and the observed "
            "pairings must equal the model's; the verified oracle judges every implementation log.",
    "note": "Model = pairing logic of CommImpl::isend/irecv + MailboxImpl::find_matching_comm/set_receiver/iprobe; not modelled: dates, rates, "
            "copy callbacks, cancel/timeouts/failures, actor death, clear(). Intactness (payload identity, magic word, declared and kernel size) is "
            "checked on the implementation log, not proved. The replay tie takes the request order from the implementation run (sequential "
            "contexts), so the scheduler is not modelled; simgrid-mc is not run. Trusted: Coq kernel, extraction, harness, generator.",
    "technique": "Coq proof (invariant on the two queues, permutation by counting) + extracted-model replay of observed histories + verified log oracle",
    "claimed": True,
}
