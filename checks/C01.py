"""C01 — simulations are reproducible, regardless of the address-space layout.

T: gen/ptrorder.py rescans src/kernel, src/s4u, include/simgrid for containers ordered/hashed by pointers, heaps holding
   pointers (and their comparator) and the places where such containers are iterated; Gen/PtrOrderSites.v is regenerated and
   C01_sites_covered / C01_comparators_covered / C01_iterations_covered re-checked against the reviewed lists of
   Kernel/AddrOrder.v.
K/O: every generated program (sync objects, sleeps, execs, daemons with on_exit, kills, joins, suspend/resume) is run under
   several address-space layouts - ASLR on, ASLR off (setarch -R), the three context factories, and an LD_PRELOAD allocator
   (harness/eng3_shim.c) that reverses / shuffles the address order of equal-size heap objects - and the canonical logs (all
   actor events with simulated dates and values, order of operation starts, order of on_exit callbacks, deadlock report)
   must be identical."""
import json
import os
import platform as _pf
import re
import sys
import fw
import eng3_common as E
from eng3_common import SLEEP, DAEMON, ONEXIT, LOCK, UNLOCK, GET, PUT, KILL, EXEC


def P(nm, sems, nc, bars, nmb, *actors):
    return {"nm": nm, "sems": sems, "nc": nc, "bars": bars, "nmb": nmb, "actors": [(i % 5, list(a)) for i, a in enumerate(actors)]}


CORPUS = [
    # three daemons with on_exit callbacks still alive when the only regular actor ends: the engine kills them
    P(1, [], 0, [], 0, [(SLEEP, 1, 0)], [(ONEXIT, 1, 0), (DAEMON, 0, 0), (SLEEP, 800, 0)], [(ONEXIT, 2, 0), (DAEMON, 0, 0), (SLEEP, 800, 0)],
      [(ONEXIT, 3, 0), (DAEMON, 0, 0), (SLEEP, 800, 0)]),
    # daemons blocked on a mailbox / a mutex when the simulation ends
    P(1, [], 0, [], 2, [(LOCK, 0, 0), (SLEEP, 2, 0)], [(ONEXIT, 1, 0), (DAEMON, 0, 0), (GET, 0, 0)], [(ONEXIT, 2, 0), (DAEMON, 0, 0), (LOCK, 0, 0)],
      [(ONEXIT, 3, 0), (DAEMON, 0, 0), (GET, 1, 0)], [(ONEXIT, 4, 0), (DAEMON, 0, 0), (PUT, 1, 3)]),
    # an actor killed while it holds a mutex and sleeps; coinciding dates
    P(1, [], 0, [], 0, [(ONEXIT, 1, 0), (LOCK, 0, 0), (SLEEP, 8, 0), (UNLOCK, 0, 0)], [(SLEEP, 4, 0), (KILL, 0, 0)], [(ONEXIT, 2, 0), (SLEEP, 4, 0), (LOCK, 0, 0)],
      [(EXEC, 5, 0), (SLEEP, 4, 0)]),
]


def build_shim():
    out = os.path.join(fw.B, "harness", "eng3_shim.so")
    src = os.path.join(fw.ROOT, "harness", "eng3_shim.c")
    os.makedirs(os.path.dirname(out), exist_ok=True)
    with fw.Lock("harness_eng3_shim"):
        if not os.path.exists(out) or os.path.getmtime(out) < os.path.getmtime(src):
            fw.sh(["gcc", "-O1", "-shared", "-fPIC", "-o", out + ".tmp", src, "-lpthread"], check=True)
            os.replace(out + ".tmp", out)
    return out


def layouts(ctx, shim):
    noaslr = ["setarch", _pf.machine(), "-R"]
    L = [("aslr-off raw", noaslr, None, "raw"), ("aslr-off thread", noaslr, None, "thread"), ("aslr-off boost", noaslr, None, "boost"),
         ("aslr-on raw (2nd run)", [], None, "raw"),
         ("allocator reverse raw", [], {"LD_PRELOAD": shim, "ENG3_SHIM_MODE": "reverse"}, "raw"),
         ("allocator shuffle raw", [], {"LD_PRELOAD": shim, "ENG3_SHIM_MODE": "shuffle", "ENG3_SHIM_SEED": str(ctx.seed)}, "raw")]
    if not ctx.quick:
        L += [("aslr-on thread", [], None, "thread"), ("aslr-on boost", [], None, "boost"),
              ("allocator reverse thread", [], {"LD_PRELOAD": shim, "ENG3_SHIM_MODE": "reverse"}, "thread"),
              ("allocator shuffle boost, aslr off", noaslr, {"LD_PRELOAD": shim, "ENG3_SHIM_MODE": "shuffle", "ENG3_SHIM_SEED": str(ctx.seed + 1)}, "boost"),
              ("allocator forward raw", [], {"LD_PRELOAD": shim, "ENG3_SHIM_MODE": "forward"}, "raw")]
    return L


def uncovered(sites, comps, iters):
    """the entries the Coq theorems reject, computed the same way (reviewed lists parsed from Kernel/AddrOrder.v)"""
    txt = open(os.path.join(fw.COQ, "theories", "Kernel", "AddrOrder.v")).read()
    rs = {(f, c, k): int(n) for f, c, k, n in re.findall(r'\("([^"]*)", "([^"]*)", "([^"]*)", (\d+)%nat, \w+\)', txt)}
    ri = {(f, t): int(n) for f, t, n in re.findall(r'\("([^"]*)", "([^"]*)", (\d+)%nat\)', txt)}
    rc = set(re.findall(r'\("([^"]*)", "([^"]*)", "([^"]*)"\)', txt))
    bad = ["container %s<%s> in %s (x%d)" % (c, k, f, n) for f, c, k, n in sites if rs.get((f, c, k), 0) < n]
    bad += ["comparator %s in %s: %s" % (c, f, b) for f, c, b in comps if (f, c, b) not in rc]
    bad += ["iteration over %s in %s (x%d)" % (t, f, n) for f, t, n in iters if ri.get((f, t), 0) < n]
    return bad


def diff_kind(a, b):
    if not a.startswith("ok ") or not b.startswith("ok "):
        return "crash"
    pa, pb = a.split("|"), b.split("|")
    if pa[:6] == pb[:6]:
        return "on_exit-order"
    if pa[0] == pb[0] and pa[1] == pb[1] and pa[2] == pb[2] and pa[5] == pb[5]:
        return "event-order"
    return "log"


def run(ctx):
    ctx.simgrid(["simgrid"])
    sys.path.insert(0, os.path.join(fw.ROOT, "gen"))
    import ptrorder
    sites, comps, iters = ptrorder.generate(fw.REPO, fw.COQ)
    if not ctx.prove():
        bad = uncovered(sites, comps, iters)
        if bad:
            ctx.mismatch("pointer-order-scan", "not reviewed / not modelled as address independent: " + "; ".join(bad))
    exe = fw.build_harness("eng3_interp")
    shim = build_shim()
    import C14
    progs = list(CORPUS) + list(C14.CORPUS)
    lays = layouts(ctx, shim)
    if ctx.replay:
        rp = json.load(open(ctx.replay))["case"]
        progs = [rp["prog"]]
        progs[0]["actors"] = [(h, [tuple(o) for o in ops]) for h, ops in progs[0]["actors"]]
        if rp.get("layout"):
            lays = [l for l in layouts(ctx, shim) + layouts(type("T", (), {"quick": False, "seed": ctx.seed})(), shim) if l[0] == rp["layout"]][:1]
    else:
        for i in range(ctx.n(70, 400)):
            progs.append(E.gen_prog_ext(ctx.rng, na_max=5, nops_max=8) if ctx.rng.random() < 0.75 else E.gen_prog(ctx.rng, na_max=5, nops_max=10))
    enc = [E.encode(p) for p in progs]
    ctx.cov["rule"] = ("generated S4U programs (2-5 actors: mutex/semaphore/condvar/barrier/mailbox patterns, dyadic sleeps = coinciding dates, execs, "
                       "yields, daemons with on_exit callbacks kept alive to the end, kill, join, suspend/resume) x layouts (ASLR on/off, 3 factories, "
                       "address-reversing / shuffling allocator); non-trivial = the run advances the clock, deadlocks, or runs on_exit callbacks; "
                       "distinct = distinct programs")
    ref = E.run_impl(exe, enc, cfg=["contexts/factory:raw"])
    dist = {"programs": len(progs), "layouts": [l[0] for l in lays], "runs": len(progs), "with_daemons": 0, "with_2_daemon_exits": 0,
            "with_kill": 0, "deadlocks": 0, "pointer_keyed_sites": len(sites), "iteration_sites": len(iters)}
    for p, l in zip(progs, ref):
        o = E.parse_obs(l)
        nd = sum(any(c == DAEMON for c, _, _ in ops) for _, ops in p["actors"])
        dist["with_daemons"] += nd > 0
        dist["with_kill"] += any(c == KILL for _, ops in p["actors"] for c, _, _ in ops)
        nontriv = False
        if "crash" not in o:
            dist["deadlocks"] += o["dl"]
            dist["with_2_daemon_exits"] += len([x for x in o["ex"] if x[2] == 1]) >= 2
            nontriv = o["dl"] == 1 or float(o["end"]) > 0 or len(o["ex"]) > 0
        else:
            ctx.notes.append("reference layout: %s on %s" % (o["crash"], json.dumps(E.pretty(p))))
        ctx.case(json.dumps(p), nontriv, {"prog": E.pretty(p), "reference": l[:300]} if (nontriv and len(o.get("ex", [])) >= 2) else None)
    for name, prefix, env, fac in lays:
        lines = E.run_impl(exe, enc, cfg=["contexts/factory:" + fac], env=env, prefix=prefix)
        for p, l, r in zip(progs, lines, ref):
            dist["runs"] += 1
            if not l.startswith("ok ") and not r.startswith("ok "):
                continue        # the simulator aborts under both layouts: how it dies is not an observable simulation result
            if l != r:
                ctx.fail("layout-dependent-" + diff_kind(l, r),
                         "layout '%s' gives\n   %s\nthe reference run (ASLR on, raw factory, glibc allocator) gives\n   %s\nprogram %s"
                         % (name, l[:700], r[:700], E.pretty(p)), {"prog": p, "layout": name})
    ctx.cov["input_distribution"] = dist
    ctx.assumptions += ["same binary, same platform file, same configuration in every run; one worker thread (parallel execution is C02's subject)",
                        "the address-perturbing allocator only changes the relative order of heap objects of at most 4096 bytes"]
    ctx.cov["trusted_base"] = ctx.cov.get("trusted_base", []) + [
        "gen/ptrorder.py (regular-expression scan of declarations and range-for/begin() uses; type aliases other than std::pair are not resolved)",
        "harness/eng3_shim.c LD_PRELOAD allocator; setarch -R"]


META = {
    "level": "proof",
    "text": "Coq (Kernel/AddrOrder.v: pointer-ordered containers with an address oracle): lookups never observe the address order "
            "(C01_lookup_addr_indep); iteration of a pointer-ordered set and the pop order of the future event set are the same for any two "
            "allocation-monotone layouts (C01_addr_indep_partial) and, for events at distinct dates, for all layouts "
            "(C01_fes_distinct_dates_addr_indep); without that assumption the faithful model of the pinned code leaks the layout "
            "(C01_addr_order_leak_refuted: daemons_ iteration; C01_fes_ties_refuted); the repaired end-of-simulation loop is layout independent with "
            "no assumption (C01_daemon_kill_order_addr_indep). A translator rescans the sources on every run and the theorems C01_sites_covered / "
            "C01_comparators_covered / C01_iterations_covered fail when a pointer-keyed container, a pointer-comparing heap comparator or a new "
            "iteration over such a container appears. Every generated program is run under ASLR on/off, the three factories and an allocator that "
            "reverses/shuffles heap addresses; all logs must be identical.",
    "note": "The address-independence theorems are at the level of the containers and of the end-of-simulation loop, not of a whole-engine model; "
            "sites treated as `Oracle` (activities_ of an actor, Task successors, future-event ties, netzone sets handed to callbacks) are only "
            "address independent under the allocation-monotone assumption and are exercised by the perturbed-allocator runs. Not covered: "
            "uninitialised reads, allocator behaviours other than re-ordering, plugins.",
    "technique": "Coq proof (insertion-sort extensionality) + source-to-Coq translator + differential runs under perturbed address-space layouts",
    "claimed": True,
}
