"""Shared by C19 and C21: workload generator for harness/res2_load.cpp, runner, parser.
All numbers of the dyadic stream are small integers times powers of two, so that they are exact in binary64."""
import os, subprocess
from concurrent.futures import ThreadPoolExecutor
from fractions import Fraction
import fw

F = Fraction


def fx(s):
    """exact rational value of a C hex float / decimal token"""
    return F(float.fromhex(s)) if ("0x" in s or "inf" in s or "nan" in s) else F(s)


def num(x):
    """token for a number (exact decimal of a dyadic rational or plain float)"""
    if isinstance(x, Fraction):
        x = float(x)
    return repr(float(x))


# ---------------------------------------------------------------------------------------------- generator
def dyad(rng, lo, hi, q=4):
    """k / q with lo <= value <= hi"""
    return F(rng.randint(int(lo * q), int(hi * q)), q)


def gen_workload(rng, kind, arbitrary=False, ti=False, profiles=True):
    """returns dict(lines=[...], meta=...) ; kind in multicore | cpu | net | disk | mixed"""
    L, acts, ctl, ticks = [], [], [], []
    hosts, links, disks = {}, {}, {}

    def val(lo, hi, q=4):
        if arbitrary:
            return F(str(round(rng.uniform(float(lo) + 0.01, float(hi)), 3)))
        v = dyad(rng, lo, hi, q)
        return v if v > 0 else F(1, q)

    nh = 1 if kind in ("multicore", "disk") else rng.randint(1, 3) if kind == "cpu" else rng.randint(2, 4)
    for i in range(nh):
        cores = 1 if ti else rng.choice([1, 1, 2, 3, 4])
        if kind == "multicore":
            cores = rng.randint(1, 4)
        nps = 1 if kind == "multicore" else rng.choice([1, 2, 3])
        speeds = [val(1, 8) * rng.choice([1, 16, 1024]) for _ in range(nps)]
        hosts["h%d" % i] = {"cores": cores, "speeds": speeds, "prof": None}
    if profiles and (ti or (kind in ("cpu", "mixed") and rng.random() < 0.35)):
        # periodic speed profiles on some hosts (values in (0,1], dyadic dates)
        for h in hosts.values():
            if rng.random() < (0.8 if ti else 0.5):
                n = rng.randint(2, 4)
                dates = sorted(rng.sample(range(1, 40), n - 1))
                pts = [(F(0), rng.choice([F(1), F(1, 2), F(1, 4), F(3, 4)]))] + \
                      [(F(d, 2), rng.choice([F(1), F(1, 2), F(1, 4), F(3, 4)])) for d in dates]
                period = F(dates[-1], 2) + F(rng.randint(1, 8), 2)
                h["prof"] = (period, pts)
    if kind in ("net", "mixed"):
        nl = rng.randint(1, 3)
        for i in range(nl):
            links["l%d" % i] = {"bw": val(1, 16) * rng.choice([1, 8, 64]), "lat": rng.choice([F(0), F(1, 4), F(1, 2), F(1)]),
                                "pol": rng.choice(["S", "S", "S", "F"])}
    if kind in ("disk", "mixed"):
        for i in range(rng.randint(1, 2)):
            disks["d%d" % i] = {"host": rng.choice(sorted(hosts)), "r": val(2, 32) * rng.choice([1, 4]), "w": val(2, 32) * rng.choice([1, 4])}
    for n, h in hosts.items():
        l = "H %s %d %d %s" % (n, h["cores"], len(h["speeds"]), " ".join(num(s) for s in h["speeds"]))
        if h["prof"]:
            per, pts = h["prof"]
            l += " P %s %d %s" % (num(per), len(pts), " ".join("%s %s" % (num(d), num(v)) for d, v in pts))
        L.append(l)
    for n, l in links.items():
        L.append("L %s %s %s %s" % (n, num(l["bw"]), num(l["lat"]), l["pol"]))
    for n, d in disks.items():
        L.append("D %s %s %s %s" % (n, d["host"], num(d["r"]), num(d["w"])))
    routes = {}
    hn = sorted(hosts)
    if links:
        for i in range(len(hn)):
            for j in range(i + 1, len(hn)):
                k = rng.randint(1, min(2, len(links)))
                r = rng.sample(sorted(links), k)
                routes[(hn[i], hn[j])] = r
                L.append("R %s %s %d %s" % (hn[i], hn[j], len(r), " ".join(r)))
    # activities
    na = rng.randint(2, 6)
    if kind == "multicore":
        h = hosts["h0"]
        k = rng.randint(1, 7)
        amount = val(4, 64)
        stagger = rng.random() < 0.3
        for i in range(k):
            st = F(0) if not stagger else dyad(rng, 0, 2)
            acts.append({"id": "e%d" % i, "kind": "E", "host": "h0", "amount": amount * h["speeds"][0] / 4, "start": st, "bound": F(-1), "prio": F(1), "cores": 1})
    else:
        for i in range(na):
            kinds = {"cpu": "E", "net": "C", "disk": "I"}.get(kind)
            if kind == "mixed":
                kinds = rng.choice(["E", "E", "C", "I"] if disks else ["E", "C"])
            st = rng.choice([F(0), F(0), dyad(rng, 0, 6)])
            if kinds == "E":
                hname = rng.choice(hn)
                h = hosts[hname]
                sp = h["speeds"][0]
                bound = F(-1)
                if not ti and rng.random() < 0.3:
                    bound = sp * rng.choice([F(1, 4), F(1, 2), F(3, 4), F(2)])
                prio = F(1) if rng.random() < 0.6 else rng.choice([F(2), F(4), F(1, 2)])
                cores = 1 if (ti or rng.random() < 0.7) else rng.randint(1, h["cores"])
                acts.append({"id": "e%d" % i, "kind": "E", "host": hname, "amount": val(2, 40) * sp / 2, "start": st,
                             "bound": bound, "prio": prio, "cores": cores})
            elif kinds == "C" and len(hn) >= 2 and links:
                a, b = rng.sample(hn, 2)
                key = (a, b) if (a, b) in routes else (b, a)
                bw = min(links[l]["bw"] for l in routes[key])
                rate = F(-1) if rng.random() < 0.75 else bw * rng.choice([F(1, 4), F(1, 2)])
                acts.append({"id": "c%d" % i, "kind": "C", "src": a, "dst": b, "amount": F(int(val(2, 40) * bw)) or F(1), "start": st, "rate": rate})
            elif disks:
                dn = rng.choice(sorted(disks))
                rw = rng.choice("RW")
                bw = disks[dn]["r" if rw == "R" else "w"]
                prio = F(1) if rng.random() < 0.7 else rng.choice([F(2), F(1, 2)])
                acts.append({"id": "i%d" % i, "kind": "I", "disk": dn, "amount": F(int(val(2, 20) * bw)) or F(1), "start": st, "rw": rw, "prio": prio})
    for a in acts:
        if a["kind"] == "E":
            L.append("A %s E %s %s %s %s %s %d" % (a["id"], a["host"], num(a["amount"]), num(a["start"]), num(a["bound"]), num(a["prio"]), a["cores"]))
        elif a["kind"] == "C":
            L.append("A %s C %s %s %s %s %s" % (a["id"], a["src"], a["dst"], num(a["amount"]), num(a["start"]), num(a["rate"])))
        else:
            L.append("A %s I %s %s %s %s %s" % (a["id"], a["disk"], num(a["amount"]), num(a["start"]), a["rw"], num(a["prio"])))
    # control operations at dyadic dates
    if kind != "multicore" or rng.random() < 0.3:
        nops = rng.randint(0, 6)
        t = F(0)
        susp = set()
        for _ in range(nops):
            t += dyad(rng, 0, 6, 4) + F(1, 4)
            r = rng.random()
            if r < 0.45 and acts:
                a = rng.choice(acts)
                if a["id"] in susp:
                    ctl.append((t, "U", a["id"], None))
                    susp.discard(a["id"])
                else:
                    ctl.append((t, "S", a["id"], None))
                    susp.add(a["id"])
            elif r < 0.6 and acts:
                a = rng.choice(acts)
                if a["kind"] in ("E", "I") and kind != "multicore":
                    ctl.append((t, "P", a["id"], rng.choice([F(1), F(2), F(4), F(1, 2)])))
            elif r < 0.8 and kind != "multicore":
                hname = rng.choice(hn)
                if len(hosts[hname]["speeds"]) > 1 and not hosts[hname]["prof"]:
                    ctl.append((t, "K", hname, rng.randrange(len(hosts[hname]["speeds"]))))
            elif links:
                ln = rng.choice(sorted(links))
                ctl.append((t, "B", ln, links[ln]["bw"] * rng.choice([F(1, 2), F(2), F(1, 4), F(1)])))
        for a in sorted(susp):  # everything is resumed in the end
            t += F(1, 2)
            ctl.append((t, "U", a, None))
    for (t, op, tgt, v) in ctl:
        L.append("X %s %s %s%s" % (num(t), op, tgt, "" if v is None else " " + (str(v) if op == "K" else num(v))))
    # unrelated timer events: they cut the engine steps at dates that mean nothing to the activities
    if rng.random() < (0.8 if kind == "disk" else 0.5):
        t = F(0)
        for _ in range(rng.randint(1, 12)):
            t += rng.choice([F(1, 256), F(1, 64), F(3, 128), F(1, 8), F(1, 2), F(5, 4)])
            ticks.append(t)
            L.append("Z %s" % num(t))
    return {"lines": L, "kind": kind, "hosts": hosts, "links": links, "disks": disks, "routes": routes, "acts": acts, "ctl": ctl}


# ---------------------------------------------------------------------------------------------- runner / parser
def setup(ctx):
    """rebuild, prove, compile the harness.  RES2_DEV_EXE=<binary> (development only) skips the three steps."""
    dev = os.environ.get("RES2_DEV_EXE")
    if dev:
        ctx.notes.append("development run: rebuild/proof steps skipped, harness " + dev)
        return dev
    ctx.simgrid(["simgrid"])
    ctx.prove()
    return fw.build_harness("res2_load")


def run_one(exe, lines, cfg, extra=(), timeout=60):
    cmd = [exe] + ["--cfg=" + c for c in cfg] + ["--log=root.thres:critical"] + list(extra)
    try:
        p = subprocess.run(cmd, input="\n".join(lines) + "\n", stdout=subprocess.PIPE, stderr=subprocess.PIPE, timeout=timeout, text=True, errors="replace")
        return p.returncode, p.stdout, p.stderr
    except subprocess.TimeoutExpired as ex:
        return 124, "", "timeout"


def run_many(exe, jobs, workers=None):
    """jobs: list of (lines, cfg, extra). Returns the list of (rc, out, err) in order."""
    with ThreadPoolExecutor(max_workers=workers or min(12, fw.NCPU)) as ex:
        return list(ex.map(lambda j: run_one(exe, j[0], j[1], j[2]), jobs))


def parse(out):
    """-> dict(steps=[{now, delta, acts:{id:(state, rem, rate)}, loads:{name: load}}], begin={id: date}, end={id: (clock, finish)},
               ops=[(date, op, target, done)], complete=bool)"""
    steps, begin, end, ops = [], {}, {}, []
    cur = None
    complete = False
    for l in out.split("\n"):
        t = l.split()
        if not t:
            continue
        if t[0] == "T":
            cur = {"now": fx(t[1]), "delta": fx(t[2]), "acts": {}, "loads": {}}
            steps.append(cur)
        elif t[0] == "a" and cur is not None:
            cur["acts"][t[1]] = (t[2], fx(t[3]), fx(t[4]))
        elif t[0] in ("h", "l") and cur is not None:
            cur["loads"][t[1]] = fx(t[2])
        elif t[0] == "B":
            begin[t[1]] = fx(t[2])
        elif t[0] == "E":
            end[t[1]] = (fx(t[2]), fx(t[3]))
        elif t[0] == "x":
            ops.append((fx(t[1]), t[2], t[3], t[4] == "done"))
        elif t[0] == "END":
            complete = True
    return {"steps": steps, "begin": begin, "end": end, "ops": ops, "complete": complete}


def q2(x):
    x = F(x)
    return [x.numerator, x.denominator]
