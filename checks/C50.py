"""C50 — legacy xbt containers behave like their models.
K: the extracted concrete Coq models (Xbt/Dynar.v: data/used/size with the doubling policy; Xbt/Dict.v: bucket array,
   hash & mask, rehash at 80% fill) vs. the real xbt_dynar_* / xbt_dict_* C API (harness/xbt2_c50_drv.cpp) on the same
   operation sequences.
O: the specification the Coq theorems refine to — a plain list / a finite map — evaluated here on Python list/dict;
   an implementation answer that differs from it violates the property.  Dict enumerations are compared as sorted sets
   of bindings (the order of a hash table is not constrained)."""
import json, os
import fw


# ------------------------------------------------------------------------------------------------ dynar
def gen_dynar(rng, maxsteps):
    n = rng.randint(1, maxsteps)
    ln = 0
    ops = []
    small = rng.random() < 0.5
    for _ in range(n):
        val = rng.randint(0, 9) if small else rng.choice([rng.randint(-50, 50), rng.randint(-10 ** 12, 10 ** 12)])
        r = rng.random()
        bad = rng.random() < 0.004   # an operation outside its domain: xbt_assert, ends the case
        if r < 0.22:
            ops.append((0, val, rng.randint(0, 1))); ln += 1
        elif r < 0.30:
            if ln == 0 and not bad:
                continue
            ops.append((1, 0, rng.randint(0, 1))); ln -= 1
        elif r < 0.36:
            if ln == 0 and not bad:
                continue
            ops.append((2, 0, 0)); ln -= 1
        elif r < 0.44:
            ops.append((3, val, 0)); ln += 1
        elif r < 0.56:
            ops.append((4, ln + rng.randint(1, 4) if bad else rng.choice([0, ln, rng.randint(0, ln)]), val)); ln += 1
        elif r < 0.66:
            if ln == 0 and not bad:
                continue
            ops.append((5, ln + rng.randint(0, 2) if bad else rng.randint(0, ln - 1), 0)); ln -= 1
        elif r < 0.74:
            if ln == 0 and not bad:
                continue
            ops.append((6, ln + rng.randint(0, 2) if bad else rng.randint(0, ln - 1), rng.randint(0, 1)))
        elif r < 0.82:
            k = rng.random()
            idx = rng.randint(0, max(ln - 1, 0)) if k < 0.6 else (ln + rng.randint(0, 6) if k < 0.95 else ln + rng.randint(20, 300))
            ops.append((7, idx, val)); ln = max(ln, idx + 1)
        elif r < 0.86:
            ops.append((8, 0, 0))
        elif r < 0.91:
            ops.append((9, val, 0))
        elif r < 0.95:
            ops.append((10, 0, 0))
        elif r < 0.96:
            ops.append((11, 0, 0)); ln = 0
        else:
            ops.append((12, 0, rng.randint(0, 1)))
        if ln < 0:
            break
    return [x for o in ops for x in o]


def spec_dynar(c):
    """the growable array of the theorem (spec_step), on a Python list; returns the same token stream as the drivers"""
    l, out = [], []
    for i in range(0, len(c) - 2, 3):
        code, a, b = c[i:i + 3]
        res = []
        if code == 0:
            l.append(a)
        elif code == 1:
            if not l:
                return out + [-1]
            res = [l.pop()]
        elif code == 2:
            if not l:
                return out + [-1]
            res = [l.pop(0)]
        elif code == 3:
            l.insert(0, a)
        elif code == 4:
            if a > len(l) or a < 0:
                return out + [-1]
            l.insert(a, b)
        elif code == 5:
            if not 0 <= a < len(l):
                return out + [-1]
            res = [l.pop(a)]
        elif code == 6:
            if not 0 <= a < len(l):
                return out + [-1]
            res = [l[a]]
        elif code == 7:
            if a < len(l):
                l[a] = b
            else:
                l += [0] * (a - len(l)) + [b]
        elif code == 8:
            res = [len(l)]
        elif code == 9:
            res = [1 if a in l else 0]
        elif code == 10:
            l.sort()
        elif code == 11:
            l = []
        else:
            res = list(l)
        out += [len(res)] + res
    return out + [-7] + l


DYNAR_CORPUS = [
    [0, 3, 0, 0, 1, 0, 3, 7, 0, 4, 1, 9, 7, 6, 5, 10, 0, 0, 1, 0, 0, 5, 0, 0, 2, 0, 0, 6, 1, 0, 12, 0, 0],
    [1, 0, 0],                                      # pop on an empty dynar: xbt_assert
    [0, 1, 0, 6, 1, 0],                             # get out of bounds
    [0, 1, 0, 4, 5, 9, 8, 0, 0, 12, 0, 0],          # insert_at beyond the end (pinned code: length 2, contents [1, 0])
    [7, 40, 5, 8, 0, 0, 12, 0, 0, 5, 40, 0, 5, 39, 0, 8, 0, 0],   # growth by set_as, zero filled
    [0, 5, 1, 0, 6, 1, 1, 0, 1, 1, 0, 1, 8, 0, 0, 3, 9, 0, 2, 0, 0, 8, 0, 0],
    [4, 0, 1, 4, 0, 2, 4, 1, 3, 4, 3, 4, 12, 0, 1, 10, 0, 0, 12, 0, 0, 9, 3, 0, 9, 8, 0, 11, 0, 0, 12, 0, 0, 0, 1, 0],
]


# ------------------------------------------------------------------------------------------------ dict
def gen_key(rng, family):
    if family == 0:      # tiny alphabet: replacements and removals hit existing keys
        return [rng.choice([97, 98, 99])] * rng.randint(1, 2) if rng.random() < 0.5 else [rng.choice([97, 98, 99, 100]), rng.choice([120, 121])]
    if family == 1:      # consecutive djb2 codes: every key in its own cell, fills the table -> rehash
        return [rng.choice([97, 98, 99, 100]), rng.randint(33, 126)]
    if family == 2:      # same cell for many keys: djb2(x,y) = (5381*33+x)*33+y, so (x+1, y-33) collides with (x, y)
        x = rng.randint(41, 43)
        return [x, 33 + 33 * (43 - x) + rng.choice([0, 0, 0, 1])]
    return [rng.randint(33, 126) for _ in range(rng.randint(0, 24))]   # long random strings (and the empty key)


def seq_key(t):
    """t-th key of a family with consecutive djb2 codes: djb2([x, y]) = const + 33 x + y"""
    return [97 + t // 33, 33 + t % 33]


def gen_dict(rng, maxsteps):
    n = rng.randint(1, maxsteps)
    fam = rng.choice([0, 1, 2, 3, 4, 5, 5])
    if fam == 5:          # fresh keys in consecutive cells, mostly insertions: fills > 80% of the 128 cells -> rehash
        n = maxsteps
    keys = []
    c = []
    for _ in range(n):
        f = fam if fam < 4 else rng.randint(0, 3)
        r = rng.random()
        if fam == 5 and r < 0.8:
            k = seq_key(len(keys))
            keys.append(k)
            c += [0, len(k)] + k + [rng.randint(0, 10 ** 6)]
        elif r < 0.55 or not keys:
            k = gen_key(rng, f)
            keys.append(k)
            c += [0, len(k)] + k + [rng.randint(0, 10 ** 6)]
        elif r < 0.75:
            k = rng.choice(keys) if rng.random() < 0.8 else gen_key(rng, f)
            c += [1, len(k)] + k + [rng.randint(0, 5)]
        elif r < 0.90:
            k = rng.choice(keys) if rng.random() < 0.85 else gen_key(rng, f)
            c += [2, len(k)] + k + [0]
        elif r < 0.95:
            c += [3, 0, 0]
        else:
            c += [4, 0, 0]
    return c + [3, 0, 0, 4, 0, 0]


def parse_dict_case(c):
    i, ops = 0, []
    while i + 1 < len(c):
        code, klen = c[i], c[i + 1]
        key = tuple(c[i + 2:i + 2 + klen])
        if i + 2 + klen >= len(c):
            break
        ops.append((code, key, c[i + 2 + klen]))
        i += 3 + klen
    return ops


def spec_dict(ops):
    """finite map of the theorem on a Python dict; enumerations as sorted binding lists"""
    d, out = {}, []
    for code, key, val in ops:
        if code == 0:
            d[key] = val
        elif code == 1:
            out.append(("get", d.get(key)))
        elif code == 2:
            out.append(("rm", 1 if key in d else 0))
            d.pop(key, None)
        elif code == 3:
            out.append(("len", len(d)))
        else:
            out.append(("enum", sorted(d.items())))
    return out


def parse_dict_out(ops, toks):
    """token stream of a driver -> same shape as spec_dict (None when malformed)"""
    out, i = [], 0
    try:
        for code, key, val in ops:
            if code == 0:
                continue
            if code == 1:
                if toks[i] == 1:
                    out.append(("get", toks[i + 1])); i += 2
                else:
                    out.append(("get", None)); i += 1
            elif code == 2:
                out.append(("rm", toks[i])); i += 1
            elif code == 3:
                out.append(("len", toks[i])); i += 1
            else:
                n = toks[i]; i += 1
                b = []
                for _ in range(n):
                    kl = toks[i]
                    b.append((tuple(toks[i + 1:i + 1 + kl]), toks[i + 1 + kl]))
                    i += 2 + kl
                out.append(("enum", sorted(b), len(b)))
    except IndexError:
        return None
    if i != len(toks):
        return None
    return out


def norm(o):
    return [x[:2] for x in o] if o is not None else None


DICT_CORPUS = [
    [0, 2, 97, 98, 5, 0, 1, 97, 7, 1, 2, 97, 98, 0, 1, 1, 120, 1, 3, 0, 0, 4, 0, 0, 2, 1, 97, 0, 2, 1, 97, 0, 3, 0, 0, 4, 0, 0],
    [0, 0, 9, 1, 0, 0, 1, 0, 1, 3, 0, 0, 2, 0, 0, 3, 0, 0],                   # the empty key
    sum(([0, 2] + seq_key(j) + [j] for j in range(150)), []) + [3, 0, 0, 4, 0, 0] + sum(([1, 2] + seq_key(j) + [j % 3] for j in range(0, 150, 7)), []),  # rehash at the 103rd key
    sum(([0, 2, 41 + j % 3, 33 + 33 * (2 - j % 3), j] for j in range(8)), []) + [4, 0, 0, 2, 2, 42, 66, 0, 4, 0, 0, 1, 2, 41, 99, 2],
]


def run(ctx):
    ctx.simgrid(["simgrid"])
    ctx.prove()
    # VERIF_C50_INTERPOSE=1 compiles REPO's dynar.cpp/dict.cpp into the driver itself (they then take precedence over the
    # library's copies): lets a patched source tree be tested without rebuilding libsimgrid.  Not used by bin/check runs.
    inter = ["-std=gnu++20"] + [os.path.join(fw.REPO, "src/xbt", f) for f in ("dynar.cpp", "dict.cpp")] \
        + ["-x", "c", os.path.join(fw.REPO, "src/xbt/dict_elm.c"), "-x", "none"] if os.environ.get("VERIF_C50_INTERPOSE") else None
    drv = fw.build_harness("xbt2_c50_drv", extra=inter)
    ctx.cov["rule"] = ("dynar: histories of 1..200 operations (push/pop/shift/unshift/insert_at/remove_at/get/set_as with growth/"
                       "length/member/sort/reset/foreach|map, both copy and pointer API variants), 0.4% of the operations outside "
                       "their domain (xbt_assert expected); dict: 1..200 operations (set/get/remove/length/foreach, three API "
                       "variants) on key families: tiny alphabet, consecutive hash codes (forces the rehash), one-cell collisions, "
                       "long random strings; non-trivial = at least 5 state-changing operations; distinct = distinct inputs")
    dist = {"dynar": 0, "dict": 0, "dynar_asserts": 0, "dict_rehash_cases": 0, "steps": 0}
    rp = json.load(open(ctx.replay))["case"] if ctx.replay else None

    # ---------------- dynar
    if rp is None or rp["kind"] == "dynar":
        cases = [rp["input"]] if rp else DYNAR_CORPUS + [gen_dynar(ctx.rng, 200) for _ in range(ctx.n(1500, 40000))]
        model = fw.run_model("c50", "run_c50_dynar", cases)
        rc, impl, err = fw.run_lines(drv, ["dynar"], [" ".join(map(str, c)) for c in cases])
        if rc != 0 or len(impl) != len(cases):
            ctx.fail("driver-crash-dynar", "xbt2_c50_drv dynar ended with rc=%d after %d/%d cases: %s" % (rc, len(impl), len(cases), err[-300:]),
                     {"kind": "dynar", "input": cases[len(impl)] if len(impl) < len(cases) else None})
        else:
            for c, m, il in zip(cases, model, impl):
                i = [int(t) for t in il.split()]
                s = spec_dynar(c)
                dist["dynar"] += 1
                dist["steps"] += len(c) // 3
                dist["dynar_asserts"] += s[-1] == -1 and -7 not in s
                nchg = sum(1 for j in range(0, len(c), 3) if c[j] in (0, 1, 2, 3, 4, 5, 7, 10, 11))
                ctx.case(("dynar", tuple(c)), nchg >= 5, {"kind": "dynar", "input": c[:60], "impl": i[:40]} if nchg >= 5 else None)
                case = {"kind": "dynar", "input": c}
                if i != s:
                    j = next((x for x in range(min(len(i), len(s))) if i[x] != s[x]), min(len(i), len(s)))
                    ctx.fail("dynar-not-a-list", "dynar ops %s: the C API answers %s where a growable array gives %s (token %d)"
                             % ([tuple(c[x:x + 3]) for x in range(0, len(c), 3)][:30], i[max(0, j - 4):j + 4], s[max(0, j - 4):j + 4], j), case)
                elif m != i:
                    ctx.mismatch("correspondence Dynar.v / dynar.cpp", "ops %s: model %s, implementation %s" % (c[:90], m[:40], i[:40]), case)

    # ---------------- dict
    if rp is None or rp["kind"] == "dict":
        long_cases = [] if ctx.quick else [gen_dict(ctx.rng, 900) for _ in range(60)]
        cases = [rp["input"]] if rp else DICT_CORPUS + [gen_dict(ctx.rng, 200) for _ in range(ctx.n(1200, 25000))] + long_cases
        model = fw.run_model("c50", "run_c50_dict", cases)
        rc, impl, err = fw.run_lines(drv, ["dict"], [" ".join(map(str, c)) for c in cases])
        if rc != 0 or len(impl) != len(cases):
            ctx.fail("driver-crash-dict", "xbt2_c50_drv dict ended with rc=%d after %d/%d cases: %s" % (rc, len(impl), len(cases), err[-300:]),
                     {"kind": "dict", "input": cases[len(impl)] if len(impl) < len(cases) else None})
        else:
            for c, m, il in zip(cases, model, impl):
                ops = parse_dict_case(c)
                i = parse_dict_out(ops, [int(t) for t in il.split()])
                mo = parse_dict_out(ops, m)
                s = spec_dict(ops)
                dist["dict"] += 1
                dist["steps"] += len(ops)
                cells = set()   # cells of the initial 128-cell table touched by an insertion (djb2 & 127): > 102 forces the rehash
                for code, k, _ in ops:
                    if code == 0:
                        h = 5381
                        for ch in k:
                            h = (h * 33 + ch) % 2 ** 32
                        cells.add(h & 127)
                dist["dict_rehash_cases"] += len(cells) > 102
                nchg = sum(1 for code, _, _ in ops if code in (0, 2))
                ctx.case(("dict", tuple(c)), nchg >= 5, {"kind": "dict", "input": c[:60], "impl": il[:200]} if nchg >= 5 else None)
                case = {"kind": "dict", "input": c}
                if norm(i) != s:
                    j = next((x for x in range(min(len(i or []), len(s))) if norm(i)[x] != s[x]), 0)
                    ctx.fail("dict-not-a-map", "dict ops %s...: answer %d of the C API is %s where a map gives %s%s"
                             % (ops[:12], j, (i or [None] * (j + 1))[j] if i else "unparsable output (crash?)", s[j] if j < len(s) else None,
                                "" if i else " raw: " + il[-120:]), case)
                elif norm(mo) != norm(i):
                    ctx.mismatch("correspondence Dict.v / dict.cpp", "ops %s...: model %s, implementation %s" % (ops[:12], str(mo)[:300], str(i)[:300]), case)
    ctx.cov["input_distribution"] = dist
    ctx.assumptions += [
        "dynar of scalars (long elements, no free_f); indices are non-negative and fit in an int",
        "dict keys are NUL-free byte strings of 7-bit characters; values are non-null; the cached hash_code of an element is the hash "
        "of its key; no insertion/removal while a cursor is open (documented restriction of dict_cursor.c)",
        "memory management (realloc/mallocator/free_f) is not modelled; fresh cells hold an arbitrary value (theorems quantify over it)",
    ]


META = {
    "level": "proof",
    "claimed": True,
    "text": "Coq refinement theorems for histories of any length: C50_dynar_refines_list / C50_dynar_history_refines (each dynar "
            "operation of the array+used+size model with the doubling policy commutes with the abstraction to a list, is stopped "
            "by an assertion exactly when the list operation is undefined, keeps used <= size: C50_dynar_capacity; "
            "C50_sort_is_sorted_permutation), C50_dict_refines_map and C50_dict_rehash_preserves (the bucket-array model with "
            "hash & mask and the 80% rehash satisfies the finite-map laws for empty/set/get/remove/length/cursor enumeration, for "
            "ANY hash function and key type). The extracted concrete models are run against the real xbt_dynar_*/xbt_dict_* API "
            "on generated histories (dict enumerations compared as sorted sets); every API answer is judged against the list/map "
            "specification.",
    "note": "Defect found and repaired (fix: commit): xbt_dynar_insert_at beyond the end wrote out of bounds instead of being "
            "rejected. fill (number of used cells) is modelled as the C code updates it but its exactness is not proved - it only decides when "
            "the table is doubled, which the refinement does not depend on. The cursor is modelled as the enumeration it produces "
            "(table order), not step by step. Not modelled: memory management, free_f callbacks, dynars of non-scalar elements.",
    "technique": "Coq refinement proofs (data refinement to list / finite map, Section-quantified hash) + extracted-model "
                 "differential correspondence + specification oracle on implementation answers",
}
