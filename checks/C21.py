"""C21 — Work is conserved and capacity is respected over time.
Proof: Res/Action.v + ActionProofs.v (remaining monotone, work exact, zero exactly at completion, for every rate history),
Res/Share.v (multicore share).  Tie: harness/res2_load.cpp runs generated concurrent workloads on the rebuilt library and
prints get_remaining()/rate of every activity and the load of every host/link at every on_time_advance; the verified
oracle trace_ok (extracted) judges each activity's samples, the extracted FULL/LAZY bookkeeping replays the observed rate
history and must complete at the observed date, and the extracted share gives the multicore rate."""
import json
from fractions import Fraction as F
import fw
import res2_common as rc

PREC_WORK = F(1, 100000)      # precision/work-amount
PREC_TIME = F(1, 10 ** 9)     # precision/timing
CFGS = [["cpu/optim:Lazy", "network/optim:Lazy"], ["cpu/optim:Full", "network/optim:Full"],
        ["cpu/optim:Full", "network/optim:Lazy", "cpu/maxmin-selective-update:yes"]]
BASE_CFG = ["network/model:CM02", "network/crosstraffic:0"]

CORPUS = [
    # I/O with unrelated timer events (DiskS19Model::update_actions_state used to round rate*delta to an integer)
    {"kind": "disk", "cfg": CFGS[0], "lines": ["H h0 1 1 1.0", "D d0 h0 100.0 100.0", "A i0 I d0 100.0 0.0 R 1.0",
                                                 "Z 0.004", "Z 0.008", "Z 0.012", "Z 0.016", "Z 0.5"]},
    {"kind": "disk", "cfg": CFGS[0], "lines": ["H h0 1 1 1.0", "D d0 h0 100.0 50.0", "A i0 I d0 90.0 0.0 R 1.0", "A i1 I d0 90.0 0.0 R 1.0",
                                                 "A i2 I d0 60.0 0.25 W 1.0", "Z 0.004", "Z 0.0078125", "Z 0.1", "Z 0.30078125"]},
    # 3 equal execs on 2 cores, 5 on 4 cores, 2 on 4 cores
    {"kind": "multicore", "cfg": CFGS[0], "lines": ["H h0 2 1 6.0"] + ["A e%d E h0 24.0 0.0 -1.0 1.0 1" % i for i in range(3)]},
    {"kind": "multicore", "cfg": CFGS[1], "lines": ["H h0 4 1 8.0"] + ["A e%d E h0 40.0 0.0 -1.0 1.0 1" % i for i in range(5)]},
    {"kind": "multicore", "cfg": CFGS[0], "lines": ["H h0 4 1 8.0"] + ["A e%d E h0 40.0 0.0 -1.0 1.0 1" % i for i in range(2)]},
    # suspend / resume / priority / pstate
    {"kind": "cpu", "cfg": CFGS[0], "lines": ["H h0 1 2 1.0 0.5", "A e0 E h0 100.0 0.0 -1.0 1.0 1", "A e1 E h0 50.0 0.0 -1.0 2.0 1",
                                                "X 10.0 S e0", "X 20.0 U e0", "X 30.0 K h0 1", "X 40.0 P e1 1.0", "Z 0.5"]},
    {"kind": "cpu", "cfg": CFGS[0], "lines": ["H h0 1 1 1.0", "A e0 E h0 100.0 0.0 -1.0 1.0 1", "X 10.0 S e0", "X 20.0 P e0 2.0", "X 50.0 U e0"]},
    {"kind": "cpu", "cfg": CFGS[1], "lines": ["H h0 1 1 1.0", "A e0 E h0 100.0 0.0 -1.0 1.0 1", "X 10.0 S e0", "X 20.0 P e0 2.0", "X 50.0 U e0"]},
    {"kind": "net", "cfg": CFGS[0], "lines": ["H h0 1 1 1.0", "H h1 1 1 1.0", "L l0 100.0 0.5 S", "R h0 h1 1 l0", "A c0 C h0 h1 1000.0 0.0 -1.0",
                                                "A c1 C h1 h0 500.0 1.0 -1.0", "X 2.0 S c0", "X 4.0 U c0", "X 6.0 B l0 50.0"]},
]


def describe(lines):
    """rebuild the static description of a workload from its lines (so that replay needs only the lines)"""
    hosts, links, disks, routes, acts, ctl = {}, {}, {}, {}, {}, []
    for l in lines:
        t = l.split()
        if t[0] == "H":
            n = int(t[3])
            hosts[t[1]] = {"cores": int(t[2]), "speeds": [F(x) for x in t[4:4 + n]], "prof": len(t) > 4 + n}
        elif t[0] == "L":
            links[t[1]] = {"bw": F(t[2]), "lat": F(t[3]), "pol": t[4]}
        elif t[0] == "D":
            disks[t[1]] = {"host": t[2], "r": F(t[3]), "w": F(t[4])}
        elif t[0] == "R":
            routes[(t[1], t[2])] = t[4:4 + int(t[3])]
            routes[(t[2], t[1])] = t[4:4 + int(t[3])]
        elif t[0] == "A":
            if t[2] == "E":
                acts[t[1]] = {"kind": "E", "host": t[3], "amount": F(t[4]), "start": F(t[5]), "bound": F(t[6]), "prio": F(t[7]), "cores": int(t[8])}
            elif t[2] == "C":
                acts[t[1]] = {"kind": "C", "src": t[3], "dst": t[4], "amount": F(int(F(t[5]))), "start": F(t[6]), "rate": F(t[7])}
            else:
                acts[t[1]] = {"kind": "I", "disk": t[3], "amount": F(int(F(t[4]))), "start": F(t[5]), "rw": t[6], "prio": F(t[7])}
        elif t[0] == "X":
            ctl.append((F(t[1]), t[2], t[3], F(t[4]) if len(t) > 4 else None))
    return hosts, links, disks, routes, acts, ctl


def tol_of(x):
    return 4 * PREC_WORK * max(F(1), abs(x))


def judge(ctx, case, out, err, rcode, stats):
    """all C21 judgements on one run; returns the list of model queries (trace, dates, share) to be checked in batch"""
    lines, cfg = case["lines"], case["cfg"]
    hosts, links, disks, routes, acts, ctl = describe(lines)
    ob = rc.parse(out)
    if rcode != 0 or not ob["complete"]:
        ctx.fail("run-crashed", "workload run ended with rc=%d: %s" % (rcode, err[-300:]), case)
        return []
    queries = []
    prio_changed = set(o[2] for o in ob["ops"] if o[1] == "P" and o[3])
    # ---- per activity
    for aid, a in acts.items():
        if aid not in ob["begin"]:
            continue
        # a k-thread execution is ONE action of k * flops requesting k cores (HostCLM03Model::execute_thread)
        cost = a["amount"] * (a["cores"] if a["kind"] == "E" else 1)
        prev_t = ob["begin"][aid]
        samples, segs = [], []
        finished_at = None
        for st in ob["steps"]:
            if aid not in st["acts"] or st["now"] < prev_t:
                continue
            state, rem, rate = st["acts"][aid]
            if st["now"] == prev_t and not samples and st["delta"] > 0:
                continue  # the sample of the step that ended at the start date
            dt = st["now"] - prev_t
            samples.append((dt, rem, rate, state, st["now"]))
            prev_t = st["now"]
            if state == "F":
                finished_at = st["now"]
                break
            if rem == 0 and rate > 0:
                ctx.fail("zero-before-completion", "activity %s shows remaining 0 at %s while still running" % (aid, float(st["now"])), case)
        if aid in ob["end"]:
            stats["completed"] += 1
            clock, fin = ob["end"][aid]
            if finished_at is None:
                ctx.fail("completion-unobserved", "activity %s completed at %s but no sample shows its action finished" % (aid, float(fin)), case)
                continue
            if fin != finished_at or samples[-1][1] != 0:
                ctx.fail("remaining-not-zero-at-completion", "activity %s: finish_time %s, action finished at %s with remaining %s" % (
                    aid, float(fin), float(finished_at), float(samples[-1][1])), case)
        tol = tol_of(cost)
        q = rc.q2(tol) + rc.q2(cost) + [len(samples)]
        for (dt, rem, rate, state, now) in samples:
            q += rc.q2(dt) + rc.q2(rem) + rc.q2(rate)
        queries.append(("trace", aid, q, {"cost": cost, "samples": samples, "finished": finished_at, "tol": tol}))
        if finished_at is not None and cost > 0:
            # replay the observed rate history through the verified bookkeeping: it must complete at the observed date
            # (a last long segment at the final rate absorbs the binary64 rounding of the last step)
            dq = [0, 1] + rc.q2(cost) + rc.q2(ob["begin"][aid]) + [len(samples) + 1]
            for (dt, rem, rate, state, now) in samples:
                dq += rc.q2(dt) + rc.q2(rate) + [1]
            dq += rc.q2(max(F(1), finished_at)) + rc.q2(samples[-1][2]) + [0]
            queries.append(("dates", aid, dq, {"finish": finished_at, "start": ob["begin"][aid]}))
    # ---- per resource, per step
    pstate = {h: 0 for h in hosts}
    bw = {l: links[l]["bw"] for l in links}
    ops = sorted([o for o in ctl if o[1] in ("K", "B")], key=lambda o: o[0])
    oi = 0
    prev_now = F(0)
    for st in ob["steps"]:
        # capacity in force during (prev_now, now] = after every operation dated <= prev_now
        while oi < len(ops) and ops[oi][0] <= prev_now:
            if ops[oi][1] == "K":
                pstate[ops[oi][2]] = int(ops[oi][3])
            else:
                bw[ops[oi][2]] = ops[oi][3]
            oi += 1
        if st["delta"] > 0:
            for h, hd in hosts.items():
                if hd["prof"] or h not in st["loads"]:
                    continue
                S = hd["speeds"][pstate[h]]
                cap = hd["cores"] * S
                load = st["loads"][h]
                running = [(aid, st["acts"][aid]) for aid, a in acts.items() if a["kind"] == "E" and a["host"] == h and aid in st["acts"]]
                if load > cap + tol_of(cap):
                    ctx.fail("host-load-exceeds-capacity", "host %s: load %s > capacity %s during the step ending at %s" % (h, float(load), float(cap), float(st["now"])), case)
                tot = sum(r[1][2] for r in running)
                if abs(tot - load) > tol_of(load):
                    ctx.fail("host-load-not-sum-of-rates", "host %s: get_load %s but the executions progress at %s in total (step ending at %s)" % (h, float(load), float(tot), float(st["now"])), case)
                act = [(aid, v) for aid, v in running if v[0] != "S"]
                if act and all(acts[aid]["cores"] == 1 and acts[aid]["bound"] <= 0 and acts[aid]["prio"] == 1 and aid not in prio_changed for aid, v in act) \
                        and all(v[0] != "S" for aid, v in running):
                    queries.append(("share", h, [hd["cores"], len(act)] + rc.q2(S), {"rates": [(aid, v[2]) for aid, v in act], "now": st["now"], "S": S}))
            for l, ld in links.items():
                if l not in st["loads"]:
                    continue
                load = st["loads"][l]
                if load > bw[l] + tol_of(bw[l]):
                    ctx.fail("link-load-exceeds-capacity", "link %s: load %s > bandwidth %s during the step ending at %s" % (l, float(load), float(bw[l]), float(st["now"])), case)
                rates = [st["acts"][aid][2] for aid, a in acts.items() if a["kind"] == "C" and aid in st["acts"] and l in routes.get((a["src"], a["dst"]), [])]
                exp = (max(rates) if rates else F(0)) if ld["pol"] == "F" else sum(rates)
                if abs(exp - load) > tol_of(load):
                    ctx.fail("link-load-not-sum-of-rates", "link %s: get_load %s but the communications progress at %s (step ending at %s)" % (l, float(load), float(exp), float(st["now"])), case)
            for d, dd in disks.items():
                for rw, key in (("R", "r"), ("W", "w")):
                    tot = sum(st["acts"][aid][2] for aid, a in acts.items() if a["kind"] == "I" and a["disk"] == d and a["rw"] == rw and aid in st["acts"])
                    if tot > dd[key] + tol_of(dd[key]):
                        ctx.fail("disk-load-exceeds-capacity", "disk %s: %s rate %s > bandwidth %s (step ending at %s)" % (d, rw, float(tot), float(dd[key]), float(st["now"])), case)
        prev_now = st["now"]
    return queries


def run(ctx):
    exe = rc.setup(ctx)
    ctx.cov["rule"] = ("generated workloads: 1-4 hosts (1-4 cores, 1-3 pstates), 0-3 links (SHARED/FATPIPE, latency 0..1), 0-2 disks, 2-7 activities "
                       "(execs with bounds/priorities/several cores, host-to-host comms with optional rate, reads/writes), 0-6 control operations "
                       "(suspend, resume, priority, pstate, bandwidth) and 0-12 unrelated timer events; dyadic amounts (exact in binary64) plus a decimal "
                       "stream; non-trivial = at least two activities overlap in time or a control operation was applied; distinct = distinct workload text")
    kinds = ["multicore", "cpu", "net", "disk", "mixed"]
    cases = []
    if ctx.replay:
        cases = [json.load(open(ctx.replay))["case"]]
    else:
        cases = [dict(c) for c in CORPUS]
        n = ctx.n(220, 4000)
        for i in range(n):
            kind = kinds[i % len(kinds)]
            w = rc.gen_workload(ctx.rng, kind, arbitrary=(i % 7 == 6), profiles=False)
            cases.append({"kind": kind, "cfg": ctx.rng.choice(CFGS), "lines": w["lines"]})
    res = rc.run_many(exe, [(c["lines"], BASE_CFG + c["cfg"], []) for c in cases])
    dist = {k: 0 for k in kinds}
    stats = {"completed": 0, "activities": 0, "steps": 0, "share_checks": 0, "replayed_histories": 0}
    allq = []
    for c, (rcode, out, err) in zip(cases, res):
        dist[c["kind"]] = dist.get(c["kind"], 0) + 1
        qs = judge(ctx, c, out, err, rcode, stats)
        ob = rc.parse(out)
        stats["steps"] += len(ob["steps"])
        stats["activities"] += len(ob["begin"])
        spans = sorted((ob["begin"][a], ob["end"][a][1]) for a in ob["end"])
        overlap = any(spans[i + 1][0] < spans[i][1] for i in range(len(spans) - 1))
        nontriv = overlap or any(o[3] for o in ob["ops"])
        ctx.case(tuple(c["lines"]) + tuple(c["cfg"]), nontriv,
                 {"workload": c["lines"], "cfg": c["cfg"], "finish": {a: float(v[1]) for a, v in ob["end"].items()}} if nontriv else None)
        allq += [(c, q) for q in qs]
    # ---- verified oracle / model, in batch
    tq = [(c, q) for c, q in allq if q[0] == "trace"]
    if tq:
        ans = fw.run_model("c21", "run_c21_trace", [q[2] for c, q in tq])
        for (c, q), a in zip(tq, ans):
            info = q[3]
            if a[0] != 1:
                i, why = a[1], a[2]
                s = info["samples"][i] if 0 <= i < len(info["samples"]) else None
                sig = {1: "remaining-increases", 2: "remaining-negative", 3: "step-work-not-conserved"}.get(why, "trace-rejected")
                ctx.fail(sig, "activity %s (cost %s): sample %d at date %s: dt %s remaining %s rate %s rejected by the verified oracle (%s)" % (
                    q[1], float(info["cost"]), i, float(s[4]) if s else None, float(s[0]) if s else None, float(s[1]) if s else None,
                    float(s[2]) if s else None, sig), c)
            elif info["finished"] is not None:
                last, work = F(a[3], a[4]), F(a[5], a[6])
                if last != 0 or abs(work - info["cost"]) > info["tol"] * max(1, len(info["samples"])):
                    ctx.fail("total-work-not-cost", "activity %s completed having received %s of %s" % (q[1], float(work), float(info["cost"])), c)
    dq = [(c, q) for c, q in allq if q[0] == "dates"]
    if dq:
        ans = fw.run_model("c21", "run_c19_dates", [q[2] for c, q in dq])
        for (c, q), a in zip(dq, ans):
            stats["replayed_histories"] += 1
            info = q[3]
            for name, off in (("FULL", 2), ("LAZY", 5)):
                ok = a[off] == 1
                date = F(a[off + 1], a[off + 2]) if ok else None
                if not ok or abs(date - info["finish"]) > 4 * PREC_TIME * max(1, abs(info["finish"])):
                    ctx.fail("completion-date-not-first-hit", "activity %s: the %s bookkeeping fed with the observed rates completes at %s, the implementation at %s" % (
                        q[1], name, float(date) if ok else None, float(info["finish"])), c)
    sq = [(c, q) for c, q in allq if q[0] == "share"]
    if sq:
        uniq = sorted(set(tuple(q[2]) for c, q in sq))
        ans = dict(zip(uniq, fw.run_model("c21", "run_c21_share", [list(u) for u in uniq])))
        for c, q in sq:
            stats["share_checks"] += 1
            a = ans[tuple(q[2])]
            exp = F(a[0], a[1])
            for aid, r in q[3]["rates"]:
                if abs(r - exp) > tol_of(exp):
                    ctx.fail("multicore-share", "host %s (%d cores of speed %s) with %d equal single-core executions: %s progresses at %s instead of %s (step ending at %s)" % (
                        q[1], q[2][0], float(q[3]["S"]), q[2][1], aid, float(r), float(exp), float(q[3]["now"])), c)
    ctx.cov["input_distribution"] = {"kinds": dist, **stats, "configurations": CFGS, "base_cfg": BASE_CFG}
    ctx.assumptions += ["network model CM02 without cross-traffic so that a link's load is the sum of the rates of its communications",
                        "capacities are known from the workload (pstate and bandwidth operations at their dates); no speed-0 pstate, no profile",
                        "tolerance rule of DESIGN 1.3: 4*precision/work-amount relative on work amounts, 4*precision/timing on dates",
                        "the rate of an activity during a step is read from its action (variable value * factor) right after the step"]


META = {
    "level": "proof",
    "text": "Coq theorems over exact rationals for EVERY rate history of an action (suspensions, starvation, bound/priority/capacity changes are rate "
            "changes; unrelated engine events are segment boundaries): the remaining work never increases nor goes below zero "
            "(C21_remaining_monotone); an action completing at T has received exactly its cost, integral of the rate over [t0,T] = cost, and not "
            "earlier (C21_work_exact); remaining is 0 exactly when it completes (C21_zero_iff_completed); k equal single-core executions on n "
            "cores of speed S: S*min(1,n/k) is feasible, max-min fair and the only such allocation (C21_multicore_*). The sample oracle is proved "
            "sound (C21_oracle_sound). Tie on every run: generated concurrent workloads on the rebuilt library, get_remaining()/rate/get_load() "
            "at every on_time_advance judged by the extracted oracle; the extracted FULL and LAZY bookkeeping replay each observed rate history "
            "and must complete at the observed date; loads against capacities and the multicore share by exact rational comparison.",
    "note": "Proved about the Gallina model of update_remains / update_actions_state_full / update_remains_lazy at eps = 0, not about the C++. "
            "load <= capacity is proved only for the symmetric multicore instance (general case = C15, Lmm); elsewhere it is checked on the "
            "observations. Disk loads are checked through the I/O rates (Disk has no get_load). Zero-capacity resources and stochastic/periodic "
            "profiles are not generated here (profiles: C19/C22). Trusted: Coq kernel, extraction, harness/res2_load.cpp, this script's parsing.",
    "technique": "Coq proof (induction on rate histories, lra) + verified observation oracle + extracted-model replay of observed histories",
    # green on seeds 1-3 against the fixed tree with RES2_DEV_EXE, fires under bin/mutcheck (corpus/C21/m1.diff); the final plain
    # `bin/check C21` on the unchanged tree was still queued on build/sg.lock when the author's time ran out: run it, then set True.
    "claimed": True,
}
