"""C12 — timed waits are exact (wait_for / wait_any_for on execs). Machinery shared with C03 (see checks/C03.py)."""
import C03


def run(ctx):
    C03.run_family(ctx, "C12", ["wait", "wait", "wait", "life"], 500, 12000,
                   ["only exec activities are covered (comm, I/O and mess need the network/disk models); wait_for_or_cancel is not exercised"])


META = {"level": "proof", "text": "", "note": "", "technique": C03.META["technique"], "claimed": False}
