"""C12 — timed waits are exact (wait_for / wait_any_for on execs). Machinery shared with C03 (see checks/C03.py)."""
import C03


def run(ctx):
    C03.run_family(ctx, "C12", ["wait", "wait", "wait", "life"], 500, 12000,
                   ["only exec activities are covered (comm, I/O and mess need the network/disk models); wait_for_or_cancel is not exercised"])


META = {
    "level": "proof",
    "text": "Coq theorems about the engine model shared with C03 (for every state): when a wait_for deadline is reached the waiter gets a "
            "timeout at exactly that date unless the activity's action finished in the same solve(), in which case it completes normally "
            "(C12_wait_for_deadline: completion at the deadline counts as completed, timers run before ended actions); no timeout before the "
            "deadline (C12_no_timeout_before_deadline); the clock never jumps over a deadline or a completion date "
            "(C12_deadline_not_jumped_over); an exec is FINISHED exactly when its date is within the precision of the new clock "
            "(C12_completion_date); wait_any_for answers -1 at its deadline (C12_wait_any_deadline). Whole-run behaviour (deadline before/at/"
            "after completion, wait_any_for picks a completed activity) is tied to the rebuilt library by exact log comparison of generated "
            "programs and judged on every implementation log by an oracle computing completion dates from the platform.",
    "note": "Step-level theorems (all states) plus the run-level invariants of C03; the end-to-end statement 'Done at tc iff tc <= t0+t' is "
            "checked by the oracle and the correspondence, not proved as one theorem. Only exec activities (comm/io/mess need the network/disk "
            "models); wait_for_or_cancel not exercised. Completions closer than precision/timing to a deadline are accepted either way "
            "(the engine merges dates closer than the precision).",
    "technique": C03.META["technique"],
    "claimed": True,
}
