"""C12 — timed waits are exact (wait_for / wait_for_or_cancel / wait_any_for).
Two families: execs through the engine model shared with C03 (see checks/C03.py), and communications / disk I/Os through
the model SGV.Kernel.TimedComm (a comm has no model action until both sides are posted; the deadline callback reads the
action when the timer fires) with the interpreter harness/c12_comm.cpp."""
import json
import fw
import C03
from C03 import ticks

# ------------------------------------------------------------------------------------------------- comm / io family
# Programs for harness/c12_comm.cpp and the Coq model SGV.Kernel.TimedComm.run_tc (same integer encoding).
K_SLEEP, K_PUT, K_GET, K_WAIT, K_PUTT, K_GETT, K_IO, K_WAITC, K_PUTW, K_GETW = 1, 2, 3, 4, 5, 6, 7, 8, 9, 10
POSTS_SND = {K_PUT, K_PUTT, K_PUTW}
POSTS_RCV = {K_GET, K_GETT, K_GETW}
WAITS = {K_WAIT: 2, K_WAITC: 2, K_PUTT: 3, K_GETT: 2, K_PUTW: 3, K_GETW: 2}      # op code -> index of the timeout
CANCELLING = {K_WAITC, K_PUTT, K_GETT}
INF = float("inf")


def encode_tc(case):
    out = [case["k"], case["p"], len(case["progs"])]
    for pr in case["progs"]:
        out.append(len(pr))
        for o in pr:
            out += list(o)
    return out


def gen_pair(rng):
    """One comm between actor 1 (sender) and actor 2 (receiver): the waiter posts at a, the peer at b, the payload lasts d,
    the deadline is placed before / at / after the natural completion tc = max(a, b) + d."""
    k, p = rng.choice([(32, 4), (32, 4), (30, 1), (34, 16)])
    U = 1 << (k - 2)
    d = U * rng.randint(1, 6)
    a, b = U * rng.randint(0, 4), U * rng.randint(0, 4)
    if rng.random() < 0.6:
        b = a + U * rng.randint(1, 4)                  # the waiter is there first: its comm has no action yet
    e = rng.choice([0, 0, 0, U, 2 * U])                # pause between posting and waiting
    tc = max(a, b) + d
    place = rng.choice(["before", "at", "at", "at", "after", "tick-before", "tick-after", "prec-before", "prec-after", "never"])
    td = {"before": tc + U * rng.randint(1, 3), "at": tc, "after": max(a + e, tc - U * rng.randint(1, 3)),
          "tick-before": tc + 1, "tick-after": max(a + e, tc - 1), "prec-before": tc + p, "prec-after": max(a + e, tc - p),
          "never": tc + U}[place]
    t = max(0, td - (a + e))
    waiter_sends = rng.random() < 0.5
    style = rng.choice(["wait", "wait", "cancel", "short", "one"]) if e == 0 else rng.choice(["wait", "wait", "cancel"])
    w, peer = [], []
    if a:
        w.append((K_SLEEP, a))
    if style in ("wait", "cancel"):
        w.append((K_PUT, 1, d) if waiter_sends else (K_GET, 1))
        if e:
            w.append((K_SLEEP, e))
        w.append((K_WAIT if style == "wait" else K_WAITC, 1, t))
        if style == "wait":
            w.append((K_WAIT, 1, rng.choice([-1, -1, U, 8 * U])))       # after a timeout: observe the natural completion
    elif style == "short":
        w.append((K_PUTT, 1, d, t) if waiter_sends else (K_GETT, 1, t))
    else:
        w.append((K_PUTW, 1, d, t) if waiter_sends else (K_GETW, 1, t))
    w.append((K_SLEEP, 40 * U))
    if b:
        peer.append((K_SLEEP, b))
    if place == "never":
        peer.append((K_SLEEP, U))
    else:
        peer.append((K_GET, 1) if waiter_sends else (K_PUT, 1, d))
        r = rng.random()
        if r < 0.5:
            peer.append((K_WAIT, 1, -1))
        elif r < 0.8:
            peer.append((K_WAIT, 1, rng.choice([d, d, d + U, max(0, d - U), d + 1, max(0, d - 1)])))
            peer.append((K_WAIT, 1, -1))
        else:
            peer.append((K_WAITC, 1, rng.choice([d, d + U, max(0, d - U)])))
    peer.append((K_SLEEP, 43 * U))
    progs = [w, peer] if waiter_sends else [peer, w]
    if rng.random() < 0.3:                              # a bystander producing other dates (sleeps and a disk I/O)
        x = [(K_SLEEP, U * rng.randint(0, 3) + rng.choice([0, 1, p])), (K_IO, 7, U * rng.randint(1, 5)),
             (K_WAIT, 7, rng.choice([-1, U, 2 * U])), (K_WAIT, 7, -1), (K_SLEEP, U * rng.randint(1, 4))]
        progs.append(x)
    return {"fam": "comm", "k": k, "p": p, "progs": progs}


def gen_io(rng):
    k, p = rng.choice([(32, 4), (30, 1), (34, 16)])
    U = 1 << (k - 2)
    progs = []
    for a in range(rng.randint(1, 2)):
        pr, c = [], 10 * (a + 1)
        for _ in range(rng.randint(1, 3)):
            c += 1
            d = U * rng.randint(1, 6) + rng.choice([0, 0, 0, 1])
            e = rng.choice([0, 0, U])
            pr.append((K_IO, c, d))
            if e:
                pr.append((K_SLEEP, e))
            t = rng.choice([d - e, d - e, d - e + U, max(0, d - e - U), d - e + 1, max(0, d - e - 1), d - e + p, max(0, d - e - p), 0, -1])
            pr.append((rng.choice([K_WAIT, K_WAIT, K_WAITC]), c, t))
            if pr[-1][0] == K_WAIT:
                pr.append((K_WAIT, c, rng.choice([-1, U])))
        pr.append((K_SLEEP, (8 + a) * U))
        progs.append(pr)
    return {"fam": "comm", "k": k, "p": p, "progs": progs}


def gen_mix(rng):
    """2-3 actors, several comm ids (each with one sender and one receiver) and I/Os, random order and timeouts on the grid."""
    k, p = rng.choice([(32, 4), (32, 4), (30, 1), (34, 16)])
    U = 1 << (k - 2)
    n = rng.randint(2, 3)
    progs = [[] for _ in range(n)]
    open_ = [[] for _ in range(n)]
    for c in range(1, rng.randint(2, 4)):
        s, r = rng.sample(range(n), 2)
        d = U * rng.randint(1, 5)
        for who, o in ((s, (K_PUT, c, d)), (r, (K_GET, c))):
            if rng.random() < 0.6:
                progs[who].append((K_SLEEP, U * rng.randint(0, 3)))
            progs[who].append(o)
            open_[who].append((c, d))
            if rng.random() < 0.7:
                cc, dd = rng.choice(open_[who])
                t = rng.choice([-1, 0, dd, dd + U, dd + 2 * U, max(0, dd - U), dd + 1, 2 * dd])
                progs[who].append((rng.choice([K_WAIT, K_WAIT, K_WAITC]), cc, t))
    for a in range(n):
        if rng.random() < 0.3:
            progs[a].insert(rng.randint(0, len(progs[a])), (K_IO, 20 + a, U * rng.randint(1, 4)))
            progs[a].append((K_WAIT, 20 + a, rng.choice([-1, U, 3 * U])))
        for cc, dd in open_[a]:
            if rng.random() < 0.8:
                progs[a].append((K_WAIT, cc, rng.choice([-1, -1, 4 * U])))
        if rng.random() < 0.85:
            progs[a].append((K_SLEEP, (60 + 3 * a) * U))
    return {"fam": "comm", "k": k, "p": p, "progs": progs}


S32 = 1 << 32
CORPUS_TC = [
    # sender posts and waits first, the receiver arrives 1 s later, completion exactly AT the deadline: completed, not timed out
    {"fam": "comm", "k": 32, "p": 4, "progs": [[(K_PUT, 1, 2 * S32), (K_WAIT, 1, 3 * S32)], [(K_SLEEP, S32), (K_GET, 1), (K_WAIT, 1, -1)]]},
    # receiver first, wait_for_or_cancel / Mailbox::get(t) with the completion at the deadline: neither timeout nor cancel
    {"fam": "comm", "k": 32, "p": 4, "progs": [[(K_SLEEP, S32), (K_PUT, 1, 2 * S32), (K_WAIT, 1, -1)], [(K_GET, 1), (K_WAITC, 1, 3 * S32)]]},
    {"fam": "comm", "k": 32, "p": 4, "progs": [[(K_SLEEP, S32), (K_PUTT, 1, 2 * S32, 2 * S32)], [(K_GETT, 1, 3 * S32), (K_SLEEP, S32)]]},
    # deadline one tick / one second before the completion: timeout at the deadline; _or_cancel makes the peer fail at that date
    {"fam": "comm", "k": 32, "p": 4, "progs": [[(K_PUT, 1, 2 * S32), (K_WAIT, 1, 3 * S32 - 4), (K_WAIT, 1, -1)], [(K_SLEEP, S32), (K_GET, 1), (K_WAIT, 1, -1)]]},
    {"fam": "comm", "k": 32, "p": 4, "progs": [[(K_PUT, 1, 2 * S32), (K_WAITC, 1, 2 * S32), (K_SLEEP, 4 * S32)], [(K_SLEEP, S32), (K_GET, 1), (K_WAIT, 1, -1)]]},
    # both already there when the wait is issued; nobody ever comes (cancel of an unmatched comm, the late peer never matches)
    {"fam": "comm", "k": 32, "p": 4, "progs": [[(K_PUT, 1, 2 * S32), (K_WAIT, 1, 2 * S32)], [(K_GET, 1), (K_WAIT, 1, 2 * S32 + 1)]]},
    {"fam": "comm", "k": 32, "p": 4, "progs": [[(K_PUT, 1, 2 * S32), (K_WAITC, 1, S32 // 2), (K_SLEEP, 4 * S32)], [(K_SLEEP, S32), (K_GET, 1), (K_WAIT, 1, 3 * S32), (K_SLEEP, S32)]]},
    # disk I/O: deadline at / before / after the completion
    {"fam": "comm", "k": 32, "p": 4, "progs": [[(K_IO, 2, 2 * S32), (K_WAIT, 2, 2 * S32), (K_IO, 3, 2 * S32), (K_WAITC, 3, S32), (K_IO, 4, S32), (K_WAIT, 4, 2 * S32)]]},
    # put_init()->wait_for(t): send and wait in one simcall (fixed defect: the timeout callback asserted on the observer type)
    {"fam": "comm", "k": 32, "p": 4, "progs": [[(K_PUTW, 1, 2 * S32, S32), (K_SLEEP, 6 * S32)], [(K_SLEEP, 2 * S32), (K_GETT, 1, 3 * S32)]]},
    {"fam": "comm", "k": 32, "p": 4, "progs": [[(K_SLEEP, S32), (K_PUT, 1, 2 * S32), (K_WAIT, 1, -1)], [(K_GETW, 1, 3 * S32), (K_SLEEP, S32)], [(K_GETW, 2, S32)]]},
]


def parse_tc_impl(line, k):
    obs = {"rets": {}, "end": None, "crash": None}
    for ent in line.split("|"):
        t = ent.split()
        if "CRASH" in t:
            obs["crash"] = " ".join(t[t.index("CRASH"):])
            t = t[:t.index("CRASH")]
        if not t:
            continue
        if t[0] == "R":
            obs["rets"].setdefault(int(t[1]), []).append((int(t[2]), ticks(t[3], k), ticks(t[4], k), int(t[5])))
        elif t[0] == "E":
            obs["end"] = ticks(t[1], k)
    return obs


def parse_tc_model(m):
    flags = {"ended": m[0], "amb": m[1], "stuck": m[2]}
    obs = {"rets": {}, "end": m[3], "crash": None}
    for i in range(4, len(m), 5):
        obs["rets"].setdefault(m[i], []).append((m[i + 1], m[i + 2], m[i + 3], m[i + 4]))
    return flags, obs


def oracle_tc(case, obs, dist=None):
    """The property text evaluated on an implementation log: every natural completion date is computed from the dates at
    which the two sides were posted (observed) and the payload duration (platform)."""
    bad = []
    p, progs = case["p"], case["progs"]
    if obs["crash"]:
        return [("crash", "the simulation died: %s" % obs["crash"])]
    R = obs["rets"]
    ended = {}                                        # actor -> date at which its function returned
    for pid in range(1, len(progs) + 1):
        rs = R.get(pid, [])
        for j, e in enumerate(rs):
            if e[0] != j or j >= len(progs[pid - 1]):
                return [("op-sequence", "actor %d returns from operation %d as its %d-th return" % (pid, e[0], j))]
        if len(rs) == len(progs[pid - 1]):
            ended[pid] = rs[-1][2] if rs else 0
    acts = {}                                         # id -> dict(io, d, posts {role: (pid, date)}, waits [...], cancels [(date, pid)])
    for pid in range(1, len(progs) + 1):
        rs = R.get(pid, [])
        for j, o in enumerate(progs[pid - 1]):
            if o[0] == K_SLEEP:
                continue
            ret = rs[j] if j < len(rs) else None
            started = j < len(rs) or j == len(rs)     # the op was at least called (the previous one returned)
            if ret is not None and ret[3] == -9:
                continue
            c = o[1]
            A = acts.setdefault(c, {"io": False, "d": None, "posts": {}, "waits": [], "cancels": []})
            t_call = ret[1] if ret else (rs[j - 1][2] if j and j - 1 < len(rs) else 0 if j == 0 else None)
            if not started or t_call is None:
                continue
            if o[0] == K_IO:
                A["io"], A["d"] = True, o[2]
                A["posts"]["io"] = (pid, t_call)
            elif o[0] in POSTS_SND:
                A["d"] = o[2]
                A["posts"]["snd"] = (pid, t_call)
            elif o[0] in POSTS_RCV:
                A["posts"]["rcv"] = (pid, t_call)
            if o[0] in WAITS:
                t = o[WAITS[o[0]]]
                A["waits"].append({"pid": pid, "op": j, "t0": t_call, "t": t, "ret": ret, "cancelling": o[0] in CANCELLING})
                if ret and o[0] in CANCELLING and ret[3] in (1, 11):
                    A["cancels"].append((ret[2], pid))
    for c, A in acts.items():
        for role, (pid, _) in A["posts"].items():
            if pid in ended:
                A["cancels"].append((ended[pid], pid))   # an actor that ends cancels what it still takes part in
    for c, A in sorted(acts.items()):
        if A["io"]:
            start = A["posts"]["io"][1]
        elif "snd" in A["posts"] and "rcv" in A["posts"]:
            start = max(A["posts"]["snd"][1], A["posts"]["rcv"][1])
        else:
            start = INF
        for w in A["waits"]:
            others = [dt for dt, q in A["cancels"] if q != w["pid"]]
            if start != INF and any(abs(dt - start) < p for dt in others):
                continue                                               # a cancel and the match at one date: order not judged
            never = start == INF or any(dt < start for dt in others)  # the peer withdrew before the match: never matched
            tc = INF if never else start + A["d"]
            kills = [dt for dt in others if start <= dt < tc] if tc != INF else []
            fail = min(kills) if kills else INF
            if fail != INF and abs(fail - tc) < p:
                continue
            first, want_res = (tc, 0) if tc <= fail else (fail, 3)
            t0, t, ret = w["t0"], w["t"], w["ret"]
            td = t0 + t if t >= 0 else INF
            what = "actor %d op %d %s on %s %d called at %s: posted %s, payload %s, natural completion %s, peer cancel %s, deadline %s: " % (
                w["pid"], w["op"], progs[w["pid"] - 1][w["op"]], "io" if A["io"] else "comm", c, t0,
                {r: v[1] for r, v in A["posts"].items()}, A["d"], tc, fail, td)
            near = first != INF and td != INF and first != td and abs(first - td) < p
            if dist is not None:
                dist["waits_judged"] += 1
                if first == td and want_res == 0:
                    dist["deadline_at_completion"] += 1
                    if not A["io"] and t0 < start:
                        dist["waiter_first_deadline_at_completion"] += 1
            if want_res == 3 and first == td:
                # a peer's cancel (itself a timer callback of wait_for_or_cancel, or the peer's end) at exactly this waiter's
                # deadline: which of the two same-date timers runs first is heap insertion order, not fixed by the property
                if dist is not None:
                    dist["cancel_at_deadline_not_judged"] = dist.get("cancel_at_deadline_not_judged", 0) + 1
                continue
            exp_done = first <= td if want_res == 0 else first < td
            if ret is None:
                if (first != INF or td != INF) and obs["end"] is not None and min(first, td) + p <= obs["end"] and w["pid"] not in ended:
                    bad.append(("wait-never-returned", what + "it never returned (simulation ended at %s)" % obs["end"]))
                continue
            _, r0, r1, res = ret
            if res == 11:
                bad.append(("or-cancel-not-canceled", what + "timed out at %s but the activity is not CANCELED afterwards" % r1))
                continue
            done_ok = (res == want_res or (want_res == 3 and res == 2)) and r1 <= max(t0, first) < r1 + p
            tout_ok = res == 1 and r1 == td
            if near:
                ok = done_ok or tout_ok
            elif exp_done:
                ok = done_ok
            else:
                ok = tout_ok
            if not ok:
                if exp_done and res == 1:
                    sig = "timeout-despite-completion"
                elif not exp_done and res == 0:
                    sig = "completed-after-deadline"
                elif not exp_done and res == 1:
                    sig = "timeout-inexact"
                elif exp_done and res == want_res:
                    sig = "completion-date-wrong"
                else:
                    sig = "wait-wrong-result"
                bad.append((sig, what + "returned %d at %s, expected %s" % (res, r1, ("%d at %s" % (want_res, max(t0, first))) if exp_done else "a timeout (1) at %s" % td)))
    return bad


# ------------------------------------------------------------------------------------------------- driver
def comm_family(ctx, replay_case=None):
    drv = fw.build_harness("c12_comm")
    if replay_case is not None:
        cases = [replay_case]
    else:
        cases = [dict(c) for c in CORPUS_TC]
        gens = [gen_pair, gen_pair, gen_pair, gen_io, gen_mix]
        for i in range(ctx.n(300, 8000)):
            cases.append(gens[i % len(gens)](ctx.rng))
    for c in cases:
        c["progs"] = [[tuple(o) for o in pr] for pr in c["progs"]]
    enc = [encode_tc(c) for c in cases]
    model = fw.run_model("c12", "run_tc", enc)
    rc, impl, err = fw.run_lines(drv, [], [" ".join(map(str, e)) for e in enc], timeout=3000)
    if rc != 0 or len(impl) != len(cases):
        raise fw.BuildError("c12_comm ended with rc=%d after %d/%d cases: %s" % (rc, len(impl), len(cases), err[-300:]))
    dist = {"cases": len(cases), "ambiguous_ties": 0, "model_out_of_fuel": 0, "compared_exactly": 0, "ops": {},
            "waits_judged": 0, "deadline_at_completion": 0, "waiter_first_deadline_at_completion": 0}
    for c, m, il in zip(cases, model, impl):
        flags, mo = parse_tc_model(m)
        io = parse_tc_impl(il, c["k"])
        for pr in c["progs"]:
            for o in pr:
                dist["ops"][o[0]] = dist["ops"].get(o[0], 0) + 1
        nontrivial = sum(len(v) for v in io["rets"].values()) > len(c["progs"]) and io["end"] not in (None, 0)
        ctx.case(("comm", c["k"], c["p"], str(c["progs"])), nontrivial, {"case": c, "impl": il[:300]} if nontrivial else None)
        verdict = oracle_tc(c, io, dist)
        for sig, what in verdict:
            ctx.fail(sig, what + " | case " + json.dumps(c), c)
        if not flags["ended"] or flags["stuck"]:
            dist["model_out_of_fuel"] += 1
            continue
        same = mo["rets"] == io["rets"] and mo["end"] == io["end"] and not io["crash"]
        if flags["amb"]:
            dist["ambiguous_ties"] += 1
            if not same and len(ctx.notes) < 5:
                ctx.notes.append("tie order differs (not an alarm) on %s" % json.dumps(c))
            continue
        dist["compared_exactly"] += 1
        if not same and not verdict:
            ctx.mismatch("correspondence SGV.Kernel.TimedComm.run_tc vs c12_comm",
                         "model %s\nimpl  %s\nend model %s impl %s" % (mo["rets"], io["rets"], mo["end"], io["end"]), c)
    ctx.cov.setdefault("input_distribution", {})["comm_io_family"] = dist
    ctx.cov["rule"] = (ctx.cov.get("rule", "") + " || comm/io family: 2-3 actors, one mailbox per comm, put_async/get_async/Mailbox::put|get(timeout)/"
                       "put_init|get_init()->wait_for (one simcall)/disk read|write_async, wait_for and wait_for_or_cancel; the waiter posts before, "
                       "with or after its peer; deadline before / at / after (by a grid step, one tick, one precision) the natural completion "
                       "max(post dates) + size/bandwidth; non-trivial = the clock advanced and some operation returned")
    ctx.assumptions += ["comm/io family: every pair of hosts has its own FATPIPE link of 2^k B/s without latency, network model CM02 without "
                        "cross-traffic, one private disk per I/O: durations are size/bandwidth exactly (dyadic), independent of other traffic",
                        "comm/io family: one put and one get per mailbox, an activity is waited by the actors that posted it only, no wait "
                        "after a completed / failed / cancelled wait on the same handle; no wait_any_for on comms (covered on execs)",
                        "comm/io family: two actions ending or two timers answering at one date: the model flags the case, only the oracle judges it"]
    ctx.cov["trusted_base"] = ctx.cov.get("trusted_base", []) + ["the oracle oracle_tc of checks/C12.py (python, evaluates the property text on the implementation log)"]


def run(ctx):
    rep = json.load(open(ctx.replay))["case"] if ctx.replay else None
    if rep is not None and rep.get("fam") == "comm":
        ctx.simgrid(["simgrid"])
        ctx.prove()
        comm_family(ctx, rep)
        return
    C03.run_family(ctx, "C12", ["wait", "wait", "wait", "life"], 500, 12000,
                   ["exec family: only exec activities; wait_for_or_cancel on execs is not exercised (it is on comms and I/Os)"])
    if rep is None:
        comm_family(ctx)


META = {
    "level": "proof",
    "text": "Coq theorems. (1) End to end for one timed wait on a comm / I/O (C12_wait_for_exact, C12_wait_for_exact_unmatched, "
            "C12_wait_for_never_matched, C12_wait_untimed): for every increasing sequence of engine dates containing the deadline td = t0+t and "
            "the completion date tc (neither is ever jumped over: C12_comm_dates_not_jumped_over, C12_comm_deadline_is_pending, "
            "C12_comm_completion_is_pending), whatever happens at the other dates: tc <= td -> the wait returns Done at tc (a completion AT the "
            "deadline counts as completed), td < tc -> TimeoutException at td, and with wait_for_or_cancel the activity is then cancelled (out of "
            "its mailbox, or its action FAILED and out of the heap: C12_or_cancel_never_completes). The unmatched case covers a comm that has NO "
            "model action when wait_for is called (peer posts later at ts, tc = ts + size/bw): the deadline callback reads the action when the "
            "timer fires. (2) Step theorems on the engine models (all states): C12_comm_deadline_reads_current_action / C12_wait_for_deadline "
            "(timeout at the deadline unless the action finished in this very solve), C12_*_no_timeout_before_deadline, "
            "C12_comm_unmatched_put|get_has_no_action, C12_comm_put|get_match_creates_action, C12_comm_finish_answers_waiters, "
            "C12_comm_completion_date / C12_completion_date, C12_deadline_not_jumped_over, C12_wait_any_deadline (execs). Both models are tied to "
            "the rebuilt library by exact log comparison of generated programs (execs: checks/C03.py; comms and I/Os: sender-first / receiver-first, "
            "put_async/get_async + wait_for, wait_for_or_cancel, Mailbox::put/get(timeout), one-simcall put_init()->wait_for, disk read/write) and "
            "every implementation log is judged by an oracle that computes each natural completion date from the observed post dates and the "
            "platform and places the deadline before / at / after it.",
    "note": "The end-to-end theorems are about the single-wait episode [ep_visit] built from the same three local rules (pop_astate, timer_skips, "
            "ended_result) and in the same order (solve, timers, ended actions, sub-rounds) as the executable engine [advance]; that the whole-program "
            "engine follows the episode for each wait is established by construction and by the correspondence, not by a theorem. Dates closer than "
            "precision/timing are merged by the engine: the theorems assume visited dates equal or >= precision apart from tc (hypothesis separated), "
            "the oracle accepts either outcome there. wait_any_for is modelled on execs only; its timer has no right-on-time test, so an activity "
            "completing exactly at the deadline is reported as a timeout, which the text allows ('completed before the deadline'). Mess activities "
            "and comm suspension are not modelled. Defect fixed in /repo: put_init()/get_init()->wait_for(t) (Comm::send/recv in one simcall) aborted "
            "on xbt_assert(observer != nullptr) when the timeout fired; now raises TimeoutException at the deadline (see KNOWN_FINDINGS).",
    "technique": C03.META["technique"],
    "claimed": True,
}
