"""Helpers shared by the routing checks C24, C25, C26 (platform runs in parallel processes, model runs in chunks)."""
from concurrent.futures import ThreadPoolExecutor
import fw


def run_platforms(drv, plats, timeout=300):
    """plats: list of lists of description lines for harness/routing_drv (one process each: a process can build only
    one Engine). Returns list of (rc, out_lines, err)."""
    def one(lines):
        return fw.run_lines(drv, ["--log=root.thres:critical"], lines, timeout=timeout)
    with ThreadPoolExecutor(max_workers=max(2, fw.NCPU)) as ex:
        return list(ex.map(one, plats))


def parse_routes(out):
    """-> dict (src, dst) -> ('R', lat, [links]) | ('X', msg); plus the list of unexpected lines (build errors)"""
    res, bad = {}, []
    for l in out:
        t = l.split()
        if not t:
            continue
        if t[0] == "R":
            res[(t[1], t[2])] = ("R", float(t[3]), t[4:])
        elif t[0] == "X":
            res[(t[1], t[2])] = ("X", " ".join(t[3:]))
        else:
            bad.append(l)
    return res, bad


def run_model_par(area, fn, cases, chunk=3000):
    """like fw.run_model, but the model binary is built once and run in parallel on chunks of the cases."""
    if not cases:
        return []
    exe = fw.build_model(area)

    def one(cs):
        inp = "\n".join(" ".join(str(int(x)) for x in c) for c in cs) + "\n"
        rc, so, se = fw.sh2([exe, fn], inp=inp, timeout=3600)
        lines = so.split("\n")
        if lines and lines[-1] == "":
            lines.pop()
        if rc != 0 or len(lines) != len(cs):
            raise fw.BuildError("model %s/%s failed (rc %d, %d answers for %d cases): %s" % (area, fn, rc, len(lines), len(cs), se[-2000:]))
        return [[int(t) for t in l.split()] for l in lines]
    chunks = [cases[i:i + chunk] for i in range(0, len(cases), chunk)]
    with ThreadPoolExecutor(max_workers=max(2, fw.NCPU)) as ex:
        res = list(ex.map(one, chunks))
    return [r for c in res for r in c]
