"""C15 — sharing solvers never exceed capacities.
Proof : for the exact-rational Gallina model of MaxMin::maxmin_solve (theories/Lmm/Maxmin.v) the allocation is feasible for
        every snapshot with positive capacities, whatever the fuel (Props/Properties_C15.v); the checker alloc_feasible_b is sound
        and complete for the four inequalities of the statement; on the System model a variable whose requested penalty is 0 is
        neither enabled nor staged after any history.
K     : maxmin: the extracted model solves the system dumped by the implementation at every solve(); values agree within
        4*precision/work-amount (relative).
O     : alloc_feasible_b runs on every solve() of the real MaxMin, FairBottleneck and BmfSystem over random histories."""
import json
import fw
import lmm_common as L
from fractions import Fraction as F

SOLVERS = ("maxmin", "fairbottleneck", "bmf")

CORPUS = [
    # FATPIPE, A bounded by 1, B free (fairbottleneck: B = 55 > 10)
    [(L.NEWC, F(10), 0, -1), (L.NEWV, F(1), F(1)), (L.NEWV, F(1), F(-1)), (L.EXPAND, 0, 0, F(1)), (L.EXPAND, 0, 1, F(1)), (L.SOLVE,)],
    # capacity set to 0 after a solve (maxmin keeps the stale value)
    [(L.NEWC, F(10), 1, -1), (L.NEWV, F(1), F(-1)), (L.EXPAND, 0, 0, F(1)), (L.SOLVE,), (L.CBOUND, 0, F(0)), (L.SOLVE,)],
    # zero-capacity constraint and a positive one
    [(L.NEWC, F(0), 1, -1), (L.NEWC, F(8), 1, -1), (L.NEWV, F(1), F(-1)), (L.EXPAND, 0, 0, F(1)), (L.EXPAND, 1, 0, F(1)), (L.SOLVE,)],
    # staged variable suspended, then the running one is freed: the suspended one must keep rate 0
    [(L.NEWC, F(10), 1, 1), (L.NEWV, F(1), F(-1)), (L.NEWV, F(1), F(-1)), (L.EXPAND, 0, 0, F(1)), (L.EXPAND, 0, 1, F(1)),
     (L.PEN, 1, F(0)), (L.FREE, 0), (L.SOLVE,)],
    # penalties, weights < 1, bounds
    [(L.NEWC, F(5, 2), 1, -1), (L.NEWV, F(1), F(3)), (L.NEWV, F(4), F(3)), (L.EXPAND, 0, 0, F(1, 4)), (L.EXPAND, 0, 1, F(2)), (L.SOLVE,)],
    [(L.NEWC, F(3), 1, -1), (L.NEWC, F(8), 0, -1), (L.NEWV, F(1), F(-1)), (L.NEWV, F(2), F(1, 2)), (L.NEWV, F(1, 2), F(-1)),
     (L.EXPAND, 0, 0, F(1)), (L.EXPAND, 0, 1, F(1)), (L.EXPAND, 1, 1, F(2)), (L.EXPAND, 1, 2, F(1)), (L.EXPAND, 0, 2, F(1, 2)), (L.SOLVE,),
     (L.PEN, 0, F(0)), (L.SOLVE,), (L.VBOUND, 2, F(1, 4)), (L.SOLVE,)],
]


def clauses(s):
    """which inequality fails (only used to name the signature; the verdict is the Coq checker's)"""
    tol, out = L.TOL, []
    val = [x["value"] if x["alive"] else F(0) for x in s.vars]
    for k in s.cns:
        if k["shared"]:
            if sum(w * val[v] for v, w in k["en"]) > k["bound"] * (1 + tol):
                out.append("shared-capacity")
        elif any(w * val[v] > k["bound"] * (1 + tol) for v, w in k["en"]):
            out.append("fatpipe-capacity")
    cons = set(v for k in s.cns for v, w in k["en"] if w > 0)
    for v, x in enumerate(s.vars):
        if v in cons and val[v] < 0:
            out.append("negative-rate")
        if v in cons and x["bound"] > 0 and val[v] > x["bound"] * (1 + tol):
            out.append("variable-bound")
        if x["alive"] and x["pen"] <= 0 and val[v] != 0:
            out.append("disabled-nonzero")
    return sorted(set(out)) or ["suspended-nonzero"]


def signature(solver, s, cl):
    fat = any((not k["shared"]) and k["en"] for k in s.cns)
    pens = any(x["alive"] and x["pen"] > 0 and x["pen"] != 1 for x in s.vars)
    zero = any(k["bound"] <= 0 and k["en"] for k in s.cns)
    if solver == "fairbottleneck" and fat and cl == "fatpipe-capacity":
        return "fairbottleneck-fatpipe-capacity"
    if solver == "bmf" and pens and cl in ("variable-bound", "fatpipe-capacity"):
        return "bmf-penalties-" + cl
    if solver == "maxmin" and zero and cl in ("shared-capacity", "fatpipe-capacity"):
        return "maxmin-zero-capacity"
    return "%s-%s" % (solver, cl)


def describe(s):
    return {"constraints(bound,shared,enabled (var,weight))": [(str(k["bound"]), k["shared"], [(v, str(w)) for v, w in k["en"]]) for k in s.cns],
            "variables(penalty,bound,value)": [(str(x["pen"]), str(x["bound"]), float(x["value"])) for x in s.vars]}


def run(ctx):
    ctx.simgrid(["simgrid"])
    ctx.prove()
    drv = fw.build_harness("lmm_drv")
    if ctx.replay:
        rp = json.load(open(ctx.replay))["case"]
        hist, solvers = [L.ops_of_case(rp)], [rp.get("solver", "maxmin")]
    else:
        n = ctx.n(150, 3000)
        hist = list(CORPUS) + [L.gen_history(ctx.rng, nops=ctx.rng.choice([20, 40, 60]), maxc=ctx.rng.choice([2, 4, 12]),
                                             limits=(ctx.rng.random() < 0.3), zero_cap=(0.08 if ctx.rng.random() < 0.15 else 0.0))
                                for _ in range(n)]
        solvers = SOLVERS
    ctx.cov["rule"] = ("random histories (<= 12 constraints SHARED/FATPIPE with capacities in a dyadic set, sometimes 0; <= 20 variables with "
                       "penalties {1/2,1,2,3,4,0}, bounds {none,1/4,1/2,1,3,8}, weights {0,1/16,1/4,1/2,1,3/2,2,3}; concurrency limits in 30% "
                       "of the histories; <= 60 modifications); every solve() of every solver is one evaluation; non-trivial = at least two "
                       "enabled consuming variables share a constraint; distinct = distinct (solver, solved system)")
    stats = {s: {"solves": 0, "aborts": 0, "hangs": 0, "rejected": 0} for s in SOLVERS}
    stats["model_compared"] = 0
    for solver in solvers:
        selective = solver != "bmf" or True
        runs = L.run_driver(drv, solver, selective, hist)
        ocases, where = [], []
        for hi, (h, (segs, crash)) in enumerate(zip(hist, runs)):
            wants = L.wants_after(h)
            if crash is not None:
                case = L.case_of(h[:len(segs) + 1], solver=solver)
                last = segs[-1] if segs else None
                fat = last is not None and any((not k["shared"]) and (k["en"] or k["dis"]) for k in last.cns)
                if crash == 1014:
                    stats[solver]["hangs"] += 1
                    ctx.fail("fairbottleneck-fatpipe-no-termination" if (solver == "fairbottleneck" and fat) else solver + "-no-termination",
                             "%s: solve() does not return within 5 s after: %s" % (solver, L.show(h[:len(segs) + 1])), case)
                elif solver == "bmf" and crash == 1006 and h[len(segs)][0] == L.SOLVE:
                    stats[solver]["aborts"] += 1      # explicit error of the BMF solver (xbt_abort): no allocation is produced
                else:
                    ctx.fail(solver + "-crash", "%s: lmm::System aborts (status %s) after: %s" % (solver, crash, L.show(h[:len(segs) + 1])), case)
            for i, s in enumerate(segs):
                if s.op == L.SOLVE:
                    ocases.append(L.snapshot_ints(s, wants=wants[i]))
                    where.append((hi, i))
        ans = fw.run_model("lmm", "run_alloc_oracle", ocases) if ocases else []
        mcases, mwhere = [], []
        for (hi, i), a in zip(where, ans):
            s, h = runs[hi][0][i], hist[hi]
            stats[solver]["solves"] += 1
            nontriv = any(sum(1 for v, w in k["en"] if w > 0) >= 2 for k in s.cns)
            key = (solver, tuple((k["bound"], k["shared"], tuple(k["en"])) for k in s.cns), tuple((x["pen"], x["bound"]) for x in s.vars))
            ctx.case(key, nontriv, dict(describe(s), solver=solver) if nontriv else None)
            if a[0] != 1:
                stats[solver]["rejected"] += 1
                for cl in clauses(s):
                    ctx.fail(signature(solver, s, cl), "%s: after solve() the allocation violates '%s': %s   [history: %s]" % (
                        solver, cl, describe(s), L.show(h[:i + 1])), L.case_of(h[:i + 1], solver=solver))
            elif solver == "maxmin" and all(k["bound"] > 0 or not k["en"] for k in s.cns):
                mcases.append(L.snapshot_ints(s))
                mwhere.append((hi, i))
        if solver == "maxmin" and mcases:
            mv = fw.run_model("lmm", "run_maxmin", mcases)
            for (hi, i), a in zip(mwhere, mv):
                s, h = runs[hi][0][i], hist[hi]
                vals, done = L.model_values(a, len(s.vars))
                stats["model_compared"] += 1
                if not done:
                    ctx.mismatch("K:C15 maxmin model fuel", "the model's light table is not empty after #variables+1 rounds", L.case_of(h[:i + 1], solver=solver))
                    continue
                for v, x in enumerate(s.vars):
                    iv = x["value"] if x["alive"] else F(0)
                    if abs(iv - vals[v]) > 4 * L.TOL * max(1, abs(vals[v])):
                        ctx.mismatch("K:C15 maxmin_solve model vs MaxMin::maxmin_solve",
                                     "variable %d: implementation %.17g, exact model %s (%.17g) on %s   [history: %s]" % (
                                         v, float(iv), vals[v], float(vals[v]), describe(s), L.show(h[:i + 1])), L.case_of(h[:i + 1], solver=solver))
                        break
    ctx.cov["input_distribution"] = stats
    ctx.assumptions += ["tolerance: relative 1e-5 (precision/work-amount) on capacities and bounds, as System::print() checks itself",
                        "an xbt_abort of the BMF solver ('Unable to find a BMF allocation') is counted as an explicit error, not as a violation",
                        "NONLINEAR/WIFI sharing callbacks are not exercised; solves during whole simulations are not dumped (no hook added)",
                        "model: eps = 0 idealisation of maxmin.cpp; constraints with capacity <= 0 are outside the theorem (finding maxmin-zero-capacity)"]


META = {
    "level": "proof",
    "text": "Coq: for the exact-rational model of MaxMin::maxmin_solve, for every snapshot with positive penalties, non-negative weights and positive "
            "capacities and for every number of rounds, shared loads stay within capacity, every fat-pipe usage within capacity and every value within "
            "[0, bound] (C15_maxmin_*); the checker alloc_feasible_b is sound and complete for these inequalities (C15_oracle_sound_complete); after any "
            "history a variable whose requested penalty is 0 is neither enabled nor staged (C15_penalty0_disabled). Tie: the model re-solves every system "
            "the real MaxMin solved (values within 4e-5 relative) and the verified checker judges every solve() of MaxMin, FairBottleneck and BmfSystem "
            "over random histories. Recorded findings: FairBottleneck on FATPIPE constraints (capacity exceeded, non-termination), BMF with penalties != 1 "
            "(variable bound / fat-pipe capacity exceeded), MaxMin with a zero-capacity constraint (stale or positive rates).",
    "note": "fairbottleneck and bmf are judged by the verified checker only (no algorithm model). Not covered: NONLINEAR callbacks, solves inside full "
            "simulations (Host::get_load / Link::get_usage), floating-point rounding beyond the stated tolerance.",
    "technique": "Coq proof (progressive-filling invariant over Q) + extracted-model differential correspondence + verified allocation checker",
    "claimed": True,
}
