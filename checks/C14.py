"""C14 — real runs conform to the reference interleaving semantics; deadlock reports are sound.

O: the extracted, verified explorer (Kernel/Ref.v, C14_explorer_sound_complete) enumerates every reachable terminal state of
   each generated program; the final observation of the real simulator (per-actor completed operations with their results,
   blocked actors, semaphore values) under every context factory must be one of them, and the engine's deadlock report must
   equal the verified deadlock predicate of that state.
K: the order in which maestro handled the operations of the real run (SIMGRID_VERIF hook in ActorImpl::simcall_handle) is replayed through the extracted reference step function
   (C14_replay_sound): it must be executable, end in a terminal state and give the implementation's own observation.  The
   deterministic engine model's trace (C14_engine_refines) is compared too, as a note only: another fixed scheduling order
   would be a harmless rewrite for this property.
Time: programs without Put/Get are judged by the *timed* reading of the reference (Ref.p_timed: dyadic sleeps and timeouts, a clock that
   jumps to the earliest armed timer only when nobody can step), so that queueing orders forced by dates are binding; the others by the
   untimed reading (sleeps are skips, a pending acquire_timeout may time out at any moment).  Timer events (a sleep is over, an
   acquire_timeout timed out) are part of the replayed schedule (hx field of the harness)."""
import json
import fw
import eng3_common as E
from eng3_common import LOCK, UNLOCK, ACQ, REL, CVWAIT, NOTIFY1, NOTIFYALL, BAR, PUT, GET, SLEEP, ACQT

FACTORIES = ["thread", "raw", "boost"]


def P(nm, sems, nc, bars, nmb, *actors):
    return {"nm": nm, "sems": sems, "nc": nc, "bars": bars, "nmb": nmb, "actors": [(i % 5, list(a)) for i, a in enumerate(actors)]}


CORPUS = [
    # AB/BA: deadlock under the engine's schedule
    P(2, [], 0, [], 0, [(LOCK, 0, 0), (LOCK, 1, 0), (UNLOCK, 1, 0), (UNLOCK, 0, 0)], [(LOCK, 1, 0), (LOCK, 0, 0), (UNLOCK, 0, 0), (UNLOCK, 1, 0)]),
    # FIFO hand-over of a mutex to three waiters, each reports its turn through a mailbox
    P(1, [], 0, [], 1, [(LOCK, 0, 0), (SLEEP, 8, 0), (UNLOCK, 0, 0), (GET, 0, 0), (GET, 0, 0), (GET, 0, 0)],
      [(SLEEP, 1, 0), (LOCK, 0, 0), (PUT, 0, 1), (UNLOCK, 0, 0)], [(SLEEP, 2, 0), (LOCK, 0, 0), (PUT, 0, 2), (UNLOCK, 0, 0)],
      [(SLEEP, 3, 0), (LOCK, 0, 0), (PUT, 0, 3), (UNLOCK, 0, 0)]),
    # lost signal: the notifier runs first -> the waiter blocks for ever
    P(1, [], 1, [], 0, [(LOCK, 0, 0), (NOTIFY1, 0, 0), (UNLOCK, 0, 0)], [(SLEEP, 1, 0), (LOCK, 0, 0), (CVWAIT, 0, 0), (UNLOCK, 0, 0)]),
    # broadcast wakes both waiters, which re-acquire the mutex in FIFO order
    P(1, [], 1, [], 0, [(LOCK, 0, 0), (CVWAIT, 0, 0), (UNLOCK, 0, 0)], [(LOCK, 0, 0), (CVWAIT, 0, 0), (UNLOCK, 0, 0)],
      [(SLEEP, 1, 0), (LOCK, 0, 0), (NOTIFYALL, 0, 0), (UNLOCK, 0, 0)]),
    # semaphore FIFO + barrier of 3 re-armed
    P(1, [0], 0, [3], 0, [(ACQ, 0, 0), (BAR, 0, 0), (BAR, 0, 0)], [(ACQ, 0, 0), (BAR, 0, 0), (BAR, 0, 0)],
      [(REL, 0, 0), (REL, 0, 0), (BAR, 0, 0), (BAR, 0, 0)]),
    # barrier one short: everybody blocked
    P(1, [], 0, [3], 0, [(BAR, 0, 0)], [(BAR, 0, 0)]),
    # rendez-vous order on one mailbox, two senders one receiver
    P(1, [], 0, [], 1, [(PUT, 0, 1)], [(PUT, 0, 2)], [(GET, 0, 0), (GET, 0, 0)]),
    # unmatched put: sender blocked, deadlock
    P(1, [], 0, [], 1, [(PUT, 0, 1), (PUT, 0, 2)], [(GET, 0, 0)]),
]

# timed semaphore acquisitions (kept apart: C01/C02 reuse CORPUS only)
CORPUS_T = [
    # queue [A,B,C] forced by dates 0 < 1 s < 2 s < 10 s; A times out, its release serves B, B's serves C: one outcome, no deadlock
    P(0, [0], 0, [], 0, [(ACQT, 0, 80), (REL, 0, 0)], [(SLEEP, 8, 0), (ACQ, 0, 0), (REL, 0, 0)], [(SLEEP, 16, 0), (ACQ, 0, 0)]),
    # the same at date 0 (timeout 0, no sleeps): queueing order free
    P(0, [0], 0, [], 0, [(ACQT, 0, 0), (REL, 0, 0)], [(ACQ, 0, 0), (REL, 0, 0)], [(ACQ, 0, 0)]),
    # four waiters, the second one times out (3.5 s) while two are queued behind it; releaser at 5 s and 6 s serves A then C; D blocked for ever
    P(0, [0], 0, [], 0, [(ACQ, 0, 0)], [(SLEEP, 4, 0), (ACQT, 0, 24)], [(SLEEP, 8, 0), (ACQ, 0, 0)], [(SLEEP, 12, 0), (ACQ, 0, 0)],
      [(SLEEP, 40, 0), (REL, 0, 0), (SLEEP, 8, 0), (REL, 0, 0)]),
    # granted before the timeout; a timeout on a semaphore with a token; negative timeout = plain acquire
    P(0, [0, 1], 0, [], 0, [(ACQT, 0, 16), (ACQT, 1, 8), (ACQT, 1, 8), (REL, 0, 0)], [(SLEEP, 8, 0), (REL, 0, 0), (ACQT, 0, -8)]),
    # untimed reading (a mailbox is used): the timeout is a free alternative
    P(0, [0], 0, [], 1, [(ACQT, 0, 8), (PUT, 0, 3)], [(GET, 0, 0), (REL, 0, 0)], [(ACQ, 0, 0), (REL, 0, 0)]),
]


def p_timed(p):
    """mirror of Ref.p_timed: every operation instantaneous or a dyadic sleep / timeout"""
    return not any(c in (PUT, GET) for _, ops in p["actors"] for c, _, _ in ops)


def gen_timed_sem(rng):
    """Waiters reach semaphore 0 (no token) at distinct dates forced by sleeps; some use acquire_timeout and time out while others
    are queued behind them; tokens come from waiters that pass theirs on, from timed-out waiters and from a releaser.  No Put/Get:
    the timed reading applies and the FIFO order of the queue is binding."""
    n = rng.randint(3, 5)
    step = rng.choice([4, 8, 8])
    sems = [0] + ([rng.choice([0, 1])] if rng.random() < 0.3 else [])
    acts = []
    for k in range(n):
        ops = []
        arr = k * step + (rng.choice([0, 0, 1, 2]) if k else 0)
        if arr:
            ops.append((SLEEP, arr, 0))
        r = rng.random()
        if k == 0 and r < 0.6:      # the oldest waiter gives up when everybody is queued
            ops.append((ACQT, 0, n * step + rng.choice([1, 3, 8, 16])))
        elif r < 0.35:
            ops.append((ACQT, 0, rng.choice([0, 1, 2, 4, 6, 12, 20, 36, 60])))
        else:
            ops.append((ACQ, 0, 0))
        if len(sems) > 1 and rng.random() < 0.3:
            ops.append((rng.choice([ACQT, ACQ, REL]), 1, rng.choice([1, 4, 16])))
        if rng.random() < 0.6:
            ops.append((REL, 0, 0))
        acts.append(ops)
    if rng.random() < 0.5:
        ops = []
        for _ in range(rng.randint(1, 3)):
            ops += [(SLEEP, rng.choice([step, 2 * step, n * step + 2, n * step + 20]), 0), (REL, 0, 0)]
        acts.append(ops)
    return {"nm": 0, "sems": sems, "nc": 0, "bars": [], "nmb": 0, "actors": [(rng.randrange(5), ops) for ops in acts]}


def gen_acqt(rng, big):
    """eng3_common.gen_prog with some acquisitions made timed (dyadic timeouts, 0 included); with or without Put/Get"""
    for _ in range(20):
        p = E.gen_prog(rng, na_max=5 if big else 3, nops_max=10 if big else 6, mail=rng.random() < 0.4)
        if any(c == ACQ for _, ops in p["actors"] for c, _, _ in ops):
            break
    p["actors"] = [(h, [((ACQT, a, rng.choice([0, 1, 2, 4, 8, 16])) if c == ACQ and rng.random() < 0.6 else (c, a, b)) for c, a, b in ops])
                   for h, ops in p["actors"]]
    return p


def schedule(p, o):
    """the order in which the operations were handled and the timers fired; a sleep's end is a step only in the timed reading"""
    if o.get("hx"):
        tm = p_timed(p)
        return [a for a, _, k in o["hx"] if k == 0 or k == 2 or (k == 1 and tm)]
    return [a for a, _ in (o.get("ht") or o.get("tr") or [])]


def split_explore(ans):
    if not ans or ans[0] != 1:
        return None
    n, k, res = ans[1], 2, []
    for _ in range(n):
        ln = ans[k]
        res.append(ans[k + 1:k + 1 + ln])
        k += 1 + ln
    return res


def run(ctx):
    ctx.simgrid(["simgrid"])
    ctx.prove()
    exe = fw.build_harness("eng3_interp")
    fuel = ctx.n(6000, 40000)
    progs, facts = list(CORPUS) + list(CORPUS_T), FACTORIES
    if ctx.replay:
        rp = json.load(open(ctx.replay))["case"]
        progs, facts = [rp["prog"]], ([rp["factory"]] if rp.get("factory") else FACTORIES)
        progs[0]["actors"] = [(h, [tuple(o) for o in ops]) for h, ops in progs[0]["actors"]]
    else:
        for i in range(ctx.n(90, 1000)):
            big = ctx.rng.random() < (0.15 if ctx.quick else 0.3)
            progs.append(E.gen_prog(ctx.rng, na_max=5 if big else 3, nops_max=12 if big else 6))
        for i in range(ctx.n(50, 500)):
            progs.append(gen_timed_sem(ctx.rng) if i % 5 < 3 else gen_acqt(ctx.rng, ctx.rng.random() < 0.2))
    enc = [E.encode(p) for p in progs]
    ctx.cov["rule"] = ("programs of 2-5 actors x <=12 operations built from critical sections, nested locks, semaphore pairs, "
                       "producer/consumer, condvar wait/notify, barriers (sometimes one short), put/get pairs, dyadic sleeps, then "
                       "mutated; + semaphore queues whose order is forced by dates with acquire_timeout waiters that time out in the middle of "
                       "the queue; + generated programs with acquisitions made timed; non-trivial = the verified explorer finds >= 2 reachable terminal states or a reachable deadlock; "
                       "distinct = distinct programs")
    R = [split_explore(a) for a in fw.run_model("c14", "run_c14_explore", [[fuel] + e for e in enc])]
    eng = fw.run_model("c14", "run_c14_engine", [[4000] + e for e in enc])
    dist = {"programs": len(progs), "explorer_complete": sum(r is not None for r in R), "ref_has_deadlock": 0, "ref_multi_terminal": 0,
            "impl_deadlocks": 0, "impl_runs": 0, "timed_programs": sum(E.is_timed(p) for p in progs), "max_terminals": 0,
            "timed_reading": sum(p_timed(p) for p in progs), "with_acquire_timeout": sum(any(c == ACQT for _, ops in p["actors"] for c, _, _ in ops) for p in progs),
            "impl_timeouts": 0,
            "engine_model_trace_equal": 0, "engine_model_trace_compared": 0}
    for p, r in zip(progs, R):
        hasdl = r is not None and any(t[1] == 1 for t in r)
        multi = r is not None and len(r) >= 2
        dist["ref_has_deadlock"] += hasdl
        dist["ref_multi_terminal"] += multi
        dist["max_terminals"] = max(dist["max_terminals"], len(r) if r else 0)
        ctx.case(json.dumps(p), hasdl or multi, {"prog": E.pretty(p), "terminal_states": len(r) if r is not None else "fuel"} if (hasdl and multi) else None)
    for f in facts:
        lines = E.run_impl(exe, enc, cfg=["contexts/factory:" + f])
        obs = [E.parse_obs(l) for l in lines]
        for p, o in zip(progs, obs):    # the schedule = order in which maestro handled the operations (hook) and the timers fired
            o["sched"] = schedule(p, o) if "crash" not in o else []
        rep = fw.run_model("c14", "run_c14_replay", [e + [len(o["sched"])] + o["sched"] for e, o in zip(enc, obs)])
        for p, r, o, rp, en in zip(progs, R, obs, rep, eng):
            case = {"prog": p, "factory": f}
            dist["impl_runs"] += 1
            if "crash" in o:
                ctx.fail("impl-crash", "factory %s: the simulator died (%s) on a well-formed program %s" % (f, o["crash"], E.pretty(p)), case)
                continue
            dist["impl_deadlocks"] += o["dl"]
            dist["impl_timeouts"] += sum(k == 2 for _, _, k in o["hx"])
            proj = E.model_obs_of_impl(o)
            verdict = None            # the verified deadlock flag of the state the implementation ended in
            if r is not None:
                m = [t for t in r if t[2:] == proj]
                if not m:
                    ctx.fail("not-ref-reachable", "factory %s: final observation %s (pc, blocked, #results, results.. per actor; semaphores) "
                             "is none of the %d terminal states the reference semantics can reach; program %s"
                             % (f, proj, len(r), E.pretty(p)), case)
                    continue
                verdict = m[0][1]
                if o["dl"] == 1 and not any(t[1] == 1 for t in r):
                    ctx.fail("deadlock-reported-on-deadlock-free-program", "factory %s: deadlock reported, the reference has no reachable deadlock; %s" % (f, E.pretty(p)), case)
                    continue
            # K: the run's own schedule through the reference step function
            if rp[0] != 1:
                ctx.mismatch("trace-replay", "factory %s: the order in which the operations were handled is not executable in the reference "
                             "semantics; program %s schedule %s" % (f, E.pretty(p), o["hx"] or o["ht"] or o["tr"]), case)
            elif rp[1] != 1 or rp[4:] != proj:
                ctx.mismatch("trace-replay", "factory %s: replaying the run's schedule gives %s (terminal=%d), the run observed %s; program %s"
                             % (f, rp[4:], rp[1], proj, E.pretty(p)), case)
            elif verdict is None:
                verdict = rp[3]       # explorer out of fuel: the replayed state is reachable (C14_replay_sound) and equals the observation
            if verdict is not None and verdict != o["dl"]:
                ctx.fail("deadlock-unsound" if o["dl"] else "deadlock-missed",
                         "factory %s: engine %s a deadlock, the reached state %s a reference deadlock; program %s"
                         % (f, "reported" if o["dl"] else "did not report", "is" if verdict else "is not", E.pretty(p)), case)
            if not E.is_timed(p) and en and en[0] == 1:
                dist["engine_model_trace_compared"] += 1
                if en[2:2 + en[1]] == o["sched"]:
                    dist["engine_model_trace_equal"] += 1
                else:
                    ctx.notes.append("engine model schedule differs from the run's (harmless for C14): %s" % json.dumps(E.pretty(p)))
    ctx.cov["input_distribution"] = dist
    ctx.assumptions += ["programs are well-formed (unlock / condvar wait only on a mutex the actor holds): the harness would abort otherwise",
                        "no actor locks a non-recursive mutex it already holds (the reference blocks it for ever; MutexAcquisitionImpl::wait_for lets it "
                        "through because it tests the owner instead of the grant - mutex semantics, property C04's ground)",
                        "programs with Put/Get: sleeps and communication delays only restrict the interleavings the simulator takes; the reference treats sleeps as "
                        "skips and lets a pending acquire_timeout time out at any moment; programs without Put/Get: dates are multiples of 1/8 s (exact in "
                        "binary64), every other operation is instantaneous, timers due at the same date may fire in any order",
                        "the schedule of a run is the order in which ActorImpl::simcall_handle is entered for the first simcall of each operation (hook bbdc92c4e7)"]


META = {
    "level": "proof",
    "text": "Coq: the reference interleaving semantics of synchronisation programs (FIFO mutexes, semaphores incl. acquire_timeout, condition "
            "variables with re-lock, re-armed barriers, rendez-vous mailboxes, dyadic sleeps) with a verified explorer: explore f P = Some T -> "
            "(reachable_terminal P s <-> In s T) (C14_explorer_sound_complete). A step is: an unblocked actor executes its next operation, the "
            "timer of a blocked actor fires (sleep over / acquisition timed out: exactly that waiter leaves the queue, the others keep their order, "
            "C14_timeout_keeps_order), or - timed reading, for programs without Put/Get - the clock jumps to the earliest armed timer when nobody "
            "can step; in the untimed reading sleeps are skips and a pending timeout may fire at any moment. Terminal + unfinished actor <-> "
            "reference deadlock = every unfinished actor blocked without armed timer (C14_deadlock_iff_terminal_unfinished, decided by "
            "C14_deadlock_decided); replayed schedules (with implicit clock ticks) and the model of EngineImpl::run's sub-rounds are reference "
            "executions (C14_replay_sound, C14_engine_refines); no reachable deadlock => none reported (C14_deadlock_free_never_reports). Every "
            "generated program is run on the rebuilt simulator under thread/raw/boost factories: its final observation must be a member of the "
            "explorer's set, its deadlock report must equal the verified predicate, and its own schedule (handled operations + timer events) must "
            "replay to the same observation.",
    "note": "Proved for all programs/schedules about the Gallina semantics; the simulator is tied per run (membership + schedule replay), programs "
            "<= 6 actors x 12 ops, explorer bounded by fuel (falls back to the replayed schedule, which is sound for membership). Timed reading: "
            "dates are multiples of 1/8 s, all other operations instantaneous, timers due at the same date may fire in any order (more permissive "
            "than the simulator, never stricter). Not modelled: condition-variable wait_for/wait_until, try_lock, recursive mutexes, asynchronous "
            "comms, filters; durations of communications (programs with Put/Get are read without dates). Catches the seeded swap-with-last removal in "
            "SemAcquisitionImpl::cancel (queue forced by dates, middle waiter times out, release serves the wrong waiter).",
    "technique": "Coq proof (generic DFS closure invariant, case analysis of the step function, discrete-event clock) + extracted explorer as oracle + "
                 "schedule replay correspondence",
    "claimed": True,
}
