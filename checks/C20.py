"""C20 — isolated activities follow the documented formulas.
K: finish date of ONE activity alone on a platform built through the C++ API (harness/res_c20.cpp, rebuilt library)
   vs. the extracted Coq model of the code path (Res/NetFormula.v: comm_time, exec_time, sleep_time, io_time, ptask_time).
O: the same observation vs. the formula of the property text (comm_documented, W/S, d, s/rate, max flops/speed), both
   comparisons by the extracted [close] (tolerance rule of DESIGN 1.3, precision/timing = 1e-9).
The documented parameters of raw/CM02/LV08/SMPI are hard-coded here (docs/source/Configuring_SimGrid.rst, Models.rst)."""
import json, math, concurrent.futures
from fractions import Fraction
import fw

SMPI_BW = "65472:0.940694;15424:0.697866;9376:0.58729;5776:1.08739;3484:0.77493;1426:0.608902;732:0.341987;257:0.338112;0:0.812084"
SMPI_LAT = "65472:11.6436;15424:3.48845;9376:2.59299;5776:2.18796;3484:1.88101;1426:1.61075;732:1.9503;257:1.95341;0:2.01467"


def tbl(s):
    return sorted((int(a), Fraction(b)) for a, b in (x.split(":") for x in s.split(";")))


# model -> (latency factor default, table, bandwidth factor default, table, default gamma, default crosstraffic)
MODELS = {
    "raw": (Fraction(1), [], Fraction(1), [], Fraction(0), 0),
    "CM02": (Fraction(1), [], Fraction(1), [], Fraction(4194304), 1),
    "LV08": (Fraction("13.01"), [], Fraction("0.97"), [], Fraction(4194304), 1),
    "SMPI": (Fraction(1), tbl(SMPI_LAT), Fraction(1), tbl(SMPI_BW), Fraction(4194304), 1),
}
SMPI_THR = [0, 257, 732, 1426, 3484, 5776, 9376, 15424, 65472]
KNOWN_SIG = "comm-gamma-bound-scaled-by-bwfactor"


def fq(x):
    """exact value of the binary64 the driver will parse from the same text"""
    f = Fraction(float(x))
    return [f.numerator, f.denominator]


def qq(fr):
    return [fr.numerator, fr.denominator]


def logu(rng, lo, hi, digits=3):
    v = 10 ** rng.uniform(math.log10(lo), math.log10(hi))
    return "%.*g" % (digits, v)


def dyadic(rng, lo_exp, hi_exp):
    return repr(float(rng.randint(1, 15) * 2.0 ** rng.randint(lo_exp, hi_exp)))


def gen_comm(rng):
    model = rng.choice(["raw", "CM02", "LV08", "LV08", "SMPI", "SMPI"])
    ct = rng.choice(["0", "1", "d"])
    gamma = rng.choice(["d", "d", "0", "65536", "1e6", logu(rng, 1e3, 1e9)])
    r = rng.random()
    if r < 0.25:
        size = max(1, rng.choice(SMPI_THR) + rng.choice([-1, 0, 1, 2]))
    elif r < 0.35:
        size = rng.choice([1, 2, 10 ** 10, 2 ** 32])
    else:
        size = int(10 ** rng.uniform(0, 10.3))
    nf = rng.randint(1, 8)
    dy = rng.random() < 0.3
    zero_lat = rng.random() < 0.12
    fwd = []
    for _ in range(nf):
        bw = dyadic(rng, 8, 30) if dy else logu(rng, 1e3, 1e11)
        lat = "0" if zero_lat or rng.random() < 0.1 else (dyadic(rng, -20, -4) if dy else logu(rng, 1e-7, 0.5))
        fwd.append((bw, lat, rng.choice("SSSFD"), rng.choice([0, 1, 1])))
    nb = rng.choice([0, 0, 1, 2])
    back = [(logu(rng, 1e2, 1e11), "0" if rng.random() < .5 else logu(rng, 1e-6, 0.1), rng.choice("SSF")) for _ in range(nb)]
    if not back and not any(l[3] for l in fwd):
        fwd[0] = fwd[0][:3] + (1,)
    return {"kind": "comm", "model": model, "ct": ct, "gamma": gamma, "size": size, "fwd": fwd, "back": back}


def comm_line(c):
    t = ["comm", c["model"], c["ct"], c["gamma"], str(c["size"]), str(len(c["fwd"]))]
    for bw, lat, pol, ib in c["fwd"]:
        t += [bw, lat, pol, str(ib)]
    t.append(str(len(c["back"])))
    for bw, lat, pol in c["back"]:
        t += [bw, lat, pol]
    return " ".join(t)


def comm_ints(c, obs):
    ld, lt, bd, bt, g0, ct0 = MODELS[c["model"]]
    g = g0 if c["gamma"] == "d" else Fraction(float(c["gamma"]))
    ct = ct0 if c["ct"] == "d" else int(c["ct"])
    v = qq(obs) + qq(ld) + [len(lt)] + [x for thr, f in lt for x in [thr] + qq(f)] + qq(bd) + [len(bt)] + \
        [x for thr, f in bt for x in [thr] + qq(f)] + qq(g) + [ct, c["size"], len(c["fwd"])]
    for bw, lat, pol, ib in c["fwd"]:
        v += fq(bw) + fq(lat) + [{"S": 0, "F": 1, "D": 2}[pol], ib]
    v.append(len(c["back"]))
    for bw, lat, pol in c["back"]:
        v += fq(bw) + [1 if pol == "F" else 0]
    return v


def gen_simple(rng):
    k = rng.choice(["exec", "exec", "sleep", "io", "ptask", "ptask"])
    dy = rng.random() < 0.3
    if k == "exec":
        return {"kind": k, "cores": rng.choice([1, 1, 2, 4, 16]), "speed": dyadic(rng, 10, 36) if dy else logu(rng, 1e3, 1e12),
                "flops": dyadic(rng, 0, 45) if dy else logu(rng, 1, 1e15, 6), "threads": rng.choice([1, 1, 1, 2, 3, 4, 8, 32])}
    if k == "sleep":
        return {"kind": k, "d": rng.choice(["1e-9", "1e-12", "5e-10"]) if rng.random() < .1 else (dyadic(rng, -20, 15) if dy else logu(rng, 1e-8, 1e6, 8))}
    if k == "io":
        return {"kind": k, "r": logu(rng, 1e3, 1e10), "w": logu(rng, 1e3, 1e10), "op": rng.choice("RW"), "size": int(10 ** rng.uniform(0, 12))}
    n = rng.randint(1, 6)
    return {"kind": k, "parts": [(logu(rng, 1e3, 1e12), rng.choice([1, 1, 2, 8]), "0" if rng.random() < .2 else logu(rng, 1, 1e14, 5)) for _ in range(n)]}


def simple_line(c):
    k = c["kind"]
    if k == "exec":
        return "exec %d %s %s %d" % (c["cores"], c["speed"], c["flops"], c["threads"])
    if k == "sleep":
        return "sleep 1e9 %s" % c["d"]
    if k == "io":
        return "io %s %s %s %d" % (c["r"], c["w"], c["op"], c["size"])
    return "ptask %d " % len(c["parts"]) + " ".join("%s %d %s" % p for p in c["parts"])


def simple_ints(c, obs):
    k = c["kind"]
    if k == "exec":
        return qq(obs) + [0, c["cores"]] + fq(c["speed"]) + fq(c["flops"]) + [c["threads"]]
    if k == "sleep":
        return qq(obs) + [1] + fq(c["d"])
    if k == "io":
        return qq(obs) + [2] + fq(c["r"]) + fq(c["w"]) + [1 if c["op"] == "R" else 0, c["size"]]
    return qq(obs) + [3, len(c["parts"])] + [x for s, co, f in c["parts"] for x in fq(s) + [co] + fq(f)]


def L(bw, lat, pol="S", ib=1):
    return (bw, lat, pol, ib)


CORPUS = [
    # DESIGN section 6: LV08, lat 0.1 s, bw 1e10, 1e9 B, no cross-traffic -> 50.4595 s where the text's formula gives 48.9847 s
    {"kind": "comm", "model": "LV08", "ct": "0", "gamma": "d", "size": 10 ** 9, "fwd": [L("1e10", "0.1")], "back": []},
    {"kind": "comm", "model": "LV08", "ct": "1", "gamma": "0", "size": 800000, "fwd": [L("1e6", "0.01")], "back": []},   # Models.rst example
    {"kind": "comm", "model": "CM02", "ct": "d", "gamma": "d", "size": 10 ** 9, "fwd": [L("1e10", "0.1")], "back": []},
    {"kind": "comm", "model": "CM02", "ct": "1", "gamma": "0", "size": 10 ** 6, "fwd": [L("1e8", "0.001", "S", 0)], "back": [("1e5", "0.5", "S")]},
    {"kind": "comm", "model": "SMPI", "ct": "1", "gamma": "0", "size": 257, "fwd": [L("1e8", "0.001"), L("1e7", "0.002", "D")], "back": []},
    {"kind": "comm", "model": "SMPI", "ct": "d", "gamma": "d", "size": 65473, "fwd": [L("1e8", "0.001", "F")], "back": []},
    {"kind": "comm", "model": "raw", "ct": "d", "gamma": "d", "size": 1000, "fwd": [L("1e8", "0"), L("1e7", "0", "D")], "back": []},
    {"kind": "exec", "cores": 2, "speed": "1e9", "flops": "5e9", "threads": 4},
    {"kind": "exec", "cores": 4, "speed": "1e9", "flops": "5e9", "threads": 1},
    {"kind": "sleep", "d": "3.5"}, {"kind": "sleep", "d": "1e-12"},
    {"kind": "io", "r": "100", "w": "50", "op": "W", "size": 1000}, {"kind": "io", "r": "50", "w": "100", "op": "R", "size": 1000},
    {"kind": "ptask", "parts": [("1e9", 1, "2e9"), ("5e8", 4, "3e9")]},
    {"kind": "ptask", "parts": [("1e9", 1, "0"), ("5e8", 4, "3e9")]},
]


def run_driver(drv, lines):
    nw = max(1, min(fw.NCPU, len(lines) // 20))
    chunks = [lines[i::nw] for i in range(nw)]
    with concurrent.futures.ThreadPoolExecutor(nw) as ex:
        res = list(ex.map(lambda ch: fw.run_lines(drv, [], ch, timeout=1500), chunks))
    out = [None] * len(lines)
    for w, (rc, o, err) in enumerate(res):
        for j, idx in enumerate(range(w, len(lines), nw)):
            out[idx] = o[j] if j < len(o) else "ERR driver rc=%d %s" % (rc, err[-200:])
    return out


def run(ctx):
    ctx.simgrid(["simgrid"])
    ctx.prove()
    drv = fw.build_harness("res_c20")
    if ctx.replay:
        cases = [json.load(open(ctx.replay))["case"]]
    else:
        n = ctx.n(500, 8000)
        cases = list(CORPUS) + [gen_comm(ctx.rng) if ctx.rng.random() < 0.7 else gen_simple(ctx.rng) for _ in range(n)]
    for c in cases:
        if c["kind"] == "comm":
            c["fwd"] = [tuple(x) for x in c["fwd"]]
            c["back"] = [tuple(x) for x in c["back"]]
        elif c["kind"] == "ptask":
            c["parts"] = [tuple(x) for x in c["parts"]]
    lines = [comm_line(c) if c["kind"] == "comm" else simple_line(c) for c in cases]
    impl = run_driver(drv, lines)
    dist = {}
    comm, simple = [], []
    for c, line, o in zip(cases, lines, impl):
        try:
            obs = Fraction(float(o))
            if not math.isfinite(float(o)) or obs < 0:
                raise ValueError
        except ValueError:
            ctx.fail("driver-" + c["kind"], "res_c20 '%s' answered '%s'" % (line, o), c)
            continue
        (comm if c["kind"] == "comm" else simple).append((c, line, o, obs))
    mc = fw.run_model("c20", "run_c20_comm", [comm_ints(c, obs) for c, _, _, obs in comm]) if comm else []
    ms = fw.run_model("c20", "run_c20_simple", [simple_ints(c, obs) for c, _, _, obs in simple]) if simple else []
    for (c, line, o, obs), m in zip(comm, mc):
        if len(m) != 7:
            ctx.mismatch("run_c20_comm", "model rejected its input for '%s'" % line, c)
            continue
        k_ok, o_ok, side, tm, td = m[0], m[1], m[2], Fraction(m[3], m[4]), Fraction(m[5], m[6])
        key = "comm-%s" % c["model"]
        dist[key] = dist.get(key, 0) + 1
        dist["comm-proved-region" if side else "comm-outside-proved-region"] = dist.get("comm-proved-region" if side else "comm-outside-proved-region", 0) + 1
        ctx.case(line, True, {"case": line, "impl": o, "model": float(tm), "documented": float(td), "in_proved_region": bool(side)})
        what = "%s: implementation %s s, documented formula %.17g s, code's closed form %.17g s" % (line, o, float(td), float(tm))
        if side:
            if not o_ok:
                ctx.fail("comm-%s-time" % c["model"], what, c)
            elif not k_ok:
                ctx.mismatch("comm_time (Res/NetFormula.v) vs NetworkCm02Model::communicate", what, c)
        elif not o_ok:
            # outside the proved region only the oracle judges (DESIGN 1.2): the recorded finding has its own signature
            ctx.fail(KNOWN_SIG if k_ok else "comm-%s-time-unexplained" % c["model"], what, c)
    for (c, line, o, obs), m in zip(simple, ms):
        if len(m) != 6:
            ctx.mismatch("run_c20_simple", "model rejected its input for '%s'" % line, c)
            continue
        k_ok, o_ok, tm, td = m[0], m[1], Fraction(m[2], m[3]), Fraction(m[4], m[5])
        dist[c["kind"]] = dist.get(c["kind"], 0) + 1
        ctx.case(line, td > 0, {"case": line, "impl": o, "model": float(tm), "documented": float(td)})
        what = "%s: implementation %s s, documented %.17g s, model %.17g s" % (line, o, float(td), float(tm))
        if not o_ok:
            ctx.fail("%s-time" % c["kind"], what, c)
        elif not k_ok:
            ctx.mismatch("%s_time (Res/NetFormula.v) vs the %s model" % (c["kind"], c["kind"]), what, c)
    ctx.cov["rule"] = ("one activity alone; comm: model raw/CM02/LV08/SMPI x crosstraffic 0/1/default x TCP-gamma default/0/random, size 1..2e10 "
                       "(25% at the SMPI thresholds +-1), 1..8 distinct links (shared/fatpipe/split-duplex, latency 0 in 12%), back route = "
                       "flagged forward links + 0..2 back-only links; exec: cores, threads, speeds 1e3..1e12; sleep; I/O read/write; ptask of "
                       "1..6 hosts. 30% of the cases draw dyadic values. non-trivial = documented duration > 0; distinct = distinct driver lines")
    ctx.cov["input_distribution"] = dist
    ctx.assumptions += ["the links of a route are pairwise distinct; no user rate limit; no WIFI links; one activity at a time",
                        "durations are compared with |impl - ref| <= 4e-9 * max(1, |ref|) (Coq function close)",
                        "documented parameters of raw/CM02/LV08/SMPI and the TCP-gamma default are those of docs/source/Configuring_SimGrid.rst",
                        "the max-min / fair-bottleneck solvers are modelled on ONE variable only (value = min(bound, min bound_c/weight_c))"]


META = {
    "level": "proof",
    "text": "Coq theorems over exact rationals, for all sizes, rates, factor tables, gamma, cross-traffic settings and routes of any length: "
            "the composition communicate -> set_bounds -> set_variable -> expand -> single-variable solve -> completion equals "
            "L*latf(s) + s/(bwf(s)*min(B, gamma/(2L))) with B the smallest bandwidth/weight, cross-traffic included (C20_comm_model_formula, "
            "C20_beff_no_crosstraffic); this is the formula of the property text when gamma is off, bwf = 1 or the flow is bandwidth-bound "
            "(C20_comm_documented_partial) and differs otherwise (C20_comm_documented_refuted, recorded finding); exec W/S incl. threads "
            "(C20_exec, C20_exec_threads), sleep (C20_sleep), I/O s/rate (C20_io), ptask = largest flops/speed (C20_ptask, "
            "C20_ptask_spec_is_largest). Tied on every run by differential runs of one isolated activity per generated platform/configuration.",
    "note": "Trusted: Coq kernel, extraction, harness/res_c20.cpp, the generator and the documented parameter tables in checks/C20.py. "
            "Modelled, not verified: the C++ models; the LMM solvers only on one variable; lazy/full action bookkeeping is not modelled (C19). "
            "Outside the proved region (bwf<>1 and TCP-gamma binding) only the oracle judges: known finding " + KNOWN_SIG + ".",
    "technique": "Coq proof (Q arithmetic, induction on routes) + extracted-model differential correspondence + extracted oracle",
    "claimed": True,
}
