"""C18 — concurrency limits are enforced without starvation.
Proof : invariants of the Gallina model of System::{expand,enable_var,disable_var,on_disabled_var,update_variable_penalty,
        var_free} for every history (theories/Lmm/SystemProofs.v, Props/Properties_C18.v).
K     : the extracted model and the real lmm::System (harness/lmm_drv.cpp) run the same histories; concurrency counters,
        penalties and staged penalties are compared exactly after every operation.
O     : the verified checker c18_codes (= System::check_concurrency + "penalty 0 requested => not enabled, not staged")
        runs on the state dumped by the implementation after every operation."""
import json
import fw
import lmm_common as L
from fractions import Fraction as F

CODES = {1: "counter", 2: "limit", 3: "starvation", 4: "element-sets", 5: "runs-with-penalty-0"}

CORPUS = [
    # limit 1; A enabled, B staged; suspend A  (B must be enabled)
    [(L.NEWC, F(10), 1, 1), (L.NEWV, F(1), F(-1)), (L.NEWV, F(1), F(-1)), (L.EXPAND, 0, 0, F(1)), (L.EXPAND, 0, 1, F(1)),
     (L.SOLVE,), (L.PEN, 0, F(0)), (L.SOLVE,)],
    # limit 1; A enabled, B staged; B suspended; A freed (B must stay disabled)
    [(L.NEWC, F(10), 1, 1), (L.NEWV, F(1), F(-1)), (L.NEWV, F(1), F(-1)), (L.EXPAND, 0, 0, F(1)), (L.EXPAND, 0, 1, F(1)),
     (L.PEN, 1, F(0)), (L.FREE, 0), (L.SOLVE,)],
    # two constraints of limit 1: B staged behind A on c0 and behind C on c1; free A then C
    [(L.NEWC, F(10), 1, 1), (L.NEWC, F(10), 1, 1), (L.NEWV, F(1), F(-1)), (L.EXPAND, 0, 0, F(1)), (L.NEWV, F(1), F(-1)),
     (L.EXPAND, 1, 1, F(1)), (L.NEWV, F(1), F(-1)), (L.EXPAND, 0, 2, F(1)), (L.EXPAND, 1, 2, F(1)), (L.FREE, 0), (L.SOLVE,),
     (L.FREE, 1), (L.SOLVE,)],
    # weight < 1 does not count; re-expand makes it count and stages the variable
    [(L.NEWC, F(10), 1, 1), (L.NEWV, F(1), F(-1)), (L.EXPAND, 0, 0, F(1)), (L.NEWV, F(1), F(-1)), (L.EXPAND, 0, 1, F(1, 2)),
     (L.SOLVE,), (L.EXPAND, 0, 1, F(1, 2)), (L.SOLVE,), (L.FREE, 0), (L.SOLVE,)],
    # resume while the constraint is full -> staged; penalty change while staged; suspend the running one
    [(L.NEWC, F(8), 1, 2), (L.NEWV, F(1), F(-1)), (L.EXPAND, 0, 0, F(1)), (L.NEWV, F(0), F(-1)), (L.EXPAND, 0, 1, F(1)),
     (L.NEWV, F(2), F(-1)), (L.EXPAND, 0, 2, F(2)), (L.PEN, 1, F(1)), (L.PEN, 1, F(2)), (L.PEN, 2, F(0)), (L.SOLVE,)],
]


def run(ctx):
    ctx.simgrid(["simgrid"])
    ctx.prove()
    drv = fw.build_harness("lmm_drv")
    if ctx.replay:
        hist = [L.ops_of_case(json.load(open(ctx.replay))["case"])]
    else:
        n = ctx.n(250, 5000)
        hist = list(CORPUS) + [L.gen_history(ctx.rng, nops=ctx.rng.choice([20, 40, 60]), maxc=ctx.rng.choice([2, 4, 12]),
                                             solve_p=0.1, suspend=0.16) for _ in range(n)]
    ctx.cov["rule"] = ("random histories (<= 12 constraints with concurrency limit in {1,1,2,2,3,4,none}, <= 20 variables, <= 60 "
                       "modifications: variable_new+expand, re-expand, penalty 0 / >0, free, bounds, solve; weights incl. < 1 and 0); "
                       "non-trivial = some variable is staged at some point of the history; distinct = distinct histories")
    stats = {"histories": len(hist), "states": 0, "staged_states": 0, "selective": 0}
    half = len(hist) // 2
    groups = [(True, hist[:half]), (False, hist[half:])] if not ctx.replay else [(True, hist)]
    for selective, hs in groups:
        if not hs:
            continue
        runs = L.run_driver(drv, "maxmin", selective, hs)
        model = fw.run_model("lmm", "run_c18", [L.encode(h) for h in hs])
        ocases, owhere = [], []
        for hi, (h, (segs, crash)) in enumerate(zip(hs, runs)):
            wants = L.wants_after(h)
            if crash is not None:
                ctx.fail("crash", "lmm::System aborts (status %s) after %d operations of: %s" % (crash, len(segs), L.show(h[:len(segs) + 1])),
                         L.case_of(h[:len(segs) + 1], selective=selective))
            for i, s in enumerate(segs):
                ocases.append(L.c18_oracle_ints(s, wants[i]))
                owhere.append((hi, i))
        codes = fw.run_model("lmm", "run_c18_oracle", ocases) if ocases else []
        bad_at = {}
        for (hi, i), cs in zip(owhere, codes):
            if cs and hi not in bad_at:
                bad_at[hi] = (i, cs)
        for hi, (h, (segs, crash)) in enumerate(zip(hs, runs)):
            staged = any(x["alive"] and x["staged"] > 0 for s in segs for x in s.vars)
            stats["states"] += len(segs)
            stats["staged_states"] += sum(1 for s in segs if any(x["alive"] and x["staged"] > 0 for x in s.vars))
            stats["selective"] += selective
            ctx.case(L.encode(h), staged, {"history": L.show(h)[:600], "selective": selective} if staged else None)
            if hi in bad_at:
                i, cs = bad_at[hi]
                s = segs[i]
                det = {"cur/limit": [(k["cur"], k["limit"]) for k in s.cns],
                       "vars(pen,staged)": [(str(x["pen"]), str(x["staged"])) for x in s.vars]}
                for c in cs:
                    ctx.fail(CODES.get(c, "code%d" % c),
                             "after %s the state of lmm::System violates '%s': %s   [history: %s]" % (
                                 L.OPNAMES[h[i][0]] + str(tuple(str(x) for x in h[i][1:])), CODES.get(c, c), det, L.show(h[:i + 1])),
                             L.case_of(h[:i + 1], selective=selective))
                continue
            # K: model vs implementation, every operation
            m = model[hi]
            chunks, cur = [], None
            for z in m:
                if z == -1:
                    cur = []
                    chunks.append(cur)
                else:
                    cur.append(z)
            if crash is None and len(chunks) != len(segs):
                ctx.mismatch("K:C18 length", "model produced %d observations, implementation %d" % (len(chunks), len(segs)), L.case_of(h))
                continue
            for i, (ch, s) in enumerate(zip(chunks, segs)):
                nc = len(s.cns)
                mc = ch[:nc]
                mv = [(ch[nc + 5 * j] != 0, F(ch[nc + 5 * j + 1], ch[nc + 5 * j + 2]), F(ch[nc + 5 * j + 3], ch[nc + 5 * j + 4]))
                      for j in range((len(ch) - nc) // 5)]
                ic = [k["cur"] for k in s.cns]
                iv = [(x["alive"], x["pen"] if x["alive"] else F(0), x["staged"] if x["alive"] else F(0)) for x in s.vars]
                if mc != ic or mv != iv:
                    ctx.mismatch("K:C18 System model vs lmm::System",
                                 "after op %d (%s) of [%s]: counters model %s impl %s; (alive,penalty,staged) model %s impl %s" % (
                                     i, L.OPNAMES[h[i][0]], L.show(h[:i + 1]), mc, ic, [(a, str(p), str(q)) for a, p, q in mv],
                                     [(a, str(p), str(q)) for a, p, q in iv]), L.case_of(h[:i + 1], selective=selective))
                    break
    ctx.cov["input_distribution"] = stats
    ctx.assumptions += ["concurrency limits are set when the constraint is created; penalties and weights are >= 0",
                        "force_creation (several elements of one variable on one constraint, ptask_L07) and the WIFI policy are not modelled",
                        "maxmin/concurrency-limit during whole simulations is not exercised here (lmm::System driven directly)"]


META = {
    "level": "proof",
    "text": "Coq theorems over every history of constraint_new/variable_new/expand/update_variable_penalty/variable_free on the Gallina "
            "model of lmm::System's concurrency bookkeeping: the counter equals the number of enabled counted elements (C18_counter_exact), "
            "never exceeds the limit (C18_limit), every staged variable uses a full constraint (C18_no_starvation), all elements of a variable "
            "sit in the same element set (C18_sets_consistent); the pinned update_variable_penalty is refuted (C18_pinned_code_refuted). The "
            "model is tied to the rebuilt library by exact comparison of counters/penalties/staged penalties after every operation of random "
            "histories, and the verified checker c18_codes (sound and complete for the specification) judges every dumped implementation state.",
    "note": "Trusted: Coq kernel, extraction, harness/lmm_drv.cpp (reads private members), the python generator/parser. Not modelled: force_creation, "
            "WIFI policy, limits changed after creation; simulations with maxmin/concurrency-limit are not run.",
    "technique": "Coq proof (invariant preservation over all histories) + extracted-model differential correspondence + verified state checker",
    "claimed": True,
}
