"""C33 — Cartesian topologies follow MPI rules.
K: one smpirun (np = 64) of harness/smpi_c33.c on a case file vs. the extracted Coq model (Smpi/Topo.v) on the same cases.
O: Cart_coords/Cart_rank/Cart_shift/Cart_sub are functions of the input that the theorems pin down completely
   (bijection, wrap, neighbours, kept dimensions/coordinates), so the implementation's observation must EQUAL the verified
   answer; Dims_create is judged on what the property constrains only (status, product = nnodes, given entries kept,
   entries positive) — a different but valid factorisation is accepted (noted)."""
import itertools, json, os
import fw

NP = 64


def all_dims(maxn, maxd):
    res = []
    def rec(prefix, prod):
        if prefix:
            res.append(list(prefix))
        if len(prefix) == maxd:
            return
        d = 1
        while prod * d <= maxn:
            rec(prefix + [d], prod * d)
            d += 1
    rec([], 1)
    return res


def mk_cart(rng, dims, pers=None, rem=None, nq=6):
    nd = len(dims)
    pers = pers if pers is not None else [rng.randint(0, 1) for _ in dims]
    rem = rem if rem is not None else [rng.randint(0, 1) for _ in dims]
    q = []
    for _ in range(nq):
        for d, p in zip(dims, pers):
            r = rng.random()
            if r < 0.45:
                q.append(rng.randint(0, d - 1))
            elif r < 0.9:
                q.append(rng.randint(-2 * d - 1, 3 * d + 1))
            else:
                q.append(rng.choice([-d, d, -1, 2 * d, -2 * d]))
    return [nd] + dims + pers + rem + [nq] + q


def prod(l):
    p = 1
    for x in l:
        p *= x
    return p


CORPUS_C = [
    [2, 2, 3, 0, 1, 1, 0, 2, 5, 5, 1, -4],            # the 2x3 grid of DESIGN section 6, keep dimension 0
    [2, 2, 3, 0, 0, 0, 1, 0],                           # keep dimension 1
    [2, 2, 3, 0, 0, 0, 0, 0],                           # keep nothing: zero-dimensional communicators
    [3, 2, 3, 4, 1, 0, 1, 1, 0, 1, 2, -1, 1, 7, 2, 0, -5],
    [1, 1, 1, 1, 2, 2, -3],
    [4, 2, 2, 2, 2, 1, 1, 0, 0, 0, 1, 1, 0, 1, 3, -1, 1, 0],
    [1, 64, 1, 1, 2, 64, -64],
    [3, 4, 4, 4, 0, 1, 0, 0, 1, 1, 0],
]
CORPUS_D = [[12, 3, 4, 6, 0], [9, 2, 0, 0], [12, 2, 0, 0], [7, 2, 3, 0], [64, 3, 0, 0, 0], [60, 4, 0, 0, 0, 0], [30, 2, 0, 5],
            [12, 2, 3, 4], [12, 2, 3, 5], [12, 3, 2, 0, 3], [1, 3, 0, 0, 0], [36, 3, 6, 6, 0], [36, 3, 6, 0, 6], [24, 3, 4, 4, 0],
            [8, 2, -2, 0], [49, 2, 0, 0], [25, 3, 0, 0, 0], [2310, 4, 0, 0, 0, 0], [1024, 3, 0, 16, 0], [997, 2, 0, 0],
            [48, 4, 2, 0, 3, 0]]


def gen_dims_case(rng):
    nd = rng.randint(1, 4)
    r = rng.random()
    if r < 0.5:
        nn = rng.randint(1, 64)
    elif r < 0.8:
        nn = rng.choice([2, 3, 5, 7]) ** rng.randint(1, 3) * rng.choice([1, 2, 4, 6, 9, 10, 12])
    else:
        nn = rng.randint(65, 5000)
    dims = []
    divs = [d for d in range(1, min(nn, 200) + 1) if nn % d == 0]
    for _ in range(nd):
        x = rng.random()
        if x < 0.5:
            dims.append(0)
        elif x < 0.9:
            dims.append(rng.choice(divs))
        elif x < 0.97:
            dims.append(rng.randint(1, 9))
        else:
            dims.append(-rng.randint(1, 3))
    return [nn, nd] + dims


def parse_impl(out):
    """case index -> raw observation lines (split lazily, the thorough output is large)"""
    per = {}
    for l in out.split("\n"):
        sp = l.find(" ")
        if sp <= 0 or not l[:sp].isdigit():
            continue
        per.setdefault(int(l[:sp]), []).append(l)
    return per


def obs_of(lines):
    for l in lines:
        t = l.split()
        if len(t) >= 3:
            yield int(t[1]), t[2], t[3:]


def ints(ts):
    return [int(x) for x in ts]


def run(ctx):
    ctx.simgrid(["simgrid", "smpimain"])
    ctx.prove()
    prog = fw.build_smpi_prog("smpi_c33")
    rng = ctx.rng
    if ctx.replay:
        rp = json.load(open(ctx.replay))["case"]
        ccases = [rp["input"]] if rp["kind"] == "C" else []
        dcases = [rp["input"]] if rp["kind"] == "D" else []
    else:
        vecs = all_dims(NP, 4)
        ccases = list(CORPUS_C)
        if ctx.quick:
            for dims in rng.sample(vecs, 110):
                ccases.append(mk_cart(rng, dims))
            big = [v for v in vecs if prod(v) >= 32]
            for dims in rng.sample(big, 25):
                ccases.append(mk_cart(rng, dims))
        else:
            for dims in vecs:                                   # every dimension vector, random period/remain pattern
                ccases.append(mk_cart(rng, dims, nq=4))
            for dims in [v for v in vecs if len(v) <= 3 and prod(v) <= 12]:   # all periodicity x remain patterns on small grids
                for pers in itertools.product([0, 1], repeat=len(dims)):
                    for rem in itertools.product([0, 1], repeat=len(dims)):
                        ccases.append(mk_cart(rng, dims, list(pers), list(rem), nq=2))
        dcases = list(CORPUS_D) + [[nn, nd] + [0] * nd for nn in range(1, 65) for nd in range(1, 5)]
        dcases += [gen_dims_case(rng) for _ in range(ctx.n(600, 12000))]
    ctx.cov["rule"] = ("cart cases: dimension vectors with <= 4 dimensions and <= 64 nodes (quick: corpus + 135 sampled; thorough: all of them "
                       "+ all period x remain patterns on grids <= 12 nodes), every rank, every direction, every displacement in [-2d,2d], "
                       "random Cart_rank queries in [-2d-1,3d+1]; Dims_create: nnodes 1..64 x ndims 1..4 all free (exhaustive) + random given "
                       "entries (divisors, non-divisors, negatives) up to 5000 nodes. non-trivial = more than one node (cart) / success with a "
                       "free entry and nnodes > 1 (dims); distinct = distinct inputs")
    dist = {"cart": len(ccases), "dims": len(dcases), "ranks": 0, "shifts": 0, "rank_queries": 0, "rank_queries_unconstrained": 0,
            "sub_members": 0, "dims_err": 0, "dims_other_factorisation": 0}
    os.makedirs(os.path.join(fw.B, "run"), exist_ok=True)
    cf = os.path.join(fw.B, "run", "c33_cases_%d.txt" % os.getpid())
    with open(cf, "w") as f:
        for c in ccases:
            f.write("C " + " ".join(map(str, c)) + "\n")
        for c in dcases:
            f.write("D " + " ".join(map(str, c)) + "\n")
    rc, so, se = fw.smpirun(prog, NP, [cf], timeout=3000)
    os.remove(cf)
    per = parse_impl(so)
    if rc != 0:
        done = max(per) if per else -1
        nxt = done if done >= 0 else 0
        allc = [("C", c) for c in ccases] + [("D", c) for c in dcases]
        k, c = allc[min(nxt, len(allc) - 1)]
        ctx.fail("driver-crash", "smpi_c33 ended with rc=%d around case %d (%s %s): %s" % (rc, nxt, k, c, se[-300:]), {"kind": k, "input": c})
        return
    # ---- cart cases
    if ccases:
        m_coords = fw.run_model("c33", "run_c33_coords", ccases)
        m_shift = fw.run_model("c33", "run_c33_shift", ccases)
        m_rankq = fw.run_model("c33", "run_c33_rankq", ccases)
        m_sub = fw.run_model("c33", "run_c33_sub", ccases)
    for i, c in enumerate(ccases):
        nd = c[0]
        dims, pers, rem = c[1:1 + nd], c[1 + nd:1 + 2 * nd], c[1 + 2 * nd:1 + 3 * nd]
        nn = prod(dims)
        case = {"kind": "C", "input": c}
        obs = obs_of(per.pop(i, []))
        G, S, Q, R, U = {}, {}, {}, [], {}
        for w, k, t in obs:
            if k == "G":
                G[w] = ints(t)
            elif k == "S":
                S.setdefault(w, []).extend(ints(t[2:]))
            elif k == "Q":
                Q[int(t[0])] = ints(t[1:])
            elif k == "R":
                R.extend(ints(t))
            elif k == "U":
                U[w] = t
            elif k == "N":
                U[w] = None
        ctx.case(("C", c), nn > 1, {"kind": "C", "input": c, "impl_rank_last": Q.get(nn - 1)} if nn > 1 else None)
        if sorted(G) != list(range(nn)):
            ctx.fail("cart-members", "Cart_create %s: members %s, expected ranks 0..%d" % (dims, sorted(G)[:8], nn - 1), case)
            continue
        # coords / rank
        icoords = []
        bad = None
        for r in range(nn):
            g = G[r]
            if g[0] != r or g[1] != nn or g[2] != nd or g[3:3 + nd] != dims or g[3 + nd:3 + 2 * nd] != pers:
                bad = "Cart_get on rank %d gives rank/size/ndims/dims/periods %s" % (r, g[:3 + 2 * nd])
            icoords += g[3 + 2 * nd:3 + 3 * nd] + Q.get(r, [])
        dist["ranks"] += nn
        if bad:
            ctx.fail("cart-get", "dims %s periods %s: %s" % (dims, pers, bad), case)
        if icoords != m_coords[i]:
            w = nd * 2 + 2
            r = next((r for r in range(nn) if icoords[r * w:(r + 1) * w] != m_coords[i][r * w:(r + 1) * w]), 0)
            ctx.fail("coords-rank", "dims %s periods %s rank %d: implementation position/coords/rc/rank %s, MPI (verified) %s"
                     % (dims, pers, r, icoords[r * w:(r + 1) * w], m_coords[i][r * w:(r + 1) * w]), case)
        # shift
        ishift = []
        for r in range(nn):
            ishift += S.get(r, [])
        dist["shifts"] += len(ishift) // 2
        if ishift != m_shift[i]:
            per_rank = sum(4 * d + 1 for d in dims) * 2
            j = next((j for j in range(0, min(len(ishift), len(m_shift[i])), 2) if ishift[j:j + 2] != m_shift[i][j:j + 2]), 0)
            r = j // per_rank
            off = (j % per_rank) // 2
            k = 0
            while off >= 4 * dims[k] + 1:
                off -= 4 * dims[k] + 1
                k += 1
            ctx.fail("shift", "dims %s periods %s rank %d direction %d disp %d: implementation (source,dest) %s, MPI (verified) %s"
                     % (dims, pers, r, k, off - 2 * dims[k], ishift[j:j + 2], m_shift[i][j:j + 2]), case)
        # explicit Cart_rank queries: constrained only where MPI defines the answer
        mq = m_rankq[i]
        for j in range(0, len(mq), 2):
            dist["rank_queries"] += 1
            if mq[j] != 0:
                dist["rank_queries_unconstrained"] += 1
                continue
            if R[j:j + 2] != mq[j:j + 2]:
                q = c[2 + 3 * nd + (j // 2) * nd: 2 + 3 * nd + (j // 2 + 1) * nd]
                ctx.fail("rank-wrap", "dims %s periods %s Cart_rank(%s): implementation (rc,rank) %s, MPI (verified) %s"
                         % (dims, pers, q, R[j:j + 2], mq[j:j + 2]), case)
                break
        # sub
        isub = []
        for r in range(nn):
            u = U.get(r)
            if u is None:
                isub += [0]
                continue
            main = ints(u[:u.index("|")] if "|" in u else u)
            isub += [1] + main
            if "|" in u:
                extra = ints(u[u.index("|") + 1:])
                nnd = main[2]
                if extra[:nnd] != main[3 + 2 * nnd:3 + 3 * nnd] or extra[nnd] != main[0]:
                    ctx.fail("sub-inconsistent", "dims %s remain %s old rank %d: in the new communicator Cart_coords(own rank)=%s, rank of them %d, "
                             "but Cart_get coords %s and own rank %d" % (dims, rem, r, extra[:nnd], extra[nnd], main[3 + 2 * nnd:3 + 3 * nnd], main[0]), case)
            dist["sub_members"] += 1
        if isub != m_sub[i]:
            ctx.fail("sub", "dims %s periods %s remain %s: implementation per old rank [flag newrank newsize ndims dims periods coords] %s, "
                     "MPI (verified) %s" % (dims, pers, rem, isub[:60], m_sub[i][:60]), case)
    # ---- Dims_create
    if dcases:
        m_dims = fw.run_model("c33", "run_c33_dims", dcases)
    for j, c in enumerate(dcases):
        i = len(ccases) + j
        case = {"kind": "D", "input": c}
        nn, nd, given = c[0], c[1], c[2:]
        o = [t for w, k, t in obs_of(per.get(i, [])) if k == "D"]
        if not o:
            ctx.fail("driver-crash", "no Dims_create observation for %s" % c, case)
            continue
        io = ints(o[0])
        m = m_dims[j]
        nontriv = m[0] == 0 and 0 in given and nn > 1
        ctx.case(("D", c), nontriv, {"kind": "D", "input": c, "impl": io, "model": m} if nontriv else None)
        if m[0] == 2:
            ctx.mismatch("model-fuel", "the model ran out of fuel on %s" % c, case)
            continue
        if io[0] == 0:
            res = io[1:]
            ok = len(res) == nd and all(x > 0 for x in res) and prod(res) == nn and all(g == 0 or g == x for g, x in zip(given, res))
            if not ok:
                ctx.fail("dims-product", "Dims_create(%d, %s) returned %s: product %d, must be %d with the given entries kept"
                         % (nn, given, res, prod(res), nn), case)
            elif m[0] == 0 and res != m[1:]:
                dist["dims_other_factorisation"] += 1
                if len(ctx.notes) < 5:
                    ctx.notes.append("harmless: Dims_create(%d,%s) gives %s, the model %s (both valid)" % (nn, given, res, m[1:]))
        else:
            dist["dims_err"] += 1
            if m[0] == 0:
                ctx.fail("dims-status", "Dims_create(%d, %s) returns an error although %s is a valid answer" % (nn, given, m[1:]), case)
    ctx.cov["input_distribution"] = dist
    ctx.assumptions += ["int arithmetic does not overflow (number of nodes <= 64 in the cart cases, <= 5000 in Dims_create)",
                        "Comm::split(color, key = old rank) orders each colour class by old rank (the model of Cart_sub counts the smaller "
                        "ranks of the same colour; checked here on every case, proved from the split model in C32)",
                        "Cart_rank with a coordinate out of range on a non-periodic dimension is erroneous in MPI: not constrained",
                        "Cart_shift with direction >= ndims is erroneous: not exercised (the code tests ndims < direction, so direction == ndims reads past the vectors)"]


META = {
    "level": "proof",
    "text": "Coq theorems over every number of dimensions and every positive extent (no bound): Cart_coords and Cart_rank are inverse "
            "bijections between [0, prod dims) and the coordinate box (C33_rank_coords_inverse, C33_coords_rank_inverse); out-of-range "
            "coordinates wrap on periodic dimensions and are refused otherwise (C33_rank_periodic_wrap); Cart_shift returns, for every "
            "direction and every displacement, the ranks whose k-th coordinate is c-disp / c+disp (mod the extent when periodic) or "
            "MPI_PROC_NULL off a non-periodic edge (C33_shift, C33_shift_neighbour_coords); Dims_create's answer has product nnodes and keeps "
            "the given entries, and the model's fuel always suffices (C33_dims_create_product, C33_dims_create_terminates); Cart_sub gives "
            "every process the kept extents/periods and its kept coordinates, which are the coordinates of its rank in the split "
            "communicator, of size the product of the kept extents (C33_sub_keeps_dims, by a counting argument over Comm::split). The pinned "
            "code is refuted on witnesses (C33_sub_pinned_refuted, C33_dims_create_pinned_refuted) and was repaired. Tied to the rebuilt "
            "library by an MPI program run under smpirun -np 64 whose every observation must equal the extracted model's (Dims_create: "
            "judged on status/product/given entries only).",
    "note": "Trusted: Coq kernel, extraction (ExtrOcamlBasic), the MPI harness and the generator/comparator in checks/C33.py. Modelled, not "
            "verified: the C++ functions themselves. Not modelled: int overflow, reorder (ignored by SimGrid), erroneous calls (direction >= "
            "ndims, non-periodic out-of-range coordinates). Dims_create's balance (MPI: as close as possible) is not in the property text; "
            "getfactors' d*d < num leaves squares of primes unfactored (Dims_create(9,2) = (9,1)), accepted. The error status of Dims_create "
            "is compared with the model, not proved complete.",
    "technique": "Coq proof (mixed-radix induction, counting over filtered ranges, lia/nia) + extracted-model correspondence under smpirun",
    "claimed": True,
}
