"""Shared glue of the synchronisation checks C04 (mutex), C05 (semaphore), C07 (barrier): program encoding, running
harness/k1_sync on the rebuilt library, parsing its event log and projecting it per object.

A program = (objs, actors): objs = [(kind, param)], actors = [[(op, obj, arg), ...], ...]   (see harness/k1_sync.cpp).
Actor k (0-based) gets pid k+1.  The harness prints REQ lines in the order in which the kernel executes the
operations (sequential contexts: user code of a sub-round runs in actors_to_run_ order and the simcalls are handled
in that same order), so "the operations on object o in REQ order" is the history the kernel applied to o."""
import concurrent.futures as cf
import fw

SLEEP, LOCK, TRYLOCK, UNLOCK, ACQUIRE, ACQ_TIMEOUT, RELEASE, BARWAIT, GETCAP, GETOWNER, PEEK = range(11)
TICK = 64          # one tick = 1/16 s = 64 units of the harness clock (clock * 1024)


def encode(objs, actors):
    c = [len(objs)]
    for k, p in objs:
        c += [k, p]
    c.append(len(actors))
    for a in actors:
        c.append(len(a))
        for op in a:
            c += list(op)
    return c


def decode(c):
    i = 0
    n = c[i]; i += 1
    objs = []
    for _ in range(n):
        objs.append((c[i], c[i + 1])); i += 2
    na = c[i]; i += 1
    actors = []
    for _ in range(na):
        k = c[i]; i += 1
        a = []
        for _ in range(k):
            a.append((c[i], c[i + 1], c[i + 2])); i += 3
        actors.append(a)
    return objs, actors


def harness():
    return fw.build_harness("k1_sync", ["-fno-access-control", "-std=gnu++20"])


def run_impl(cases, jobs=None, raw=False):
    """run every case (int list) on the real library; returns a list of parsed logs (see parse), or with raw=True the
    list of token lists printed by the harness (split-mode cases of C07 have their own record kinds)"""
    exe = harness()
    jobs = jobs or max(1, min(12, fw.NCPU - 2))
    chunks = [cases[i::jobs] for i in range(jobs)]

    def work(ch):
        if not ch:
            return []
        rc, out, err = fw.run_lines(exe, [], [" ".join(map(str, c)) for c in ch], timeout=3000)
        if rc != 0 or len(out) != len(ch):
            raise fw.BuildError("k1_sync driver failed rc=%d (%d/%d lines): %s" % (rc, len(out), len(ch), err[-500:]))
        return out
    with cf.ThreadPoolExecutor(max_workers=jobs) as ex:
        res = list(ex.map(work, chunks))
    outs = [None] * len(cases)
    for j, r in enumerate(res):
        for k, l in enumerate(r):
            outs[j + k * jobs] = l
    if raw:
        return [[int(x) for x in l.split()] for l in outs]
    return [parse(l) for l in outs]


def parse(line):
    """-> dict(events=[...], status, end_time).  event = dict(kind 'req'|'ret'|'peek', pid, op, obj, val, t, idx)"""
    t = [int(x) for x in line.split()]
    ev = []
    status, endt = None, None
    i = 0
    while i < len(t):
        k = t[i]
        if k == 1 or k == 2:
            ev.append({"kind": "req" if k == 1 else "ret", "pid": t[i + 1], "op": t[i + 2], "obj": t[i + 3],
                       "val": t[i + 4], "t": t[i + 5], "line": len(ev)})
            i += 6
        elif k == 3:
            n = t[i + 4]
            ev.append({"kind": "peek", "pid": t[i + 1], "op": PEEK, "obj": t[i + 2], "t": t[i + 3],
                       "val": t[i + 5:i + 5 + n], "line": len(ev)})
            i += 5 + n
        elif k == 4:
            ev.append({"kind": "solve", "pid": 0, "op": -1, "obj": -1, "val": 0, "t": t[i + 5], "line": len(ev)})
            i += 6
        elif k == 9:
            if status is None or t[i + 1] != 0:
                status, endt = t[i + 1], t[i + 5]
            i += 6
        else:
            status = 99
            break
    if status is None:
        status = 98
    return {"events": ev, "status": status, "end": endt}


def ops_of(log, obj):
    """the operations applied to object obj, in kernel order.  Each: dict(pid, op, arg, t, line, ret=None|dict(val,t,line,
    pos)) where pos = number of operations on this object requested before the return was seen."""
    reqs = []
    pending = {}
    for e in log["events"]:
        if e["kind"] == "solve":
            continue
        if e["kind"] == "req":
            if e["obj"] == obj and e["op"] != SLEEP:
                o = {"pid": e["pid"], "op": e["op"], "arg": e["val"], "t": e["t"], "line": e["line"], "ret": None}
                reqs.append(o)
                pending[e["pid"]] = o
            else:
                pending.pop(e["pid"], None)
        else:
            o = pending.pop(e["pid"], None)
            if o is not None and e["obj"] == obj:
                o["ret"] = {"val": e["val"], "t": e["t"], "line": e["line"], "pos": len(reqs)}
    return reqs


def bad_times(log):
    return any(e["t"] < 0 for e in log["events"])


def replay_case(ctx):
    import json
    c = json.load(open(ctx.replay))["case"]
    return c["case"] if isinstance(c, dict) else c
