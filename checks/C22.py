"""C22 — availability profiles are applied exactly.
K/O: a deterministic profile (<= 20 points, random period or none) on a host speed, a link bandwidth or a link latency
(harness/res_c22.cpp, rebuilt library): the values seen by an observer at sampled dates and the completion date of a
running exec/comm vs. the extracted Coq model (Res/Profile.v: the fired events, proved to be at j*P + d_k by
C22_event_dates; value_at; finish_date = integration of the piecewise-constant rate)."""
import json, math, concurrent.futures
from fractions import Fraction
import fw

KNOWN = "comm-bandwidth-increase-ignored"
KNOWN_ZERO = "exec-ignores-zero-availability"


def fq(x):
    f = Fraction(float(x))
    return [f.numerator, f.denominator]


def gen_case(rng):
    kind = rng.choice(["host", "host", "host", "link", "link", "lat"])
    dy = rng.random() < 0.5
    npts = rng.randint(1, 20)
    if dy:
        dates = sorted(rng.randint(0, 160) / 8.0 for _ in range(npts))
    else:
        dates = sorted(round(rng.uniform(0, 20), 3) for _ in range(npts))
    def val():
        if kind == "host":
            return rng.choice([0.125, 0.25, 0.5, 0.75, 1.0]) if dy else round(rng.uniform(0.05, 1), 3)
        if kind == "link":
            return float(rng.choice([1, 2, 4, 8]) * 2 ** 18) if dy else float("%.3g" % (10 ** rng.uniform(5, 7)))
        return rng.choice([1, 2, 3, 5]) / 1024.0 if dy else round(rng.uniform(0.0005, 0.01), 5)
    pts = [(repr(float(d)), repr(float(val()))) for d in dates]
    if kind == "host" and npts > 2 and rng.random() < 0.2:
        i = rng.randrange(npts - 1)
        pts[i] = (pts[i][0], "0.0")          # the host is stalled for a while
    last = float(pts[-1][0])
    r = rng.random()
    if r < 0.3:
        period = 0.0
    elif r < 0.4:
        period = last if last > 0 else 1.0
    else:
        period = last + (rng.randint(1, 40) / 8.0 if dy else round(rng.uniform(0.01, 5), 3))
    if 0 < period < 0.5:
        period += 1.0          # keeps the number of iterations to model small
    peak = {"host": "1e9" if not dy else repr(float(2 ** 30)), "link": pts[0][1] if rng.random() < .5 else repr(float(2 ** 20)), "lat": "0.001"}[kind]
    amount = 0
    if kind == "host":
        amount = float(peak) * (rng.randint(1, 200) / 8.0 if dy else round(rng.uniform(0.1, 25), 3))
    elif kind == "link":
        amount = int(float(2 ** 20) * (rng.randint(1, 200) / 8.0 if dy else rng.uniform(0.1, 25)))
    ns = rng.randint(1, 8)
    if dy:
        cand = [float(d) for d, _ in pts] + [float(d) + period for d, _ in pts if period > 0] + [rng.randint(0, 400) / 8.0 for _ in range(4)]
        samples = sorted(set(x for x in (rng.choice(cand) for _ in range(ns)) if x > 0)) or [0.125]
    else:
        samples = sorted(set(round(rng.randint(0, 40000) / 1000.0 + 0.0005, 4) for _ in range(ns)))
    return {"kind": kind, "period": repr(float(period)), "pts": pts, "peak": peak, "amount": repr(float(amount)), "samples": [repr(s) for s in samples]}


def line_of(c):
    t = [c["kind"], c["period"], len(c["pts"])] + [x for p in c["pts"] for x in p] + [c["peak"], c["amount"], len(c["samples"])] + c["samples"]
    return " ".join(str(x) for x in t)


CORPUS = [
    {"kind": "host", "period": "10.0", "pts": [("1.0", "0.5"), ("4.0", "1.0")], "peak": "1e9", "amount": "2e10", "samples": ["0.5", "1.0", "3.9", "4.0", "12.0"]},
    {"kind": "host", "period": "0.0", "pts": [("1.0", "0.5"), ("4.0", "0.25")], "peak": "1e9", "amount": "2e10", "samples": ["0.5", "2.0", "5.0"]},
    {"kind": "link", "period": "8.0", "pts": [("0.0", "4e6"), ("2.0", "1e6")], "peak": "1e6", "amount": "20000000.0", "samples": ["1.0", "2.0", "7.5", "10.0"]},
    {"kind": "link", "period": "8.0", "pts": [("0.0", "1e6"), ("2.0", "4e6")], "peak": "1e6", "amount": "20000000.0", "samples": ["1.0", "2.0", "7.5", "10.0"]},   # the finding
    {"kind": "lat", "period": "5.0", "pts": [("1.0", "0.002"), ("3.0", "0.004")], "peak": "0.001", "amount": "0.0", "samples": ["0.5", "1.0", "3.0", "6.5"]},
    {"kind": "host", "period": "4.0", "pts": [("0.0", "0.5"), ("4.0", "1.0")], "peak": "1e9", "amount": "6e9", "samples": ["0.125", "4.0", "8.0", "9.0"]},   # period = last date
]


def model_prefix(c, iters, cap=None):
    v = fq(c["period"]) + [len(c["pts"])]
    for d, x in c["pts"]:
        xv = x if cap is None else repr(min(float(x), cap))
        v += fq(d) + fq(xv)
    return v + [iters]


def run(ctx):
    ctx.simgrid(["simgrid"])
    ctx.prove()
    drv = fw.build_harness("res_c22")
    if ctx.replay:
        cases = [json.load(open(ctx.replay))["case"]]
    else:
        cases = list(CORPUS) + [gen_case(ctx.rng) for _ in range(ctx.n(300, 6000))]
    for c in cases:
        c["pts"] = [tuple(p) for p in c["pts"]]
    lines = [line_of(c) for c in cases]
    nw = max(1, min(fw.NCPU, len(lines) // 10))
    with concurrent.futures.ThreadPoolExecutor(nw) as ex:
        res = list(ex.map(lambda ch: fw.run_lines(drv, [], ch, timeout=1500), [lines[i::nw] for i in range(nw)]))
    outs = [None] * len(lines)
    for w, (rc, o, err) in enumerate(res):
        for j, idx in enumerate(range(w, len(lines), nw)):
            outs[idx] = o[j] if j < len(o) else "ERR driver rc=%d %s" % (rc, err[-200:])
    q, meta = [], []
    dist = {"host": 0, "link": 0, "lat": 0, "periodic": 0, "samples": 0, "discarded_samples": 0}
    for c, line, o in zip(cases, lines, outs):
        t = (o or "").split()
        if len(t) < 3 or t[0] != "F" or t[2] != "S" or len(t) != 3 + len(c["samples"]):
            ctx.fail("driver", "res_c22 '%s' answered '%s'" % (line[:300], (o or "")[:200]), c)
            continue
        fin = float(t[1])
        period = float(c["period"])
        horizon = max([float(s) for s in c["samples"]] + [fin, 1.0])
        iters = int(horizon / period) + 3 if period > 0 else 1
        init = "1.0" if c["kind"] == "host" else c["peak"]
        pre = model_prefix(c, iters)
        dist[c["kind"]] += 1
        dist["periodic"] += period > 0
        for s, got in zip(c["samples"], t[3:]):
            q.append(pre + [1] + fq(s) + fq(init))
            meta.append((c, line, "sample", s, got))
        if c["kind"] != "lat":
            peak = c["peak"] if c["kind"] == "host" else "1.0"
            q.append(pre + [2] + fq(peak) + fq(init) + fq(c["amount"]))
            meta.append((c, line, "finish", None, t[1]))
            if c["kind"] == "link":       # what the code does: the flow stays capped by the bandwidth seen when it started
                cap = float(c["peak"])    # date-0 events of an API-built platform are applied by the first solve(), after the comm started
                q.append(model_prefix(c, iters, cap) + [2] + fq("1.0") + fq(c["peak"]) + fq(c["amount"]))
                meta.append((c, line, "finish-capped", None, t[1]))
        ctx.case(line, len(c["pts"]) >= 2, {"case": line[:300], "impl": o[:200]})
    ans = fw.run_model("c22", "run_c22", q) if q else []
    verdict = {}
    for (c, line, what, s, got), m in zip(meta, ans):
        key = id(c)
        if what == "sample":
            dist["samples"] += 1
            if len(m) != 2:
                ctx.mismatch("run_c22", "model rejected its input for '%s'" % line[:200], c)
            elif Fraction(float(got)) != Fraction(m[0], m[1]):
                ctx.fail("value-at-date", "%s: at date %s the resource shows %s, the profile says %.17g" % (line[:400], s, got, m[0] / m[1]), c)
        else:
            if m == [-1] or len(m) != 2:
                ref = None
            else:
                ref = Fraction(m[0], m[1])
            ok = ref is not None and float(got) >= 0 and abs(Fraction(float(got)) - ref) <= Fraction(4, 10 ** 9) * max(1, abs(ref))
            verdict.setdefault(key, {"c": c, "line": line, "got": got})[what] = (ok, ref)
    for v in verdict.values():
        c, line, got = v["c"], v["line"], v["got"]
        ok, ref = v["finish"]
        if ok:
            continue
        what = "%s: completion at %s, integration of the profile gives %s" % (line[:400], got, "never" if ref is None else "%.17g" % float(ref))
        if c["kind"] == "host":
            zero = any(float(x) == 0.0 for d, x in c["pts"])
            ctx.fail(KNOWN_ZERO if zero and float(got) >= 0 and ref is not None and Fraction(float(got)) < ref else "exec-finish-date", what, c)
        elif v.get("finish-capped", (False, None))[0]:
            ctx.fail(KNOWN, what + " (the flow stayed capped by the bandwidth of its start)", c)
        else:
            ctx.fail("comm-finish-date", what, c)
    ctx.cov["rule"] = ("host speed (50%), link bandwidth (33%), link latency (17%) profiles of 1..20 points, dates <= 20, no period (30%), period = "
                       "last date (10%) or larger; half of the cases on a dyadic grid with samples AT event dates, the others on decimals with "
                       "samples 0.0005 away from every event date; one exec / one CM02 comm (no latency, no cross-traffic, no gamma) running from "
                       "date 0. non-trivial = at least 2 points; distinct = distinct driver lines")
    ctx.cov["input_distribution"] = dist
    ctx.assumptions += ["deterministic profiles only (no STOCHASTIC, no LOOPAFTER); state (on/off) profiles are not explored",
                        "no sample at date 0: events dated 0 are applied by the first solve() when the platform is built through the C++ API",
                        "completion dates compared with |impl - ref| <= 4e-9 * max(1, |ref|) (in the check), sampled values exactly",
                        "the lazy extension of Profile::event_list is abstracted as the concatenation of iterations"]


META = {
    "level": "proof",
    "text": "Coq theorems on the mirrored LegacyUpdateCb/Profile::next arithmetic (absolute dates -> deltas, PERIODICITY -> loop delay on the "
            "first delta of each later iteration, next date = current date + delta): for every non-empty pattern, period and number of "
            "iterations the k-th event of iteration j fires at j*P + d_k with value v_k (C22_event_dates); the value at date t is that of the "
            "last event at a date <= t (C22_value_at). Tied on every run: sampled Host::get_available_speed / Link::get_bandwidth / "
            "get_latency (exact) and exec/comm completion dates (integration of the piecewise-constant rate, by the extracted finish_date).",
    "note": "Integration is computed by the extracted model but not stated as a theorem (oracle only). Known finding " + KNOWN +
            ": a running CM02 comm keeps the bandwidth bound computed when it started, so a bandwidth increase is not integrated. "
            "Known finding " + KNOWN_ZERO + ": a speed event of value 0 does not stall a running exec (it goes on at the previous rate). "
            "Trusted: Coq kernel, extraction, harness/res_c22.cpp, generator and tolerance comparison in checks/C22.py.",
    "technique": "Coq proof (induction on iterations, Q arithmetic) + extracted-model differential correspondence",
    "claimed": True,
}
