"""C04 — mutex semantics: exclusion, FIFO hand-off, ownership, recursion.
Proof: Kernel/Mutex.v (+MutexProofs.v), Props/Properties_C04.v.
K+O: programs of up to 5 actors on up to 3 (recursive or not) mutexes run on the rebuilt library through the generic S4U
   interpreter harness/k1_sync; the kernel-ordered sequence of lock/try_lock/unlock calls of each mutex is replayed through
   the extracted step function (the reference about which the C04 theorems are proved).  Every outcome the property
   constrains - which lock() returns at once, which blocks, who is handed the mutex by which unlock and at which date,
   try_lock results, get_owner(), the non-owner unlock assertion - must be the reference's (a difference is a
   violation, ctx.fail); the private kernel state (recursive_depth, queue: PEEK) is compared too (a difference there alone
   is reported as a broken correspondence)."""
import fw
import k1_common as k1

UNLOCK_IF_MINE = 11
FX = 1   # the model of the repaired try_lock


def gen_case(rng):
    nm = rng.choice([1, 1, 2, 3])
    na = rng.randint(1, 5)
    objs = [(1 if rng.random() < 0.55 else 0, 0) for _ in range(nm)]
    actors = []
    for _ in range(na):
        a = []
        hold = [0] * nm      # what the actor would hold if every lock/try_lock succeeded
        for _ in range(rng.randint(2, 9)):
            m = rng.randrange(nm)
            r = rng.random()
            if r < 0.18:
                a.append((k1.SLEEP, 0, rng.choice([1, 1, 2, 2, 3, 4])))
            elif r < 0.40:
                a.append((k1.LOCK, m, 0)); hold[m] += 1
            elif r < 0.60:
                a.append((k1.TRYLOCK, m, 0)); hold[m] += 1
            elif r < 0.88:
                cand = [i for i in range(nm) if hold[i] > 0] or [m]
                m = rng.choice(cand)
                a.append((UNLOCK_IF_MINE, m, 0)); hold[m] = max(0, hold[m] - 1)
            elif r < 0.90:
                a.append((k1.UNLOCK, m, 0))          # possibly by a non-owner: the assertion must fire
            elif r < 0.95:
                a.append((k1.GETOWNER, m, 0))
            else:
                a.append((k1.PEEK, m, 0))
        if rng.random() < 0.8:                          # release what may still be held
            for m in range(nm):
                for _ in range(hold[m]):
                    a.append((UNLOCK_IF_MINE, m, 0))
        actors.append(a)
    return k1.encode(objs, actors)


L, T, U, S1 = (k1.LOCK, 0, 0), (k1.TRYLOCK, 0, 0), (k1.UNLOCK, 0, 0), (k1.SLEEP, 0, 1)
CORPUS = [
    # DESIGN section 6: recursive mutex, try_lock; lock; unlock by actor 1 while actor 2 wants it
    k1.encode([(1, 0)], [[T, L, U, (k1.GETOWNER, 0, 0), (k1.PEEK, 0, 0), S1, U], [T, L, (k1.GETOWNER, 0, 0), U]]),
    k1.encode([(1, 0)], [[T, T, L, U, U, S1, S1, U], [S1, T, L, U]]),
    k1.encode([(0, 0)], [[L, S1, S1, U], [L, U], [S1, L, U], [S1, T, (k1.PEEK, 0, 0)]]),        # FIFO hand-off
    k1.encode([(0, 0)], [[L, S1, U], [S1, S1, U]]),                                               # non-owner unlock -> assertion
    k1.encode([(0, 0)], [[U]]),                                                                   # unlock of a free mutex
    k1.encode([(1, 0)], [[L, L, L, U, U, S1, U], [S1, L, U], [T, S1, S1, T, U]]),
    k1.encode([(0, 0), (1, 0)], [[L, (k1.LOCK, 1, 0), S1, U, (k1.UNLOCK, 1, 0)], [(k1.LOCK, 1, 0), L, U, (k1.UNLOCK, 1, 0)]]),  # deadlock-free order
    k1.encode([(0, 0), (0, 0)], [[L, S1, (k1.LOCK, 1, 0)], [(k1.LOCK, 1, 0), S1, L]]),            # ABBA deadlock: both blocked for ever
]

MCODE = {k1.LOCK: 1, k1.TRYLOCK: 2, k1.UNLOCK: 3, k1.GETOWNER: 9, k1.PEEK: 10}


def model_input(kind, ops):
    inp = [FX, kind]
    for o in ops:
        inp += [MCODE[o["op"]], o["pid"]]
    return inp


def parse_model(out, ops):
    res, i = [], 0
    for _ in ops:
        code, k = out[i], out[i + 1]
        res.append((code, out[i + 2:i + 2 + k]))
        i += 2 + k
    return res


def compare(ops, pm, aborted, lenient=False, kind=1):
    """-> (violations [(sig, text)], state_diffs [text], error_line or None, stats).
    lenient: the reference says the run aborts on an assertion; the calls handled in the sub-round of the abort were
    executed but their return could not be observed any more, so a missing return proves nothing there."""
    bad, diffs = [], []
    pending = {}
    err_line = None
    st = {"blocked": 0, "handoff": 0, "try_fail": 0, "recursive_reacquire": 0}
    for j, (o, (code, xs)) in enumerate(zip(ops, pm)):
        r = o["ret"]
        who = "pid %d %s@t=%d" % (o["pid"], {1: "lock", 2: "try_lock", 3: "unlock", 9: "get_owner", 10: "peek"}[MCODE[o["op"]]], o["t"])
        if code in (0, 8):
            diffs.append("%s: outside the model's domain (code %d)" % (who, code))
            return bad, diffs, err_line, st
        if code == 7:       # assertion: the run must abort here
            err_line = o["line"]
            if r is not None or not aborted:
                bad.append(("mutex-nonowner-unlock-accepted", "%s by a non-owner was executed instead of failing the assertion" % who))
            return bad, diffs, err_line, st
        if r is None and lenient and code != 2:
            if code == 5 and xs:
                pending.pop(xs[0], None)
            continue
        if code == 10:
            # recursive_depth only means something on an owned recursive mutex: stale values elsewhere are not compared
            canon = lambda v: [v[0], v[1] if (kind == 1 and v[0] != 0) else 0] + list(v[2:])
            if r is None or canon(list(r["val"])) != canon(list(xs)):
                diffs.append("%s: kernel state %s, model %s" % (who, r and r["val"], xs))
            continue
        if code == 9:
            if r is None or r["val"] != xs[0]:
                bad.append(("mutex-owner", "%s returned %s, the reference owner is %d" % (who, r and r["val"], xs[0])))
            continue
        if code == 2:
            st["blocked"] += 1
            pending[o["pid"]] = j
            continue
        # the call returns at once
        if r is None:
            bad.append(("mutex-call-did-not-return", "%s did not return; the reference answers it at once (code %d)" % (who, code)))
            continue
        if r["t"] != o["t"]:
            bad.append(("mutex-date", "%s returned at t=%d" % (who, r["t"])))
        if code in (3, 4):
            st["try_fail"] += code == 4
            if r["val"] != (1 if code == 3 else 0):
                bad.append(("mutex-trylock-result", "%s returned %d, the reference says %d" % (who, r["val"], 1 if code == 3 else 0)))
        if code == 5 and xs:
            st["handoff"] += 1
            q = xs[0]
            i = pending.pop(q, None)
            if i is None:
                diffs.append("%s: the model wakes pid %d which has no pending lock" % (who, q))
                continue
            rq = ops[i]["ret"]
            if rq is None and lenient:
                continue
            if rq is None:
                bad.append(("mutex-missed-handoff", "%s hands the mutex to pid %d (FIFO head) but its lock() never returned" % (who, q)))
            elif rq["line"] < o["line"] or rq["t"] != o["t"]:
                bad.append(("mutex-early-grant", "pid %d's lock() returned at t=%d (log line %d); the reference grants it by %s (line %d)" % (
                    q, rq["t"], rq["line"], who, o["line"])))
    for q, i in pending.items():
        if ops[i]["ret"] is not None:
            bad.append(("mutex-early-grant", "pid %d's lock() requested at t=%d returned at t=%d; in the reference the mutex is never handed to it" % (
                q, ops[i]["t"], ops[i]["ret"]["t"])))
    return bad, diffs, err_line, st


def run(ctx):
    ctx.simgrid(["simgrid"])
    ctx.prove()
    ctx.cov["rule"] = ("random programs: 1-5 actors, 1-3 mutexes (55% recursive), 2-9 operations per actor among lock/try_lock/"
                       "unlock-if-held/raw unlock (2%)/get_owner/peek/dyadic sleeps, then release of what is held (80%); "
                       "non-trivial = some lock() had to wait or some try_lock failed or a recursive re-acquisition happened; "
                       "distinct = distinct programs")
    if ctx.replay:
        cases = [k1.replay_case(ctx)]
    else:
        cases = list(CORPUS) + [gen_case(ctx.rng) for _ in range(ctx.n(400, 6000))]
    logs = k1.run_impl(cases)
    dist = {"programs": len(cases), "mutexes": 0, "recursive": 0, "ops": 0, "blocked_locks": 0, "handoffs": 0, "try_fail": 0,
            "asserted": 0, "deadlocked": 0}

    def evaluate(trunc):
        jobs, where = [], []
        for ci, (c, log) in enumerate(zip(cases, logs)):
            objs, _ = k1.decode(c)
            for oi, (kind, _) in enumerate(objs):
                ops = k1.ops_of(log, oi)
                if ci in trunc:
                    ops = [o for o in ops if o["line"] <= trunc[ci]]
                for o in ops:
                    if o["op"] == UNLOCK_IF_MINE:
                        o["op"] = k1.UNLOCK
                jobs.append(model_input(kind, ops))
                where.append((ci, oi, kind, ops))
        return where, (fw.run_model("c04", "run_c04", jobs) if jobs else [])

    where, mouts = evaluate({})
    # an assertion aborts the whole simulation: operations logged after it were never executed
    trunc = {}
    for (ci, oi, kind, ops), mo in zip(where, mouts):
        _, _, el, _ = compare(ops, parse_model(mo, ops), logs[ci]["status"] == 1)
        if el is not None:
            trunc[ci] = min(trunc.get(ci, el), el)
    if trunc:
        where, mouts = evaluate(trunc)
    nontriv = [False] * len(cases)
    expect_abort = [False] * len(cases)
    blocked = [False] * len(cases)
    for (ci, oi, kind, ops), mo in zip(where, mouts):
        log = logs[ci]
        if k1.bad_times(log):
            ctx.mismatch("dyadic-clock", "a date of the run is not on the 1/1024 grid", {"case": cases[ci]})
            continue
        dist["mutexes"] += 1
        dist["recursive"] += kind
        dist["ops"] += len(ops)
        bad, diffs, el, st = compare(ops, parse_model(mo, ops), log["status"] == 1, ci in trunc, kind)
        dist["blocked_locks"] += st["blocked"]
        dist["handoffs"] += st["handoff"]
        dist["try_fail"] += st["try_fail"]
        if st["blocked"] or st["try_fail"]:
            nontriv[ci] = True
        if kind == 1 and any(o["op"] in (k1.LOCK, k1.TRYLOCK) for o in ops):
            nontriv[ci] = True
        if el is not None:
            expect_abort[ci] = True
        if st["blocked"] > st["handoff"]:
            blocked[ci] = True
        for sig, text in bad:
            ctx.fail(sig, "%s mutex %d: %s" % ("recursive" if kind else "plain", oi, text), {"case": cases[ci]})
        for text in diffs:
            ctx.mismatch("K-mutex-state", "%s mutex %d: %s" % ("recursive" if kind else "plain", oi, text), {"case": cases[ci]})
    for ci, (c, log) in enumerate(zip(cases, logs)):
        s = log["status"]
        dist["asserted"] += s == 1
        dist["deadlocked"] += s == 2
        if s == 1 and not expect_abort[ci]:
            ctx.fail("mutex-run-aborted", "the simulation aborted although every unlock was done by the owner in the reference", {"case": c})
        elif s not in (0, 1, 2):
            ctx.fail("mutex-run-crashed", "the run ended with status %d" % s, {"case": c})
        elif s in (0, 2) and not expect_abort[ci] and (s == 2) != blocked[ci]:
            ctx.mismatch("K-mutex-end", "run ended with status %d, the model %s a blocked actor" % (s, "has" if blocked[ci] else "has not"), {"case": c})
        ctx.case(c, nontriv[ci], {"program": c, "status": s, "events": len(log["events"])} if nontriv[ci] else None)
    ctx.cov["input_distribution"] = dist
    ctx.assumptions += ["sequential contexts (contexts/nthreads:1): the order of the REQ lines is the order in which the kernel executes the calls",
                        "non-MC path of s4u::Mutex::lock (one simcall); the MUTEX_ASYNC_LOCK/MUTEX_WAIT split used under simgrid-mc and sthread are not modelled",
                        "lock() of a non-recursive mutex by its owner is undefined behaviour and outside the property (the interpreter never does it)",
                        "the comparison of the implementation's outcomes with the extracted reference is done by checks/C04.py (trusted glue)"]


META = {
    "level": "proof",
    "text": "Coq theorems over every history of lock/try_lock/unlock calls by any number of actors on a recursive or plain mutex (step function "
            "mirroring MutexImpl::lock_async+wait_for/try_lock/unlock after the fix): at most one actor has outstanding acquisitions and it is "
            "owner_ (C04_exclusion, C04_owner_iff_held, C04_held_counts); an actor that obtained the mutex n times by any mix of lock/try_lock keeps "
            "it until its n-th unlock (C04_recursive_depth); a non-owner unlock fails the assertion and changes nothing (C04_only_owner_unlocks); "
            "try_lock never blocks and succeeds iff free or held by the caller on a recursive mutex (C04_trylock); lock() returns at once iff free or held by the caller, else queues at the end (C04_lock_outcome); waiting lockers are served in "
            "request order and a free mutex has no waiter (C04_fifo, C04_free_no_waiter, C04_handoff). The pinned try_lock is refuted "
            "(C04_pinned_try_lock_refuted) and was repaired. Tie: the kernel-ordered call sequence of generated S4U programs run on the rebuilt "
            "library is replayed through the extracted step function; all outcomes, get_owner and the private kernel state must agree.",
    "note": "Not modelled: the two-simcall MC path, sthread, parallel contexts, kills. Outside the domain: owner re-locking a non-recursive mutex "
            "(the code returns at once and leaves a stale acquisition; lemma relock_nonrecursive_code). Trusted: Coq kernel, extraction, "
            "harness/k1_sync.cpp, checks/k1_common.py and the outcome comparison in checks/C04.py.",
    "technique": "Coq proof (invariant + ghost acquisition counter over all op sequences) + replay correspondence on the real scheduler",
    "claimed": True,
}
