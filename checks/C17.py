"""C17 — selective (lazy) solving equals full recomputation (maxmin).
Proof : coq/theories/Lmm/Selective.v models the selective-update bookkeeping of lmm::System (modified_constraint_set, visited_
    stamps, visited_counter_ mod 2^32 and every place that updates them) on top of Lmm/System.v; Props/Properties_C17.v states, for
    every history and every initial counter, that the modified set is closed under "shares an enabled variable" (a union of
    connected components), contains the constraints touched since the last solve, and that the max-min characterisation
    (feasible + every variable has a bottleneck) splits along such a set (C17_local_partial).
K : every history is run by the real MaxMin with selective update on, with selective update off, and with selective update on and
    visited_counter_ started 3 solves before its wrap-around; at every solve() the three value vectors must agree, and must agree
    with a FRESH system built from the current activities and solved from scratch.  After EVERY operation of the two selective
    runs the implementation's modified_constraint_set and visited_counter_ are dumped and compared with the extracted model's.
O : the verified closure checker (run_c17_closed, Coq: find_open_none_iff) runs on every dumped modified set; a constraint whose
    solver-visible data changed (capacity, enabled elements, their weights/penalties/bounds) must be in the dumped set."""
import json
import fw
import lmm_common as L
from fractions import Fraction as F

AGE = 8
W32 = 1 << 32
WRAP_INIT = W32 - 3

CORPUS = [
    # a variable re-enabled while its first constraint is already in the modified set (repaired defect c05940b907)
    [(L.NEWC, F(1), 1, 3), (L.NEWC, F(8), 1, 2), (L.NEWC, F(8), 1, -1), (L.NEWC, F(5, 2), 0, 1), (L.NEWV, F(2), F(-1)), (L.EXPAND, 2, 0, F(1)),
     (L.NEWV, F(2), F(-1)), (L.NEWV, F(3), F(1, 4)), (L.NEWV, F(1), F(-1)), (L.NEWV, F(4), F(3)), (L.PEN, 0, F(0)), (L.EXPAND, 0, 0, F(1)),
     (L.NEWV, F(4), F(3)), (L.EXPAND, 2, 5, F(1, 16)), (L.NEWV, F(4), F(-1)), (L.SOLVE,), (L.PEN, 5, F(1, 2)), (L.PEN, 0, F(4)), (L.SOLVE,)],
    [(L.NEWC, F(10), 1, -1), (L.NEWC, F(4), 1, -1), (L.NEWV, F(1), F(-1)), (L.NEWV, F(1), F(-1)), (L.EXPAND, 0, 0, F(1)), (L.EXPAND, 1, 1, F(1)),
     (L.SOLVE,), (L.EXPAND, 1, 0, F(1)), (L.SOLVE,), (L.CBOUND, 0, F(2)), (L.SOLVE,), (L.FREE, 1), (L.SOLVE,)],
    # expand() onto a constraint that is already in the modified set (repaired defect e1052b4b48)
    [(L.NEWC, F(10), 1, -1), (L.NEWC, F(1), 1, -1), (L.NEWV, F(1), F(-1)), (L.EXPAND, 1, 0, F(1)), (L.SOLVE,), (L.CBOUND, 0, F(10)),
     (L.EXPAND, 0, 0, F(1)), (L.SOLVE,)],
    # a variable never visited since it was created at counter 1 (stamp 0) meets the counter after its wrap (repaired defect 142d91a19d)
    [(L.NEWC, F(10), 1, -1), (L.NEWC, F(1), 1, -1), (L.NEWC, F(1), 1, -1), (L.CBOUND, 0, F(10)), (L.CBOUND, 1, F(1)), (L.NEWV, F(1), F(-1)),
     (L.EXPAND, 1, 0, F(1)), (L.EXPAND, 0, 0, F(1)), (L.SOLVE,), (AGE, W32 - 3), (L.CBOUND, 2, F(1)), (L.SOLVE,), (L.CBOUND, 2, F(1)), (L.SOLVE,),
     (L.CBOUND, 2, F(1)), (L.SOLVE,), (L.CBOUND, 0, F(5)), (L.SOLVE,)],
    # stamps of the previous cycle of the counter must be gone when the counter comes back to them
    [(L.NEWC, F(10), 1, -1), (L.NEWC, F(1), 1, -1), (L.NEWV, F(1), F(-1)), (L.EXPAND, 1, 0, F(1)), (L.EXPAND, 0, 0, F(1)), (L.SOLVE,),
     (L.CBOUND, 0, F(8)), (L.SOLVE,), (L.CBOUND, 0, F(10)), (L.SOLVE,), (L.CBOUND, 0, F(8)), (L.SOLVE,), (L.CBOUND, 0, F(10)), (L.SOLVE,),
     (AGE, W32 - 3), (L.CBOUND, 0, F(5)), (L.SOLVE,)],
]


def encode(ops):
    out = []
    for o in ops:
        out += [8, o[1]] if o[0] == AGE else L.encode([o])
    return out


def show(ops):
    return "; ".join("age_until_counter(%d)" % o[1] if o[0] == AGE else L.show([o]) for o in ops)


def case_of(ops, **kw):
    d = {"ops": [[o[0]] + [str(x) for x in o[1:]] for o in ops], "text": show(ops)}
    d.update(kw)
    return d


def ops_of_case(case):
    res = []
    for o in case["ops"]:
        res.append((AGE, int(o[1])) if int(o[0]) == AGE else L.ops_of_case({"ops": [o]})[0])
    return res


def gen(rng, maxc):
    """a 60-modification history of lmm_common, with ageing steps inserted after some solves so that the counter passes its
    wrap-around and comes back near the stamps left by the first solves"""
    h = L.gen_history(rng, nops=60, maxc=maxc, limits=(rng.random() < 0.3), solve_p=0.25, suspend=0.15)
    if rng.random() < 0.7:
        solves = [i for i, o in enumerate(h) if o[0] == L.SOLVE][:-1]
        for i in sorted(rng.sample(solves, min(len(solves), rng.choice([1, 1, 2]))), reverse=True):
            h.insert(i + 1, (AGE, W32 - 1 - rng.randrange(0, 6)))
    return h


def run_sel(exe, hist, vinit):
    """selective run with the modified set dumped: -> [(segments, crash, mods)] ; mods[i] = (set list, counter, stamps)"""
    rc, out, err = fw.run_lines(exe, ["maxmin", "1", str(vinit), "mod"], [" ".join(map(str, encode(h))) for h in hist], timeout=1800)
    if rc != 0 or len(out) != len(hist):
        raise fw.BuildError("lmm_drv ended with rc=%d after %d/%d histories: %s" % (rc, len(out), len(hist), err[-400:]))
    res = []
    for l in out:
        segs, crash = L.parse_line(l)
        mods = []
        for part in l.split("|")[1:]:
            t = part.split()
            if "M" not in t:
                continue
            t = t[t.index("M") + 1:]
            n = int(t[0])
            mods.append(([int(x) for x in t[1:1 + n]], int(t[1 + n]), [int(x) for x in t[2 + n:]]))
        res.append((segs, crash, mods))
    return res


def run_full(exe, hist):
    rc, out, err = fw.run_lines(exe, ["maxmin", "0"], [" ".join(map(str, encode(h))) for h in hist], timeout=1800)
    if rc != 0 or len(out) != len(hist):
        raise fw.BuildError("lmm_drv ended with rc=%d after %d/%d histories: %s" % (rc, len(out), len(hist), err[-400:]))
    return [L.parse_line(l) for l in out]


def graph_ints(seg, mod):
    r = [len(seg.cns)]
    for k in seg.cns:
        r += [len(k["en"])] + [v for v, _ in k["en"]]
    r.append(len(seg.vars))
    for x in seg.vars:
        r += [len(x["elems"])] + [c for c, _ in x["elems"]] if x["alive"] else [0]
    return r + [len(mod)] + list(mod)


def view(seg, c):
    """what the solver reads of constraint c"""
    k = seg.cns[c]
    return (k["bound"], k["shared"], tuple(sorted((v, w, seg.vars[v]["pen"], seg.vars[v]["bound"]) for v, w in k["en"])))


def model_obs(ans, nops):
    """answer of run_c17 -> [(counter, set, closed, touched_in)] per operation"""
    res, i = [], 0
    for _ in range(nops):
        if i >= len(ans):
            break
        n = ans[i + 1]
        res.append((ans[i], ans[i + 2:i + 2 + n], ans[i + 2 + n], ans[i + 3 + n]))
        i += 4 + n
    return res


def fresh_history(s):
    """a fresh system holding the current activities of the dumped state s"""
    ops = [(L.NEWC, k["bound"], 1 if k["shared"] else 0, -1) for k in s.cns]
    ids = {}
    for v, x in enumerate(s.vars):
        if x["alive"]:
            ids[v] = len(ids)
            ops.append((L.NEWV, x["pen"], x["bound"]))
            for c, w in x["elems"]:
                ops.append((L.EXPAND, c, ids[v], w))
    ops.append((L.SOLVE,))
    return ops, ids


def close(a, b):
    return abs(a - b) <= 4 * L.TOL * max(1, abs(a), abs(b))


def check_sets(ctx, hist, runs, label, vinit, stats):
    """the tie and the oracle on the modified sets of one selective run"""
    cases = [[1, 1, 1, vinit] + encode(h) for h in hist]
    answers = fw.run_model("c17", "run_c17", cases)
    ocases, owhere = [], []
    for hi, h in enumerate(hist):
        segs, crash, mods = runs[hi]
        if crash is not None:
            continue
        mob = model_obs(answers[hi], len(h))
        prev = None
        for i, (seg, (mset, cnt, stamps)) in enumerate(zip(segs, mods)):
            pre = h[:i + 1]
            stats["set_dumps"] += 1
            if len(set(mset)) != len(mset):
                ctx.fail("modified-set-duplicate", "%s: a constraint is twice in modified_constraint_set %s after: %s" % (label, mset, show(pre)),
                         case_of(pre, vinit=vinit))
                break
            ocases.append(graph_ints(seg, mset))
            owhere.append((hi, i))
            bad = None
            if prev is not None and h[i][0] not in (L.SOLVE, AGE):
                pseg, pset = prev
                for c in range(len(pseg.cns)):
                    if view(pseg, c) != view(seg, c) and seg.cns[c]["en"] and c not in mset:
                        bad = ("touched-constraint-not-in-modified-set", "constraint %d changed (%s -> %s) but is not in the modified set %s" % (
                            c, view(pseg, c), view(seg, c), mset))
                        break
                    if c in pset and c not in mset and (seg.cns[c]["en"] or seg.cns[c]["dis"]):
                        bad = ("modified-set-shrinks", "constraint %d left the modified set (%s -> %s) before any solve although it still has elements" % (
                            c, pset, mset))
                        break
            if bad:
                ctx.fail(bad[0], "%s: %s after: %s" % (label, bad[1], show(pre)), case_of(pre, vinit=vinit))
                break
            prev = (seg, mset)
            if i < len(mob):
                mc, ms, mclosed, mtouch = mob[i]
                if mclosed != 1 or mtouch != 1:
                    ctx.mismatch("model-invariant", "%s: the extracted model's own state violates C17_modified_closed after: %s" % (label, show(pre)),
                                 case_of(pre, vinit=vinit))
                    break
                if sorted(ms) != sorted(mset) or mc != cnt:
                    stats["set_mismatch"] += 1
                    ctx.mismatch("modified-set", "%s: modified set %s counter %d in the implementation, %s counter %d in the model after: %s" % (
                        label, sorted(mset), cnt, sorted(ms), mc, show(pre)), case_of(pre, vinit=vinit))
                    break
            else:
                ctx.mismatch("modified-set", "%s: the model stops before the implementation on %s" % (label, show(pre)), case_of(pre, vinit=vinit))
                break
    if ocases:
        for (hi, i), ans in zip(owhere, fw.run_model("c17", "run_c17_closed", ocases)):
            stats["closure_checked"] += 1
            if ans[:1] != [1]:
                pre = hist[hi][:i + 1]
                ctx.fail("modified-set-not-closed",
                         "%s: constraint %s is in the modified set, variable %s is enabled on it and also uses constraint %s, which is not in the set %s, after: %s" % (
                             label, ans[1:2], ans[2:3], ans[3:4], runs[hi][2][i][0], show(pre)), case_of(pre, vinit=vinit))


def run(ctx):
    ctx.simgrid(["simgrid"])
    ctx.prove()
    drv = fw.build_harness("lmm_drv")
    if ctx.replay:
        hist = [ops_of_case(json.load(open(ctx.replay))["case"])]
    else:
        n = ctx.n(80, 2500)
        hist = list(CORPUS) + [gen(ctx.rng, ctx.rng.choice([3, 6, 12])) for _ in range(n)]
    ctx.cov["rule"] = ("random histories of 60 modifications (add/free, re-expand, bounds, penalties, capacities > 0, suspend/resume, limits in 30%, "
                       "ageing of the counter up to its wrap-around in 70%); every solve() is one evaluation; non-trivial = the solve happens after "
                       "at least one modification that touches only a part of a system with >= 2 constraints in use; distinct = distinct (history prefix)")
    stats = {"solves": 0, "fresh_compared": 0, "wrap_histories": len(hist), "set_dumps": 0, "closure_checked": 0, "set_mismatch": 0}
    sel = run_sel(drv, hist, 1)
    full = run_full(drv, hist)
    wrap = run_sel(drv, hist, WRAP_INIT)
    check_sets(ctx, hist, sel, "counter started at 1", 1, stats)
    check_sets(ctx, hist, wrap, "counter started at 2^32-3", WRAP_INIT, stats)
    fresh_cases, fresh_where = [], []
    for hi, h in enumerate(hist):
        (s1, c1, _), (s2, c2), (s3, c3, _) = sel[hi], full[hi], wrap[hi]
        if c1 is not None or c2 is not None or c3 is not None:
            ctx.fail("crash", "MaxMin aborts (%s/%s/%s) on %s" % (c1, c2, c3, show(h)), case_of(h))
            continue
        for i, (a, b, c) in enumerate(zip(s1, s2, s3)):
            if a.op != L.SOLVE:
                continue
            stats["solves"] += 1
            used = sum(1 for k in a.cns if k["en"])
            ctx.case(("h", tuple(encode(h[:i + 1]))), used >= 2, {"history": show(h[:i + 1])[:500]} if used >= 2 and i > 20 else None)
            bad = None
            for v, (x, y, z) in enumerate(zip(a.vars, b.vars, c.vars)):
                if not x["alive"]:
                    continue
                if not close(x["value"], y["value"]):
                    bad = ("selective-differs-from-full", v, x["value"], y["value"])
                elif not close(z["value"], y["value"]):
                    bad = ("selective-after-counter-wrap-differs-from-full", v, z["value"], y["value"])
                if bad:
                    break
            if bad:
                ctx.fail(bad[0], "variable %d: %.17g with selective update, %.17g with full recomputation after: %s" % (
                    bad[1], float(bad[2]), float(bad[3]), show(h[:i + 1])), case_of(h[:i + 1]))
                break
            if ctx.rng.random() < 0.5 or ctx.replay:
                fh, ids = fresh_history(a)
                fresh_cases.append(fh)
                fresh_where.append((hi, i, ids))
    if fresh_cases:
        fr = run_full(drv, fresh_cases)
        for (hi, i, ids), (segs, crash) in zip(fresh_where, fr):
            if crash is not None or not segs:
                continue
            stats["fresh_compared"] += 1
            a, f = sel[hi][0][i], segs[-1]
            for v, nv in ids.items():
                if not close(a.vars[v]["value"], f.vars[nv]["value"]):
                    ctx.fail("selective-differs-from-fresh-system",
                             "variable %d: %.17g in the system with selective update, %.17g in a fresh system holding the same activities, after: %s" % (
                                 v, float(a.vars[v]["value"]), float(f.vars[nv]["value"]), show(hist[hi][:i + 1])), case_of(hist[hi][:i + 1]))
                    break
    ctx.cov["input_distribution"] = stats
    ctx.assumptions += ["values compared within 4e-5 relative; capacities > 0 (see finding maxmin-zero-capacity of C15)",
                        "the fresh system holds the enabled variables with their current penalty, disabled/staged ones with penalty 0, no concurrency limit",
                        "age_until_counter(t) is a test device of the harness and of the model: it moves visited_counter_ to t (and clears modified_) as "
                        "t - counter repetitions of update_constraint_bound(unused constraint); solve() would, only when the modified set is empty and "
                        "without passing the wrap-around; the wrap itself is always executed by real solve() calls",
                        "the comparison of 'touched' constraints (solver-visible data changed between two dumps => in the dumped set) and of set "
                        "monotonicity between solves is Python glue over the dumps; closure is judged by the extracted verified checker"]
    ctx.cov["trusted_base"] = ctx.cov.get("trusted_base", []) + ["harness/lmm_drv.cpp reads private members through '#define private public'"]


META = {
    "level": "proof",
    "text": "Selective.v models modified_constraint_set / visited_ / visited_counter_ (mod 2^32) and every System operation that updates them, "
            "on top of System.v. Proved for every history and every initial counter in [1,2^32): the modified set is closed under 'shares an "
            "enabled variable' and is a union of connected components (C17_modified_closed, C17_modified_components), contains the constraints "
            "touched since the last solve (C17_touched_in_set), the recursion never runs out of fuel; the max-min characterisation (feasibility + "
            "bottleneck) of an allocation splits along any such set (C17_local_partial), so a selective solve that re-solves exactly a closed set "
            "and keeps the other rates yields an allocation satisfying the characterisation of the whole system (C17_selective_eq_full_partial). "
            "Pinned code refuted on three witnesses (C17_pinned_*_refuted). Equality of the numeric rates with a full recomputation is K: "
            "selective vs. full vs. counter-wrap vs. fresh system at every solve; the implementation's modified set and counter are compared "
            "with the extracted model after every operation and judged by the verified closure checker.",
    "note": "Not proved: uniqueness of the max-min characterisation (C16_unique is not available), hence the final step 'same rates' is by "
            "differential testing only; FATPIPE/bounds are covered by the characterisation lemma but not by an equality theorem. Three defects "
            "found and fixed in simgrid: c05940b907 (previous engineer), e1052b4b48 (expand on an already modified constraint), 142d91a19d "
            "(counter wrap-around epoch 0).",
    "technique": "Coq model + invariant proof over all histories; correspondence of private members after every operation; verified closure oracle; "
                 "differential testing of the rebuilt library against itself",
    "claimed": True,
}
