"""C17 — selective (lazy) solving equals full recomputation (maxmin).
No Coq theorem yet (the closure of the modified set under update_modified_cnst_set_rec is not modelled): this check is a
differential correspondence only and is NOT claimed.
K : every history is run by the real MaxMin with selective update on, with selective update off, with selective update on and
    visited_counter_ started 3 solves before its wrap-around; at every solve() the three value vectors must agree, and must agree
    with a FRESH system built from the current activities (constraints, enabled variables with their penalties/bounds/weights)
    and solved from scratch."""
import json
import fw
import lmm_common as L
from fractions import Fraction as F

CORPUS = [
    # a variable re-enabled while its first constraint is already in the modified set (repaired defect c05940b907)
    [(L.NEWC, F(1), 1, 3), (L.NEWC, F(8), 1, 2), (L.NEWC, F(8), 1, -1), (L.NEWC, F(5, 2), 0, 1), (L.NEWV, F(2), F(-1)), (L.EXPAND, 2, 0, F(1)),
     (L.NEWV, F(2), F(-1)), (L.NEWV, F(3), F(1, 4)), (L.NEWV, F(1), F(-1)), (L.NEWV, F(4), F(3)), (L.PEN, 0, F(0)), (L.EXPAND, 0, 0, F(1)),
     (L.NEWV, F(4), F(3)), (L.EXPAND, 2, 5, F(1, 16)), (L.NEWV, F(4), F(-1)), (L.SOLVE,), (L.PEN, 5, F(1, 2)), (L.PEN, 0, F(4)), (L.SOLVE,)],
    [(L.NEWC, F(10), 1, -1), (L.NEWC, F(4), 1, -1), (L.NEWV, F(1), F(-1)), (L.NEWV, F(1), F(-1)), (L.EXPAND, 0, 0, F(1)), (L.EXPAND, 1, 1, F(1)),
     (L.SOLVE,), (L.EXPAND, 1, 0, F(1)), (L.SOLVE,), (L.CBOUND, 0, F(2)), (L.SOLVE,), (L.FREE, 1), (L.SOLVE,)],
]


def fresh_history(s):
    """a fresh system holding the current activities of the dumped state s"""
    ops = [(L.NEWC, k["bound"], 1 if k["shared"] else 0, -1) for k in s.cns]
    ids = {}
    for v, x in enumerate(s.vars):
        if x["alive"]:
            ids[v] = len(ids)
            ops.append((L.NEWV, x["pen"], x["bound"]))
            for c, w in x["elems"]:
                ops.append((L.EXPAND, c, ids[v], w))
    ops.append((L.SOLVE,))
    return ops, ids


def close(a, b):
    return abs(a - b) <= 4 * L.TOL * max(1, abs(a), abs(b))


def run(ctx):
    ctx.simgrid(["simgrid"])
    ctx.level = "exploration"
    drv = fw.build_harness("lmm_drv")
    if ctx.replay:
        hist = [L.ops_of_case(json.load(open(ctx.replay))["case"])]
    else:
        n = ctx.n(150, 3000)
        hist = list(CORPUS) + [L.gen_history(ctx.rng, nops=60, maxc=ctx.rng.choice([3, 6, 12]), limits=(ctx.rng.random() < 0.3),
                                             solve_p=0.25, suspend=0.15) for _ in range(n)]
    ctx.cov["rule"] = ("random histories of 60 modifications (add/free, re-expand, bounds, penalties, capacities > 0, suspend/resume, limits in 30%); "
                       "every solve() is one evaluation; non-trivial = the solve happens after at least one modification that touches only a part "
                       "of a system with >= 2 constraints in use; distinct = distinct (history prefix)")
    stats = {"solves": 0, "fresh_compared": 0, "wrap_histories": len(hist)}
    sel = L.run_driver(drv, "maxmin", True, hist)
    full = L.run_driver(drv, "maxmin", False, hist)
    wrap = L.run_driver(drv, "maxmin", True, hist, vinit=4294967293)
    fresh_cases, fresh_where = [], []
    for hi, h in enumerate(hist):
        (s1, c1), (s2, c2), (s3, c3) = sel[hi], full[hi], wrap[hi]
        if c1 is not None or c2 is not None or c3 is not None:
            ctx.fail("crash", "MaxMin aborts (%s/%s/%s) on %s" % (c1, c2, c3, L.show(h)), L.case_of(h))
            continue
        for i, (a, b, c) in enumerate(zip(s1, s2, s3)):
            if a.op != L.SOLVE:
                continue
            stats["solves"] += 1
            used = sum(1 for k in a.cns if k["en"])
            ctx.case(("h", tuple(L.encode(h[:i + 1]))), used >= 2, {"history": L.show(h[:i + 1])[:500]} if used >= 2 and i > 20 else None)
            bad = None
            for v, (x, y, z) in enumerate(zip(a.vars, b.vars, c.vars)):
                if not x["alive"]:
                    continue
                if not close(x["value"], y["value"]):
                    bad = ("selective-differs-from-full", v, x["value"], y["value"])
                elif not close(z["value"], y["value"]):
                    bad = ("selective-after-counter-wrap-differs-from-full", v, z["value"], y["value"])
                if bad:
                    break
            if bad:
                ctx.fail(bad[0], "variable %d: %.17g with selective update, %.17g with full recomputation after: %s" % (
                    bad[1], float(bad[2]), float(bad[3]), L.show(h[:i + 1])), L.case_of(h[:i + 1]))
                break
            if ctx.rng.random() < 0.5 or ctx.replay:
                fh, ids = fresh_history(a)
                fresh_cases.append(fh)
                fresh_where.append((hi, i, ids))
    if fresh_cases:
        fr = L.run_driver(drv, "maxmin", False, fresh_cases)
        for (hi, i, ids), (segs, crash) in zip(fresh_where, fr):
            if crash is not None or not segs:
                continue
            stats["fresh_compared"] += 1
            a, f = sel[hi][0][i], segs[-1]
            for v, nv in ids.items():
                if not close(a.vars[v]["value"], f.vars[nv]["value"]):
                    ctx.fail("selective-differs-from-fresh-system",
                             "variable %d: %.17g in the system with selective update, %.17g in a fresh system holding the same activities, after: %s" % (
                                 v, float(a.vars[v]["value"]), float(f.vars[nv]["value"]), L.show(hist[hi][:i + 1])), L.case_of(hist[hi][:i + 1]))
                    break
    ctx.cov["input_distribution"] = stats
    ctx.assumptions += ["values compared within 4e-5 relative; capacities > 0 (see finding maxmin-zero-capacity of C15)",
                        "the fresh system holds the enabled variables with their current penalty, disabled/staged ones with penalty 0, no concurrency limit"]


META = {
    "level": "exploration",
    "text": "Differential check only (no theorem): real MaxMin with selective update vs. without vs. with visited_counter_ wrapping vs. a fresh system "
            "rebuilt from the current activities, at every solve() of random 60-modification histories. It found and led to the repair of a real defect "
            "(update_modified_cnst_set_from_variable flagged only cnsts_[0]).",
    "note": "Not claimed: the closure theorem C17_modified_closed over a model of update_modified_cnst_set_rec / visited_ stamps is not written.",
    "technique": "differential testing of the rebuilt library against itself (three configurations + fresh system)",
    "claimed": False,
}
