"""C29 - every collective algorithm computes the MPI result.

Proof (Coq, Smpi/CollSched.v + CollSpec.v): a collective is a data-oblivious schedule of Copy/Reduce steps on cells;
running it in ANY commutative monoid from inputs v(label) gives the image, under the unique homomorphism from the free
commutative monoid, of what it gives on provenance labels (C29_free_monoid_lifting).  So one run per
(algorithm, np, root, count) on provenance data decides the result for all data and all commutative operators.
T: gen/colls.py regenerates Gen/CollList.v (every selectable algorithm) from smpi_coll.cpp; every listed algorithm must
   be exercised.
O: harness/smpi_c29.c runs the real algorithm on provenance data (labels / counter vectors under a user-defined
   commutative op); the extracted verified checker coll_ok compares each rank's significant buffer with the MPI
   definition (CollSpec.spec_runs).  Explicit errors (MPI error code / xbt_assert message) are accepted, wrong
   buffers, crashes and deadlocks are violations.
"""
import concurrent.futures, json, os, re, sys, tempfile, time
import fw

sys.path.insert(0, os.path.join(fw.ROOT, "gen"))
import colls as gencolls

KINDS = {"bcast": 0, "reduce": 1, "allreduce": 2, "gather": 3, "gatherv": 4, "scatter": 5, "scatterv": 6, "allgather": 7,
         "allgatherv": 8, "alltoall": 9, "alltoallv": 10, "alltoallw": 11, "reduce_scatter": 12,
         "reduce_scatter_block": 13, "scan": 14, "exscan": 15, "barrier": 16}
KNAME = {v: k for k, v in KINDS.items()}
ROOTED = {0, 1, 3, 4, 5, 6}
REDUCING = {1, 2, 12, 13, 14, 15}
# kinds run for each table collective (cfg name) / single collective / non-blocking collective
TABLE_KINDS = {"gather": [3], "allgather": [7], "allgatherv": [8], "allreduce": [2], "reduce_scatter": [12, 13],
               "scatter": [5], "barrier": [16], "alltoall": [9], "alltoallv": [10], "bcast": [0], "reduce": [1]}
SINGLE_KINDS = {"alltoallw": [11], "exscan": [15], "gatherv": [4], "scan": [14], "scatterv": [6]}
NBC_KINDS = {"iallgather": [107], "iallgatherv": [108], "iallreduce": [102], "ialltoall": [109], "ialltoallv": [110],
             "ialltoallw": [111], "ibarrier": [116], "ibcast": [100], "iexscan": [115], "igather": [103],
             "igatherv": [104], "ireduce": [101], "ireduce_scatter": [112, 113], "iscan": [114], "iscatter": [105],
             "iscatterv": [106]}
MAXNP = 17


def large_count(kind):
    k = kind % 100
    if k == 0:
        return 20011          # 160 kB of labels: beyond every pipeline segment size
    if k in REDUCING:
        return 1031           # 280 kB of counter vectors
    return 2053               # 16 kB per block, np blocks


def counts_for(kind, np):
    if kind % 100 == 16:
        return [0, 1, 2]
    cs = []
    for c in (0, 1, 2, np - 1, np, np + 1, large_count(kind)):
        if c >= 0 and c not in cs:
            cs.append(c)
    return cs


# ----------------------------------------------------------------------------- untrusted python mirror of the spec
# (used only to word the message of a failure; the verdict comes from the extracted Coq checker)

def vcount(c, r):
    return c + r % 3


def a2acnt(c, q, r):
    return c + (q + 2 * r) % 3


def py_spec(kind, np, root, count, rank):
    """list of runs (len, shift, [(r,i)..]) with zero-length runs removed"""
    k = kind % 100
    allr = lambda i: [(q, i) for q in range(np)]
    gap = (1, 0, [(-1, -1)])
    if k == 0:
        runs = [(count, 1, [(root, 0)])]
    elif k == 1:
        runs = [(count, 1, allr(0))] if rank == root else []
    elif k == 2:
        runs = [(count, 1, allr(0))]
    elif k in (3, 7):
        runs = [(count, 1, [(q, 0)]) for q in range(np)] if (k == 7 or rank == root) else []
    elif k in (4, 8):
        runs = []
        if k == 8 or rank == root:
            for q in range(np):
                runs += [(vcount(count, q), 1, [(q, 0)]), gap]
    elif k == 5:
        runs = [(count, 1, [(root, rank * count)])]
    elif k == 6:
        runs = [(vcount(count, rank), 1, [(root, sum(vcount(count, p) for p in range(rank)))])]
    elif k == 9:
        runs = [(count, 1, [(q, rank * count)]) for q in range(np)]
    elif k in (10, 11):
        runs = []
        for q in range(np):
            runs += [(a2acnt(count, q, rank), 1, [(q, sum(a2acnt(count, q, p) for p in range(rank)))]), gap]
    elif k == 12:
        runs = [(vcount(count, rank), 1, allr(sum(vcount(count, p) for p in range(rank))))]
    elif k == 13:
        runs = [(count, 1, allr(rank * count))]
    elif k == 14:
        runs = [(count, 1, [(q, 0) for q in range(rank + 1)])]
    elif k == 15:
        runs = [(count, 1, [(q, 0) for q in range(rank)])] if rank > 0 else []
    else:
        runs = []
    return [r for r in runs if r[0] > 0]


def parse_runs(v):
    """v = [nruns, {len shift m r1 i1 ...}*] -> (runs, truncated)"""
    n = v[0]
    trunc = n >= 1000000
    n %= 1000000
    p = 1
    runs = []
    for _ in range(n):
        ln, sh, m = v[p], v[p + 1], v[p + 2]
        p += 3
        base = [(v[p + 2 * j], v[p + 2 * j + 1]) for j in range(m)]
        p += 2 * m
        runs.append((ln, sh, base))
    return runs, trunc


def fmt_runs(runs, limit=6):
    s = []
    for ln, sh, base in runs[:limit]:
        s.append("%dx%s{%s}" % (ln, "+" if sh else "=", ",".join("r%d.%d" % b for b in base[:18])))
    return " ".join(s) + (" ...(%d runs)" % len(runs) if len(runs) > limit else "")


# ----------------------------------------------------------------------------- running the implementation

class Job:
    """one smpirun invocation: a fixed (collective, algorithm, np, layout), a list of cases (kind, root, count, mode)"""

    def __init__(self, coll, algo, np, cases, layout="rr"):
        self.coll, self.algo, self.np, self.cases, self.layout = coll, algo, np, cases, layout
        self.results = {}      # case index -> {"ranks": {rank: (rc, elapsed, ints)}, "error": str|None}

    def cfg(self):
        c = []
        if self.algo != "-":
            c.append("smpi/%s:%s" % (self.coll, self.algo))
        return c


_hostfiles = {}


def hostfile(layout, np):
    """'rr': ranks round-robin over the 7 hosts of small_platform; 'blk': blocks of 4 consecutive ranks per host"""
    if layout == "rr":
        return None
    key = (layout, np)
    if key not in _hostfiles:
        hosts = ["Tremblay", "Jupiter", "Fafard", "Ginette", "Bourassa", "Jacquelin", "Boivin"]
        d = os.path.join(fw.B, "c29")
        os.makedirs(d, exist_ok=True)
        p = os.path.join(d, "hosts_%s_%d.txt" % (layout, np))
        with open(p, "w") as f:
            for r in range(np):
                f.write(hosts[(r // 4) % len(hosts)] + "\n")
        _hostfiles[key] = p
    return _hostfiles[key]


ERR_PATTERNS = [("deadlock", re.compile(r"[Dd]eadlock|Oops ! Deadlock")),
                ("segfault", re.compile(r"Segmentation fault|segfault|SIGSEGV|Access violation|Bad access|signal 11|double free|corrupted|munmap_chunk|malloc\(\)|free\(\): invalid|stack smashing|SIGABRT.*free|AddressSanitizer")),
                ("timeout", re.compile(r"\[timeout after")),
                ("explicit", re.compile(r"xbt_assert|Assertion|assertion|xbt_die|MPI_ERR|MPI error|Unhandled exception|error|Error|not supported|only works|must be"))]


def classify_error(text):
    for name, pat in ERR_PATTERNS:
        if pat.search(text):
            return name
    return "silent-exit"


def run_batch(prog, job, idxs, timeout):
    """run the cases idxs of job in one smpirun; fill job.results; return the list of indices left undone (after the
    first case that did not complete on every rank, which is recorded as errored)."""
    d = os.path.join(fw.B, "c29")
    os.makedirs(d, exist_ok=True)
    fd, path = tempfile.mkstemp(prefix="cases_", suffix=".txt", dir=d)
    with os.fdopen(fd, "w") as f:
        for i in idxs:
            k, root, count, mode = job.cases[i]
            f.write("%d %d %d %d %d\n" % (i, k, root, count, mode))
    rc, so, se = fw.smpirun(prog, job.np, [path], cfg=job.cfg() + ["smpi/simulate-computation:no", "smpi/privatization:no"], timeout=timeout,
                            hostfile=hostfile(job.layout, job.np))
    os.unlink(path)
    got = {}
    done = False
    for l in so.split("\n"):
        if l.startswith("O ") or l.startswith("D "):
            try:
                v = [int(t) for t in l[2:].split()]
            except ValueError:
                continue
            if l[0] == "O":
                got.setdefault(v[0], {})[v[1]] = (v[2], v[3], v[4:])
            else:
                got.setdefault(v[0], {})[v[1]] = (v[2], 0, v[3:])
        elif l.startswith("E done"):
            done = True
    left = []
    failed_at = None
    for pos, i in enumerate(idxs):
        if i in got and len(got[i]) == job.np:
            job.results[i] = {"ranks": got[i], "error": None}
        else:
            failed_at = pos
            break
    if failed_at is None:
        if not done or rc != 0:
            # every case answered but the program did not end cleanly: blame nothing in particular, note it
            job.results.setdefault("_tail", []).append((rc, (se + so)[-600:]))
        return []
    i = idxs[failed_at]
    text = "\n".join(l for l in (se + "\n" + so).split("\n")
                     if l.strip() and not l.startswith(("O ", "D ", "Execution failed", "[0.000000] [smpi/INFO]")) and "smpimain" not in l)
    text += "\nexit code %d" % rc
    job.results[i] = {"ranks": got.get(i, {}), "error": classify_error(text), "rc": rc,
                      "message": " | ".join(x.strip() for x in text.strip().split("\n")[-12:] if x.strip())[-900:]}
    return idxs[failed_at + 1:]


def run_job(prog, job, timeout=300):
    idxs = list(range(len(job.cases)))
    guard = 0
    while idxs:
        idxs = run_batch(prog, job, idxs, timeout)
        guard += 1
        if guard > len(job.cases) + 2:
            break
    return job


# ----------------------------------------------------------------------------- enumeration

def all_entries(table, single, nbc):
    """[(coll, algo, [kinds])]"""
    ent = []
    for coll, algos in table.items():
        for name, _ in algos:
            ent.append((coll, name, TABLE_KINDS.get(coll)))
    for s in single:
        ent.append((s, "-", SINGLE_KINDS.get(s)))
    for s in nbc:
        ent.append((s, "-", NBC_KINDS.get(s)))
    return ent


def cases_for(kinds, np, roots, counts_sel=None, modes=(0,)):
    cs = []
    for k in kinds:
        rs = roots if (k % 100) in ROOTED else ([0] if k % 100 != 16 else roots)
        for root in rs:
            for c in counts_for(k, np):
                if counts_sel is not None and c not in counts_sel(k, np):
                    continue
                for m in modes:
                    cs.append((k, root, c, m))
    return cs
