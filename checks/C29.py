import os
"""C29 - every collective algorithm computes the MPI result.

Proof (Coq, Smpi/CollSched.v + CollSpec.v): a collective is a data-oblivious schedule of Copy/Reduce steps on cells;
running it in ANY commutative monoid from inputs v(label) gives the image, under the unique homomorphism from the free
commutative monoid, of what it gives on provenance labels (C29_free_monoid_lifting).  So one run per
(algorithm, np, root, count) on provenance data decides the result for all data and all commutative operators.
T: gen/colls.py regenerates Gen/CollList.v (every selectable algorithm) from smpi_coll.cpp; every listed algorithm must
   be exercised.
O: harness/smpi_c29.c runs the real algorithm on provenance data (labels / counter vectors under a user-defined
   commutative op); the extracted verified checker coll_ok compares each rank's significant buffer with the MPI
   definition (CollSpec.spec_runs).  Explicit errors (MPI error code / xbt_assert message) are accepted, wrong
   buffers, crashes and deadlocks are violations.
"""
import concurrent.futures, json, os, re, sys, tempfile, time
import fw

sys.path.insert(0, os.path.join(fw.ROOT, "gen"))
import colls as gencolls

KINDS = {"bcast": 0, "reduce": 1, "allreduce": 2, "gather": 3, "gatherv": 4, "scatter": 5, "scatterv": 6, "allgather": 7,
         "allgatherv": 8, "alltoall": 9, "alltoallv": 10, "alltoallw": 11, "reduce_scatter": 12,
         "reduce_scatter_block": 13, "scan": 14, "exscan": 15, "barrier": 16}
KNAME = {v: k for k, v in KINDS.items()}
ROOTED = {0, 1, 3, 4, 5, 6}
REDUCING = {1, 2, 12, 13, 14, 15}
# kinds run for each table collective (cfg name) / single collective / non-blocking collective
TABLE_KINDS = {"gather": [3], "allgather": [7], "allgatherv": [8], "allreduce": [2], "reduce_scatter": [12, 13],
               "scatter": [5], "barrier": [16], "alltoall": [9], "alltoallv": [10], "bcast": [0], "reduce": [1]}
SINGLE_KINDS = {"alltoallw": [11], "exscan": [15], "gatherv": [4], "scan": [14], "scatterv": [6]}
NBC_KINDS = {"iallgather": [107], "iallgatherv": [108], "iallreduce": [102], "ialltoall": [109], "ialltoallv": [110],
             "ialltoallw": [111], "ibarrier": [116], "ibcast": [100], "iexscan": [115], "igather": [103],
             "igatherv": [104], "ireduce": [101], "ireduce_scatter": [112, 113], "iscan": [114], "iscatter": [105],
             "iscatterv": [106]}
MAXNP = 17


def large_count(kind):
    k = kind % 100
    if k == 0:
        return 20011          # 160 kB of labels: beyond every pipeline segment size
    if k in REDUCING:
        return 1031           # 280 kB of counter vectors
    return 2053               # 16 kB per block, np blocks


def counts_for(kind, np):
    if kind % 100 == 16:
        return [0, 1, 2]
    cs = []
    for c in (0, 1, 2, np - 1, np, np + 1, large_count(kind)):
        if c >= 0 and c not in cs:
            cs.append(c)
    return cs


# ----------------------------------------------------------------------------- untrusted python mirror of the spec
# (used only to word the message of a failure; the verdict comes from the extracted Coq checker)

def vcount(c, r):
    return c + r % 3


def a2acnt(c, q, r):
    return c + (q + 2 * r) % 3


def py_spec(kind, np, root, count, rank):
    """list of runs (len, shift, [(r,i)..]) with zero-length runs removed"""
    k = kind % 100
    allr = lambda i: [(q, i) for q in range(np)]
    gap = (1, 0, [(-1, -1)])
    if k == 0:
        runs = [(count, 1, [(root, 0)])]
    elif k == 1:
        runs = [(count, 1, allr(0))] if rank == root else []
    elif k == 2:
        runs = [(count, 1, allr(0))]
    elif k in (3, 7):
        runs = [(count, 1, [(q, 0)]) for q in range(np)] if (k == 7 or rank == root) else []
    elif k in (4, 8):
        runs = []
        if k == 8 or rank == root:
            for q in range(np):
                runs += [(vcount(count, q), 1, [(q, 0)]), gap]
    elif k == 5:
        runs = [(count, 1, [(root, rank * count)])]
    elif k == 6:
        runs = [(vcount(count, rank), 1, [(root, sum(vcount(count, p) for p in range(rank)))])]
    elif k == 9:
        runs = [(count, 1, [(q, rank * count)]) for q in range(np)]
    elif k in (10, 11):
        runs = []
        for q in range(np):
            runs += [(a2acnt(count, q, rank), 1, [(q, sum(a2acnt(count, q, p) for p in range(rank)))]), gap]
    elif k == 12:
        runs = [(vcount(count, rank), 1, allr(sum(vcount(count, p) for p in range(rank))))]
    elif k == 13:
        runs = [(count, 1, allr(rank * count))]
    elif k == 14:
        runs = [(count, 1, [(q, 0) for q in range(rank + 1)])]
    elif k == 15:
        runs = [(count, 1, [(q, 0) for q in range(rank)])] if rank > 0 else []
    else:
        runs = []
    return [r for r in runs if r[0] > 0]


def parse_runs(v):
    """v = [nruns, {len shift m r1 i1 ...}*] -> (runs, truncated)"""
    n = v[0]
    trunc = n >= 1000000
    n %= 1000000
    p = 1
    runs = []
    for _ in range(n):
        ln, sh, m = v[p], v[p + 1], v[p + 2]
        p += 3
        base = [(v[p + 2 * j], v[p + 2 * j + 1]) for j in range(m)]
        p += 2 * m
        runs.append((ln, sh, base))
    return runs, trunc


def fmt_runs(runs, limit=6):
    s = []
    for ln, sh, base in runs[:limit]:
        s.append("%dx%s{%s}" % (ln, "+" if sh else "=", ",".join("r%d.%d" % b for b in base[:18])))
    return " ".join(s) + (" ...(%d runs)" % len(runs) if len(runs) > limit else "")


# ----------------------------------------------------------------------------- running the implementation

class Job:
    """one smpirun invocation: a fixed (collective, algorithm, np, layout), a list of cases (kind, root, count, mode)"""

    def __init__(self, coll, algo, np, cases, layout="rr"):
        self.coll, self.algo, self.np, self.cases, self.layout = coll, algo, np, cases, layout
        self.results = {}      # case index -> {"ranks": {rank: (rc, elapsed, ints)}, "error": str|None}

    def cfg(self):
        c = []
        if self.algo != "-":
            c.append("smpi/%s:%s" % (self.coll, self.algo))
        return c


_hostfiles = {}


def hostfile(layout, np):
    """'rr': ranks round-robin over the 7 hosts of small_platform; 'blk': blocks of 4 consecutive ranks per host"""
    if layout == "rr":
        return None
    key = (layout, np)
    if key not in _hostfiles:
        hosts = ["Tremblay", "Jupiter", "Fafard", "Ginette", "Bourassa", "Jacquelin", "Boivin"]
        d = os.path.join(fw.B, "c29")
        os.makedirs(d, exist_ok=True)
        p = os.path.join(d, "hosts_%s_%d.txt" % (layout, np))
        with open(p, "w") as f:
            for r in range(np):
                f.write(hosts[(r // 4) % len(hosts)] + "\n")
        _hostfiles[key] = p
    return _hostfiles[key]


ERR_PATTERNS = [("deadlock", re.compile(r"[Dd]eadlock")),
                ("segfault", re.compile(r"Segmentation fault|exit code 139|double free|corrupted|munmap_chunk|invalid pointer|invalid size|invalid next size|stack smashing|Access violation|Bad access")),
                ("fpe", re.compile(r"Floating point exception|exit code 136")),
                ("timeout", re.compile(r"\[timeout after")),
                ("explicit", re.compile(r"Uncaught exception|Assertion|xbt_die|MPI_ERR|can't be used|not supported|not implemented"))]


def classify_error(text):
    for name, pat in ERR_PATTERNS:
        if pat.search(text):
            return name
    return "abort"


def run_batch(prog, job, idxs, timeout, attempt=0):
    """run the cases idxs of job in one smpirun; fill job.results; return the list of indices left undone (after the
    first case that did not complete on every rank, which is recorded as errored)."""
    d = os.path.join(fw.B, "c29")
    os.makedirs(d, exist_ok=True)
    fd, path = tempfile.mkstemp(prefix="cases_", suffix=".txt", dir=d)
    with os.fdopen(fd, "w") as f:
        for i in idxs:
            k, root, count, mode = job.cases[i]
            f.write("%d %d %d %d %d\n" % (i, k, root, count, mode))
    rc, so, se = fw.smpirun(prog, job.np, [path], cfg=job.cfg() + ["smpi/simulate-computation:no", "smpi/privatization:no"], timeout=timeout,
                            hostfile=hostfile(job.layout, job.np))
    os.unlink(path)
    got = {}
    done = False
    for l in so.split("\n"):
        if l.startswith("O ") or l.startswith("D "):
            try:
                v = [int(t) for t in l[2:].split()]
            except ValueError:
                continue
            if l[0] == "O":
                got.setdefault(v[0], {})[v[1]] = (v[2], v[3], v[4:])
            else:
                got.setdefault(v[0], {})[v[1]] = (v[2], 0, v[3:])
        elif l.startswith("E done"):
            done = True
    left = []
    failed_at = None
    for pos, i in enumerate(idxs):
        if i in got and len(got[i]) == job.np:
            job.results[i] = {"ranks": got[i], "error": None}
        else:
            failed_at = pos
            break
    if failed_at is None:
        if not done or rc != 0:
            # every case answered but the program did not end cleanly: blame nothing in particular, note it
            job.results.setdefault("_tail", []).append((rc, (se + so)[-600:]))
        return []
    i = idxs[failed_at]
    if attempt < 2 and classify_error((se + so) + "\nexit code %d" % rc) in ("abort", "timeout"):
        # no recognisable message (e.g. the loader could not map libsimgrid while it was being relinked, or the machine
        # is overloaded): infrastructure trouble is retried before anything is blamed on the algorithm
        time.sleep(3 + 5 * attempt)
        for k in list(job.results):
            if k in idxs:
                del job.results[k]
        return run_batch(prog, job, idxs, timeout, attempt + 1)
    text = "\n".join(l for l in (se + "\n" + so).split("\n")
                     if l.strip() and not l.startswith(("O ", "D ", "Execution failed", "[0.000000] [smpi/INFO]")) and "--cfg=smpi/privatization" not in l)
    text += "\nexit code %d" % rc
    job.results[i] = {"ranks": got.get(i, {}), "error": classify_error(text), "rc": rc,
                      "message": " | ".join(x.strip() for x in text.strip().split("\n")[-12:] if x.strip())[-900:]}
    return idxs[failed_at + 1:]


def run_job(prog, job, timeout=300):
    idxs = list(range(len(job.cases)))
    guard = 0
    while idxs:
        idxs = run_batch(prog, job, idxs, timeout)
        guard += 1
        if guard > len(job.cases) + 2:
            break
    return job


# ----------------------------------------------------------------------------- enumeration

def all_entries(table, single, nbc):
    """[(coll, algo, [kinds])]"""
    ent = []
    for coll, algos in table.items():
        for name, _ in algos:
            ent.append((coll, name, TABLE_KINDS.get(coll)))
    for s in single:
        ent.append((s, "-", SINGLE_KINDS.get(s)))
    for s in nbc:
        ent.append((s, "-", NBC_KINDS.get(s)))
    return ent


def cases_for(kinds, np, roots, counts_sel=None, modes=(0,)):
    cs = []
    for k in kinds:
        rs = roots if (k % 100) in ROOTED else ([0] if k % 100 != 16 else roots)
        for root in rs:
            for c in counts_for(k, np):
                if counts_sel is not None and c not in counts_sel(k, np):
                    continue
                for m in modes:
                    cs.append((k, root, c, m))
    return cs


# ----------------------------------------------------------------------------- the check

DIRECT_CODES = [t * 6 + o for t in (0, 1) for o in range(6) if not (t == 1 and o == 4)]   # no BXOR on double
CORPUS = [  # (coll, algo, np, layout, (kind, root, count, mode)) -- boundary / regression cases, run first
    ("reduce", "ompi_chain", 4, "rr", (1, 0, 0, 0)),
    ("bcast", "flattree_pipeline", 4, "rr", (0, 0, 20011, 0)),
    ("bcast", "ompi_split_bintree", 4, "rr", (0, 0, 1, 0)),
    ("scatter", "ompi_linear_nb", 4, "rr", (5, 1, 1, 0)),
    ("ireduce", "-", 4, "rr", (101, 0, 1, 0)),
    ("allreduce", "default", 3, "rr", (2, 0, 2, 0)),
    ("alltoallv", "default", 5, "rr", (10, 0, 0, 0)),
    ("gatherv", "-", 5, "rr", (4, 2, 1, 0)),
]


def count_class(kind, np, count):
    return "c0" if count == 0 else ("cl" if count == large_count(kind) else "cs")


def build_jobs(ctx, entries):
    rng = ctx.rng
    jobs = []
    for coll, algo, np, layout, case in CORPUS:
        jobs.append(Job(coll, algo, np, [case], layout))
    pow2 = [2, 4, 8, 16]
    other = [3, 5, 6, 7, 9, 10, 11, 12, 13, 14, 15, 17]
    for coll, algo, kinds in entries:
        if not kinds:
            continue
        if ctx.quick:
            # rotating slice: every algorithm at one power of two and one other size (seeded), np=1 now and then,
            # two roots, every count; one direct sample and one reweighted-data case per job
            nps = [rng.choice(pow2), rng.choice(other)]
            if rng.random() < 0.15:
                nps.append(1)
            for np in nps:
                roots = sorted(set([rng.randrange(np), rng.choice([0, np - 1])]))
                cases = cases_for(kinds, np, roots)
                extra = []
                for k in kinds:
                    root = rng.randrange(np)
                    c = rng.choice([1, 2, np + 1])
                    extra.append((k, root, c, rng.randint(1, 4)))
                    if k % 100 in REDUCING:
                        extra.append((k, root, c, -1 - rng.choice(DIRECT_CODES)))
                layout = "blk" if rng.random() < 0.3 else "rr"
                jobs.append(Job(coll, algo, np, cases + extra, layout))
        else:
            # thorough: 13 communicator sizes out of 1..17 (all powers of two, primes, 6, 9, 12) keep the tier around 20-25
            # minutes on 16 cores; VERIF_C29_FULL=1 runs every size 1..17 and the second host layout at every size >= 4
            full = os.environ.get("VERIF_C29_FULL") == "1"
            for np in (range(1, MAXNP + 1) if full else [1, 2, 3, 4, 5, 6, 7, 8, 9, 12, 13, 16, 17]):
                # all roots x counts {0,1,np+1}; every count at three roots
                some = sorted(set([0, np - 1, rng.randrange(np)]))
                cases = [c for c in cases_for(kinds, np, list(range(np))) if c[2] in (0, 1, np + 1) or c[1] in some]
                extra = []
                for k in kinds:
                    for root in some:
                        for c in (1, np + 1):
                            extra.append((k, root, c, rng.randint(1, 4)))
                            if k % 100 in REDUCING:
                                for code in DIRECT_CODES:
                                    extra.append((k, root, c, -1 - code))
                jobs.append(Job(coll, algo, np, cases + extra, "rr"))
                # a second host layout (4 consecutive ranks per host) for a slice of the grid: SMP-aware algorithms
                if np >= 4 and (full or np in (4, 8, 13, 16)):
                    sl = cases_for(kinds, np, sorted(set([0, rng.randrange(np)])))
                    jobs.append(Job(coll, algo, np, sl, "blk"))
    return jobs


def obs_line(kind, np, root, count, ranks):
    line = [kind, np, root, count]
    for r in range(np):
        v = ranks[r][2]
        line += [v[0] % 1000000] + list(v[1:])
    return line


def explain(kind, np, root, count, ranks, bad):
    out = []
    for r in bad[:2]:
        if r < 0 or r >= np:
            out.append("observation not parsable")
            continue
        runs, tr = parse_runs(ranks[r][2])
        out.append("rank %d holds %s%s, MPI defines %s" % (r, fmt_runs(runs), " (truncated)" if tr else "",
                                                       fmt_runs(py_spec(kind, np, root, count, r)) or "nothing"))
    return "; ".join(out)


def run(ctx):
    tm = {}
    t = time.time()
    ctx.simgrid()
    tm["simgrid"] = round(time.time() - t, 1)
    table, single, nbc = gencolls.generate(fw.REPO, fw.COQ)
    t = time.time()
    ctx.prove()
    tm["prove"] = round(time.time() - t, 1)
    prog = fw.build_smpi_prog("smpi_c29")
    entries = all_entries(table, single, nbc)
    for coll, algo, kinds in entries:
        if not kinds:
            ctx.mismatch("collective-without-spec", "collective %s (algorithm %s) of the regenerated table has no specification/kind in checks/C29.py" % (coll, algo), {"coll": coll, "algo": algo})
    if ctx.replay:
        rp = json.load(open(ctx.replay)).get("case") or {}
        jobs = [Job(rp["coll"], rp["algo"], rp["np"], [tuple(rp["case"])], rp.get("layout", "rr"))]
    else:
        jobs = build_jobs(ctx, entries)
    ctx.cov["rule"] = ("one case = (collective, algorithm, np, host layout, kind, root, count, data mode) run by smpirun on provenance data; "
                       "non-trivial = np >= 2 and (count >= 1 or barrier), i.e. data really moves between ranks; distinct = distinct case tuples")
    t0 = time.time()
    with concurrent.futures.ThreadPoolExecutor(max(4, fw.NCPU)) as ex:
        jobs = list(ex.map(lambda j: run_job(prog, j), jobs))
    t_run = time.time() - t0

    # ---- collect the oracle queries (deduplicated: correct algorithms all produce the same observation)
    q_check, q_barrier, q_direct = {}, {}, {}
    todo = []
    dist = {"cases": 0, "explicit_error": 0, "by_kind": {}, "np": {}, "count_class": {}, "modes": {"provenance": 0, "reweighted": 0, "direct": 0},
            "layouts": {}, "jobs": len(jobs), "smpirun_wall_s": round(t_run, 1)}
    exercised = set()
    for job in jobs:
        for i, case in enumerate(job.cases):
            kind, root, count, mode = case
            res = job.results.get(i)
            cd = {"coll": job.coll, "algo": job.algo, "np": job.np, "layout": job.layout, "case": list(case)}
            key = (job.coll, job.algo, job.np, job.layout, case)
            dist["cases"] += 1
            dist["by_kind"][KNAME[kind % 100] + ("(nb)" if kind >= 100 else "")] = dist["by_kind"].get(KNAME[kind % 100] + ("(nb)" if kind >= 100 else ""), 0) + 1
            dist["np"][job.np] = dist["np"].get(job.np, 0) + 1
            cc = count_class(kind, job.np, count)
            dist["count_class"][cc] = dist["count_class"].get(cc, 0) + 1
            dist["modes"]["direct" if mode < 0 else ("reweighted" if mode > 0 else "provenance")] += 1
            dist["layouts"][job.layout] = dist["layouts"].get(job.layout, 0) + 1
            nontriv = job.np >= 2 and (count >= 1 or kind % 100 == 16)
            exercised.add((job.coll, job.algo))
            sigbase = "%s:%s" % (job.coll, job.algo)
            # degenerate configurations (one rank, zero count) get their own signatures, so that a known defect there never
            # hides a violation of the same algorithm on ordinary configurations
            degs = (["@np1"] if job.np == 1 else []) + (["@count0"] if count == 0 else [])

            def dsig(x, degs=degs):
                cands = [x] + [x + d for d in degs]
                for c in cands:
                    if c in ctx.known:
                        return c
                return cands[-1]
            if res is None:
                ctx.case(key, nontriv)
                ctx.fail(dsig(sigbase + ":no-output"), "%s algorithm %s np=%d %s root=%d count=%d: no output" % (job.coll, job.algo, job.np, KNAME[kind % 100], root, count), cd)
                continue
            if res["error"]:
                ctx.case(key, nontriv)
                if res["error"] == "explicit":
                    dist["explicit_error"] += 1
                else:
                    ctx.fail(dsig("%s:%s" % (sigbase, res["error"])),
                             "%s algorithm %s, np=%d, %s root=%d count=%d mode=%d: the run ends with %s instead of a result or an explicit error: %s"
                             % (job.coll, job.algo, job.np, KNAME[kind % 100], root, count, mode, res["error"], res["message"][-500:]), cd)
                continue
            ranks = res["ranks"]
            if any(ranks[r][0] != 0 for r in range(job.np)):
                ctx.case(key, nontriv)
                dist["explicit_error"] += 1       # MPI error code returned: explicit error
                continue
            if mode < 0:
                o = (-1 - mode) % 6
                q = (o, kind, job.np, root, count)
                q_direct.setdefault(q, None)
                todo.append(("direct", q, job, i, cd, key, nontriv, sigbase, cc))
            elif kind % 100 == 16:
                q = tuple([job.np] + [x for r in range(job.np) for x in ranks[r][2][4:6]])
                q_barrier.setdefault(q, None)
                todo.append(("barrier", q, job, i, cd, key, nontriv, sigbase, cc))
            else:
                q = tuple(obs_line(kind, job.np, root, count, ranks))
                q_check.setdefault(q, None)
                todo.append(("check", q, job, i, cd, key, nontriv, sigbase, cc))
    t = time.time()
    for qs, fn in ((q_check, "run_c29_check"), (q_barrier, "run_c29_barrier"), (q_direct, "run_c29_direct")):
        keys = list(qs.keys())
        if keys:
            ans = fw.run_model("c29", fn, [list(k) for k in keys])
            for k, a in zip(keys, ans):
                qs[k] = a
    tm["oracle"] = round(time.time() - t, 1)
    tm["smpirun"] = round(t_run, 1)
    dist["phase_wall_s"] = tm
    dist["distinct_observations_judged"] = len(q_check) + len(q_barrier)
    nsample = 0
    obliv = {}
    for what, q, job, i, cd, key, nontriv, sigbase, cc in todo:
        kind, root, count, mode = job.cases[i]
        ranks = job.results[i]["ranks"]
        degs2 = (["@np1"] if job.np == 1 else []) + (["@count0"] if count == 0 else [])

        def dsig(x, degs=degs2):      # same rule as in the first loop, for this case
            cands = [x] + [x + d for d in degs]
            for c in cands:
                if c in ctx.known:
                    return c
            return cands[-1]
        head = "%s algorithm %s, np=%d (%s), %s root=%d count=%d" % (job.coll, job.algo, job.np, job.layout, KNAME[kind % 100] + ("(non-blocking)" if kind >= 100 else ""), root, count)
        sample = None
        if what == "check":
            bad = q_check[q]
            if nontriv and nsample < 6 and not bad:
                nsample += 1
                sample = dict(cd, observation_rank0=fmt_runs(parse_runs(ranks[0][2])[0]), verdict="coll_ok")
            ctx.case(key, nontriv, sample)
            if bad:
                ctx.fail(dsig("%s:wrong" % sigbase), head + (" (reweighted data)" if mode > 0 else "") + ": " + explain(kind, job.np, root, count, ranks, bad), cd)
            obliv.setdefault((id(job), kind, root, count), {})[mode] = [ranks[r][1] for r in range(job.np)]
        elif what == "barrier":
            ctx.case(key, nontriv)
            if q_barrier[q] != [1]:
                ent = [ranks[r][2][4] for r in range(job.np)]
                exi = [ranks[r][2][5] for r in range(job.np)]
                ctx.fail(dsig("%s:wrong" % sigbase), head + ": a rank left the barrier at %d ns before the last one entered at %d ns" % (min(exi), max(ent)), cd)
        else:
            ctx.case(key, nontriv)
            exp = q_direct[q]
            got = []
            for r in range(job.np):
                v = ranks[r][2]
                got += [v[0]] + list(v[1:1 + v[0]])
            if got != exp:
                code = -1 - mode
                ctx.fail(dsig("%s:direct-wrong" % sigbase), head + " %s %s: buffers %s, sequential reference %s" % (
                    ["int", "double"][code // 6], ["SUM", "PROD", "MAX", "MIN", "BXOR", "MAXLOC"][code % 6], got[:24], exp[:24]), cd)
    # obliviousness: same (kind, root, count) with different data must take the same simulated time on every rank
    nob, nobdiff = 0, 0
    for k, d in obliv.items():
        if 0 in d:
            for m, t in d.items():
                if m > 0:
                    nob += 1
                    if any(abs(a - b) > 1e-6 * max(a, b, 1) + 2000 for a, b in zip(t, d[0])):
                        nobdiff += 1
    dist["obliviousness_pairs"] = nob
    dist["obliviousness_pairs_with_different_timing"] = nobdiff
    if nobdiff:
        ctx.notes.append("%d of %d (provenance, reweighted) pairs differ in simulated duration: the message trace of some algorithm depends on the data" % (nobdiff, nob))
    if not ctx.replay:
        for coll, algo, kinds in entries:
            if kinds and (coll, algo) not in exercised:
                ctx.mismatch("algorithm-not-exercised", "%s:%s is selectable but no case ran it" % (coll, algo), {"coll": coll, "algo": algo})
    dist["algorithms"] = len(entries)
    sigs = {}
    for f in ctx.failures:
        d = sigs.setdefault(f["sig"], {"n": 0, "np": set(), "counts": set(), "example": f["what"][:300]})
        d["n"] += 1
        d["np"].add(f["case"]["np"])
        d["counts"].add(count_class(f["case"]["case"][0], f["case"]["np"], f["case"]["case"][2]))
    ctx.cov["failure_signatures"] = {k: {"n": v["n"], "np": sorted(v["np"]), "counts": sorted(v["counts"]), "example": v["example"]} for k, v in sigs.items()}
    ctx.cov["input_distribution"] = dist
    ctx.assumptions += [
        "collective algorithms are data-oblivious schedules of copies and operator applications (control flow depends on np, rank, root, counts, "
        "timing, never on buffer contents); sampled by re-running cases with reweighted data and comparing simulated durations",
        "the user-defined MPI_Op and MPI_Type_contiguous(34, MPI_UINT64_T) path of smpi is the same code path as for predefined types, except in "
        "algorithms that explicitly refuse derived types/user ops (reduce:rab, allreduce:rab*): those are judged on the direct samples only",
        "np <= 17; hosts of small_platform.xml, ranks round-robin or 4 per host; counts {0,1,2,np-1,np,np+1,large}; v-collectives use counts c + r mod 3 with one untouched gap cell between blocks",
        "floating-point SUM/PROD order is left free by MPI: direct samples use integer-valued doubles so that every order gives the same bits"]

META = {
    "level": "proof",
    "text": "Coq (unbounded in data, datatype and operator): C29_free_monoid_lifting - a data-oblivious schedule that leaves the MPI-specified "
            "multisets of provenance labels in its output cells leaves, in every commutative monoid and for every input, the fold of exactly those "
            "contributions (hom_run, hom_perm, hom_unique: the unique homomorphism from the free commutative monoid); C29_coll_ok_correct - the "
            "extracted checker accepts exactly the buffers MPI defines (C29_spec_* give them cell by cell); C29_compact_faithful - the counter-vector "
            "encoding of provenance used by the harness determines the multiset. Enumerated, not proved: (algorithm, np<=17, root, count) - every "
            "selectable algorithm of the table regenerated from smpi_coll.cpp plus the single/non-blocking collectives is run by smpirun on provenance "
            "data and judged by the checker; {int,double}x{SUM,PROD,MAX,MIN,BXOR,MAXLOC} direct samples are compared with the Coq reference.",
    "note": "Trusted: Coq kernel, extraction, harness/smpi_c29.c (data generation, decode of counter vectors into runs), error classification in "
            "checks/C29.py. Assumed: obliviousness of the algorithms (sampled by a timing comparison, reported in the evidence). Not covered: np > 17, "
            "MPI_IN_PLACE, non-commutative operators, inter-communicators. Explicit errors (MPI error code, xbt_assert/exception message) are accepted; "
            "wrong buffers, crashes, deadlocks are violations (known ones listed in KNOWN_FINDINGS.txt by collective:algorithm:class).",
    "technique": "Coq proof (free commutative monoid lifting, verified checker) + translator for the algorithm table + exhaustive enumeration of the configuration grid on provenance data",
    "claimed": True,
}
