#!/usr/bin/env python3
"""gen/ser.py — translator for C43.

Regenerates coq/theories/Gen/SerSpec.v from the *current* source:
  * application side: for every  <Observer>::serialize(mc::Channel&)  in src/kernel/actor/*Observer.cpp the sequence of
    Channel::pack<T>() calls (T resolved by clang: the JSON AST gives the instantiated parameter type even for
    un-annotated pack(x)), with its control structure (switch on type_, dynamic_cast alternatives, per-activity loops,
    calls to the static helpers serialize_activity_test/wait);
  * checker side: deserialize_transition() in src/mc/transition/Transition.cpp and the Channel-taking constructor of
    every Transition class it dispatches to: the sequence of Channel::unpack<T>() calls.
Both are specialised per Transition::Type tag and written as tables of wire items.  Anything the walker cannot
classify raises Untranslatable (the check then reports that the translator no longer understands the source instead of
guessing).

Usage: ser.py REPO COQDIR BUILDDIR [SGBUILD]   (writes COQDIR/theories/Gen/SerSpec.v only when its content changed)
As a module: spec = extract(repo, cachedir, sg); render(spec) -> text.
"""
import hashlib, json, os, re, subprocess, sys
from concurrent.futures import ThreadPoolExecutor

APP_FILES = ["src/kernel/actor/CommObserver.cpp", "src/kernel/actor/SynchroObserver.cpp",
             "src/kernel/actor/SimcallObserver.cpp", "src/kernel/actor/WaitTestObserver.cpp"]
CHK_FILES = ["src/mc/transition/Transition.cpp", "src/mc/transition/TransitionActor.cpp",
             "src/mc/transition/TransitionAny.cpp", "src/mc/transition/TransitionComm.cpp",
             "src/mc/transition/TransitionRandom.cpp", "src/mc/transition/TransitionSynchro.cpp"]
HASH_DIRS = ["src/kernel/actor", "src/kernel/activity", "src/mc/remote", "src/mc/transition", "src/mc/api", "src/mc"]


class Untranslatable(Exception):
    pass


# ------------------------------------------------------------------------------------------------ enum
def parse_type_enum(repo):
    """The Transition::Type enumerators, in order (XBT_DECLARE_ENUM_CLASS(Type, ...))."""
    txt = open(os.path.join(repo, "src/mc/transition/Transition.hpp")).read()
    m = re.search(r"XBT_DECLARE_ENUM_CLASS\(\s*Type\s*,(.*?)\);", txt, flags=re.S)
    if not m:
        raise Untranslatable("Transition::Type enum not found in Transition.hpp")
    body = re.sub(r"/\*.*?\*/", "", m.group(1), flags=re.S)
    body = re.sub(r"//[^\n]*", "", body)
    names = [x.strip() for x in body.split(",") if x.strip()]
    for n in names:
        if not re.fullmatch(r"[A-Z_0-9]+", n):
            raise Untranslatable("odd enumerator %r" % n)
    return names


# ------------------------------------------------------------------------------------------------ clang
def _tree_hash(repo):
    h = hashlib.sha1()
    seen = set()
    for d in HASH_DIRS:
        full = os.path.join(repo, d)
        for f in sorted(os.listdir(full)):
            p = os.path.join(full, f)
            if p in seen or not os.path.isfile(p) or not f.endswith((".cpp", ".hpp", ".h")):
                continue
            seen.add(p)
            h.update(f.encode())
            h.update(open(p, "rb").read())
    return h.hexdigest()


def _load_docs(txt):
    dec = json.JSONDecoder()
    i, docs = 0, []
    n = len(txt)
    while i < n:
        while i < n and txt[i].isspace():
            i += 1
        if i >= n:
            break
        o, i = dec.raw_decode(txt, i)
        docs.append(o)
    return docs


def _dump(repo, sg, rel, filt, cachedir, key):
    os.makedirs(cachedir, exist_ok=True)
    cp = os.path.join(cachedir, "%s-%s-%s.json" % (key[:16], rel.replace("/", "_"), filt))
    if not os.path.exists(cp):
        inc = ["-I" + repo, "-I" + repo + "/include", "-I" + repo + "/src", "-I" + repo + "/src/smpi/include",
               "-I" + repo + "/include/smpi", "-I" + sg + "/include", "-I" + sg]
        cmd = ["clang++", "-std=gnu++20", "-fsyntax-only", "-w", "-DSIMGRID_VERIF"] + inc + [
            "-Xclang", "-ast-dump=json", "-Xclang", "-ast-dump-filter=" + filt, os.path.join(repo, rel)]
        p = subprocess.run(cmd, stdout=subprocess.PIPE, stderr=subprocess.PIPE, timeout=600)
        if p.returncode != 0:
            raise Untranslatable("clang cannot parse %s:\n%s" % (rel, p.stderr.decode("utf8", "replace")[-1500:]))
        tmp = cp + ".tmp%d" % os.getpid()
        open(tmp, "wb").write(p.stdout)
        os.replace(tmp, cp)
        # drop stale cache entries of this file
        for f in os.listdir(cachedir):
            if f.endswith("-%s-%s.json" % (rel.replace("/", "_"), filt)) and not f.startswith(key[:16]):
                try:
                    os.remove(os.path.join(cachedir, f))
                except OSError:
                    pass
    return _load_docs(open(cp).read())


# ------------------------------------------------------------------------------------------------ AST walker
def qt(node):
    t = node.get("type", {})
    return t.get("desugaredQualType") or t.get("qualType") or ""


def is_type_enum(s):
    return s.replace("const ", "").strip().endswith("Transition::Type")


def strip(node):
    """skip wrappers that do not change the value"""
    while node.get("kind") in ("ImplicitCastExpr", "ParenExpr", "ExprWithCleanups", "CXXBindTemporaryExpr",
                               "MaterializeTemporaryExpr", "ConstantExpr", "CXXFunctionalCastExpr",
                               "CStyleCastExpr", "CXXStaticCastExpr") and len(node.get("inner", [])) == 1:
        node = node["inner"][0]
    return node


def enum_const(node):
    n = strip(node)
    if n.get("kind") == "DeclRefExpr" and n.get("referencedDecl", {}).get("kind") == "EnumConstantDecl" \
            and is_type_enum(n["referencedDecl"].get("type", {}).get("qualType", "")):
        return n["referencedDecl"]["name"]
    return None


def type_cond(node):
    """If node is a condition made only of  <Type expr> == Type::X  joined by ||, return the set of X; else None."""
    n = strip(node)
    if n.get("kind") == "BinaryOperator" and n.get("opcode") == "||":
        a, b = type_cond(n["inner"][0]), type_cond(n["inner"][1])
        return None if a is None or b is None else a | b
    if n.get("kind") == "BinaryOperator" and n.get("opcode") == "==":
        l, r = n["inner"]
        for x, y in ((l, r), (r, l)):
            c = enum_const(y)
            if c is not None and is_type_enum(qt(strip(x))) and enum_const(x) is None:
                return {c}
    return None


DIE_FUNCS = {"xbt_abort", "abort", "exit", "_exit", "xbt_throw_unimplemented", "xbt_throw_impossible"}


class Walker:
    def __init__(self, names):
        self.names = names            # enumerators by index
        self.helpers = set()          # names of functions whose body (de)serializes

    def channel_call(self, node):
        """('pack'|'unpack', ctype) when node is channel.pack<T>(x) / channel.unpack<T>(), else None"""
        if node.get("kind") != "CXXMemberCallExpr" or not node.get("inner"):
            return None
        callee = node["inner"][0]
        if callee.get("kind") != "MemberExpr" or callee.get("name") not in ("pack", "unpack"):
            return None
        base = strip(callee["inner"][0]) if callee.get("inner") else {}
        if "Channel" not in qt(base):
            return None
        if callee["name"] == "unpack":
            return ("unpack", qt(node), None)
        args = node["inner"][1:]
        if len(args) != 1:
            raise Untranslatable("raw Channel::pack(ptr, size) used where a typed pack<T> is expected")
        return ("pack", qt(args[0]), args[0])

    def walk(self, node):
        k = node.get("kind")
        inner = node.get("inner", [])
        if k is None:
            return []
        cc = self.channel_call(node)
        if cc:
            op, ctype, arg = cc
            if is_type_enum(ctype):
                if op == "pack":
                    c = enum_const(arg)
                    return [("TAG", c if c else "VAR")]
                return [("UNTAG",)]
            pre = []
            if arg is not None:
                pre = self.walk(arg)   # a pack whose argument itself unpacks/packs: keep order
            return pre + [("P", ctype)]
        if k == "IfStmt":
            parts = list(inner)
            els = parts.pop() if node.get("hasElse") else None
            then = parts.pop()
            cond = parts.pop()
            pre = [x for p in parts for x in self.walk(p)] + self.walk(cond)
            t, e = self.walk(then), (self.walk(els) if els else [])
            if not t and not e:
                return pre
            tc = type_cond(cond)
            if tc is not None:
                return pre + [("TIF", frozenset(tc), t, e)]
            return pre + [("ALT", t, e)]
        if k == "SwitchStmt":
            cond, body = inner[-2], inner[-1]
            cases, cur_labels, cur_items, default = [], None, [], None

            def flush():
                nonlocal cur_labels, cur_items, default
                if cur_labels is not None:
                    if "default" in cur_labels:
                        default = cur_items
                    labs = [l for l in cur_labels if l != "default"]
                    if labs:
                        cases.append((frozenset(labs), cur_items))
                cur_labels, cur_items = None, []

            def open_case(st):
                labels = []
                while st.get("kind") in ("CaseStmt", "DefaultStmt"):
                    if st["kind"] == "CaseStmt":
                        v = strip(st["inner"][0])
                        val = st["inner"][0].get("value")
                        c = enum_const(v)
                        if c is None and val is not None and is_type_enum(qt(st["inner"][0])):
                            c = self.names[int(val)]
                        if c is None:
                            raise Untranslatable("switch label is not a Transition::Type constant")
                        labels.append(c)
                        st = st["inner"][-1]
                    else:
                        labels.append("default")
                        st = st["inner"][-1]
                return labels, st

            terminated = True
            for st in body.get("inner", []):
                if st.get("kind") in ("CaseStmt", "DefaultStmt"):
                    labels, first = open_case(st)
                    if cur_labels is not None and not terminated:
                        if cur_items:
                            raise Untranslatable("switch case falls through after (de)serializing something")
                        labels = cur_labels + labels
                        cur_labels = None
                    flush()
                    cur_labels, cur_items, terminated = labels, [], False
                    st = first
                if st.get("kind") in ("BreakStmt",):
                    terminated = True
                    continue
                its = self.walk(st)
                cur_items += its
                if its and its[-1] in (("DIE",), ("RET",)):
                    terminated = True
            flush()
            if not any(its for _, its in cases) and not default:
                return self.walk(cond)
            if not is_type_enum(qt(strip(cond))):
                raise Untranslatable("switch around (de)serialization is not on a Transition::Type")
            return self.walk(cond) + [("TSWITCH", cases, default if default is not None else [])]
        if k in ("ForStmt", "WhileStmt", "CXXForRangeStmt", "DoStmt"):
            its = [x for c in inner for x in self.walk(c)]
            if not its:
                return []
            if k == "DoStmt":
                cond = strip(inner[-1])
                if cond.get("kind") in ("IntegerLiteral", "CXXBoolLiteralExpr") and str(cond.get("value")) in ("0", "False", "false"):
                    return its          # do { } while (0) of a macro
            if all(i == ("DIE",) for i in its):
                return [("DIE",)]
            return [("REP", its)]
        if k == "CXXThrowExpr":
            return [("DIE",)]
        if k == "ReturnStmt":
            return [x for c in inner for x in self.walk(c)] + [("RET",)]
        if k == "CallExpr":
            callee = strip(inner[0]) if inner else {}
            rd = callee.get("referencedDecl", {})
            if rd.get("kind") == "FunctionDecl":
                if rd.get("name") in DIE_FUNCS:
                    return [("DIE",)]
                args = [x for c in inner[1:] for x in self.walk(c)]
                if rd.get("name") in self.helpers:
                    return args + [("CALL", rd["name"])]
                return args
        if k == "CXXConstructExpr":
            cls = qt(node).replace("simgrid::mc::", "").replace("mc::", "")
            if cls.endswith("Transition") and "Channel" in node.get("ctorType", {}).get("qualType", ""):
                return [x for c in inner for x in self.walk(c)] + [("CALL", "ctor:" + cls)]
        if k == "LambdaExpr":
            return []
        return [x for c in inner for x in self.walk(c)]


def fn_body(doc):
    for c in doc.get("inner", []):
        if c.get("kind") == "CompoundStmt":
            return c
    return None


def contains_channel_use(node):
    if node.get("kind") == "MemberExpr" and node.get("name") in ("pack", "unpack"):
        return True
    return any(contains_channel_use(c) for c in node.get("inner", []))


# ------------------------------------------------------------------------------------------------ expansion
def wire_of(ctype):
    c = ctype.replace("const ", "").strip()
    if c.endswith("*"):
        return "WPtr"
    if c == "bool":
        return "WBool"
    ints = {"char": (1, True), "signed char": (1, True), "unsigned char": (1, False), "short": (2, True),
            "unsigned short": (2, False), "int": (4, True), "unsigned int": (4, False), "long": (8, True),
            "unsigned long": (8, False), "long long": (8, True), "unsigned long long": (8, False)}
    if c in ints:
        return "(WInt %d %s)" % (ints[c][0], "true" if ints[c][1] else "false")
    if "basic_string<char" in c or c in ("std::string", "string"):
        return "WStr"
    return "WOther"


class Expander:
    def __init__(self, funcs, names, var_tags):
        self.funcs, self.names, self.var_tags = funcs, names, var_tags
        self.tagged_helpers = set()

    def expand_fn(self, f, tag, depth=0):
        """paths of a whole function: a 'return' ends the function only"""
        return [(tg, acc[:-1] if acc and acc[-1] == "RET" else acc) for (tg, acc) in self.expand(self.funcs[f], tag, f, depth)]

    def expand(self, items, tag, owner, depth=0):
        """-> list of (tag, [flat items]) ; flat item = wire string | 'NESTED' | 'DIE'"""
        if depth > 8:
            raise Untranslatable("recursion too deep while expanding %s" % owner)
        paths = [(tag, [])]
        for it in items:
            new = []
            for (tg, acc) in paths:
                if acc and acc[-1] in ("DIE", "RET"):
                    new.append((tg, acc))
                    continue
                k = it[0]
                if k == "P":
                    new.append((tg, acc + [wire_of(it[1])]))
                elif k == "TAG":
                    if tg is not None:
                        raise Untranslatable("%s packs two type tags" % owner)
                    if it[1] == "VAR":
                        cands = self.var_tags.get(owner)
                        if not cands:
                            raise Untranslatable("no construction site gives the type tags of %s" % owner)
                        for c in cands:
                            new.append((c, list(acc)))
                    else:
                        new.append((it[1], acc))
                elif k == "UNTAG":
                    if tg is not None:
                        raise Untranslatable("%s unpacks two type tags" % owner)
                    for c in self.names:
                        new.append((c, list(acc)))
                elif k == "CALL":
                    f = it[1]
                    if f not in self.funcs:
                        raise Untranslatable("%s calls %s whose body is not available" % (owner, f))
                    sub = self.expand_fn(f, tg, depth + 1)
                    for (tg2, acc2) in sub:
                        new.append((tg2, acc + acc2))
                elif k == "TIF":
                    if tg is None:
                        raise Untranslatable("%s tests the type before it is known" % owner)
                    br = it[2] if tg in it[1] else it[3]
                    for (tg2, acc2) in self.expand(br, tg, owner, depth + 1):
                        new.append((tg2, acc + acc2))
                elif k == "TSWITCH":
                    if tg is None:
                        raise Untranslatable("%s switches on the type before it is known" % owner)
                    br = it[2]
                    for labs, its in it[1]:
                        if tg in labs:
                            br = its
                    for (tg2, acc2) in self.expand(br, tg, owner, depth + 1):
                        new.append((tg2, acc + acc2))
                elif k == "ALT":
                    a = self.expand(it[1], tg, owner, depth + 1)
                    b = self.expand(it[2], tg, owner, depth + 1)
                    # an alternative that only dies (xbt_assert) while the other does nothing is an assertion
                    if a and all(x[1] == ["DIE"] for x in a) and all(not x[1] for x in b):
                        a = []
                    elif b and all(x[1] == ["DIE"] for x in b) and all(not x[1] for x in a):
                        b = []
                    for (tg2, acc2) in a + b:
                        new.append((tg2, acc + acc2))
                elif k == "REP":
                    body = it[1]
                    calls = [x for x in body if x[0] == "CALL"]
                    if len(calls) == 1 and all(x[0] in ("CALL",) for x in body):
                        self.tagged_helpers.add(calls[0][1])
                        new.append((tg, acc + ["NESTED"]))
                    else:
                        raise Untranslatable("%s (de)serializes in a loop that is not 'one sub-transition per element'" % owner)
                elif k == "DIE":
                    new.append((tg, acc + ["DIE"]))
                elif k == "RET":
                    new.append((tg, acc + ["RET"]))
                else:
                    raise Untranslatable("unknown IR item %r" % (it,))
            paths = new
        return paths


def finalize(flat, owner):
    """DIE -> None ; (WInt 4 false) NESTED -> ICounted"""
    if flat and flat[-1] == "DIE":
        return None
    out = []
    for x in flat:
        if x == "NESTED":
            if not out or out[-1] != "IP (WInt 4 false)":
                raise Untranslatable("%s: list of sub-transitions without its unsigned count" % owner)
            out[-1] = "ICounted"
        else:
            out.append("IP " + x)
    return out


# ------------------------------------------------------------------------------------------------ construction sites
def construction_tags(repo, classes):
    res = {c: [] for c in classes}
    for root, _, files in os.walk(os.path.join(repo, "src")):
        for f in files:
            if not f.endswith((".cpp", ".hpp")):
                continue
            p = os.path.join(root, f)
            if "/kernel/actor/" in p and "Observer" in f:
                continue
            try:
                txt = open(p, errors="replace").read()
            except OSError:
                continue
            for c in classes:
                for m in re.finditer(r"\b%s\b\s*(?:\w+\s*)?[{(]" % re.escape(c), txt):
                    seg = txt[m.end():m.end() + 400].split(";")[0]
                    for t in re.findall(r"Transition::Type::([A-Z_0-9]+)", seg):
                        if t not in res[c]:
                            res[c].append(t)
    return res


# ------------------------------------------------------------------------------------------------ main extraction
def extract(repo, cachedir, sg):
    names = parse_type_enum(repo)
    key = _tree_hash(repo) + hashlib.sha1(open(os.path.abspath(__file__), "rb").read()).hexdigest()
    key = hashlib.sha1(key.encode()).hexdigest()
    sp = os.path.join(cachedir, "spec-%s.json" % key[:20])
    if os.path.exists(sp):
        spec = json.load(open(sp))
        spec["app"] = [tuple(x) for x in spec["app"]]
        return spec
    spec = _extract(repo, cachedir, sg, names, key)
    os.makedirs(cachedir, exist_ok=True)
    for f in os.listdir(cachedir):
        if f.startswith("spec-"):
            os.remove(os.path.join(cachedir, f))
    json.dump(spec, open(sp + ".tmp", "w"))
    os.replace(sp + ".tmp", sp)
    return spec


def _extract(repo, cachedir, sg, names, key):
    jobs = [(f, "serialize") for f in APP_FILES] + [(f, "ransition") for f in CHK_FILES]
    with ThreadPoolExecutor(max_workers=10) as ex:
        docs = list(ex.map(lambda j: _dump(repo, sg, j[0], j[1], cachedir, key), jobs))
    app_docs = [d for ds in docs[:len(APP_FILES)] for d in ds]
    chk_docs = [d for ds in docs[len(APP_FILES):] for d in ds]

    w = Walker(names)
    # ---- application side
    app_fn = {}      # owner -> body
    for d in app_docs:     # first the static helpers, so that serialize() bodies that only call them are recognised
        b = fn_body(d)
        if b is not None and d.get("kind") == "FunctionDecl" and d.get("name", "").startswith("serialize") \
                and contains_channel_use(b):
            app_fn["fn:" + d["name"]] = b
            w.helpers.add(d["name"])
    for d in app_docs:
        b = fn_body(d)
        if b is None or d.get("kind") != "CXXMethodDecl" or d.get("name") != "serialize":
            continue
        mn = d.get("mangledName", "")
        mm = re.match(r"_ZNK7simgrid6kernel5actor(\d+)", mn)
        if not mm:
            continue           # not an observer (e.g. MemoryAccessTrace::serialize)
        n = int(mm.group(1))
        app_fn[mn[len(mm.group(0)):len(mm.group(0)) + n]] = b
    if not app_fn:
        raise Untranslatable("no observer serialize() found")
    app_ir = {}
    for owner, b in app_fn.items():
        app_ir[owner[3:] if owner.startswith("fn:") else owner] = w.walk(b)
    observers = sorted(o for o in app_fn if not o.startswith("fn:"))
    var_tags = construction_tags(repo, [o for o in observers if "('TAG', 'VAR')" in repr(app_ir[o])])
    ex_app = Expander(app_ir, names, var_tags)
    app_entries, app_dies = [], []
    for o in observers:
        for (tg, flat) in ex_app.expand_fn(o, None):
            if tg is None:
                if flat == ["DIE"] or not flat:
                    continue    # observer that is never serialized (THROW_UNIMPLEMENTED)
                raise Untranslatable("%s serializes fields without a type tag" % o)
            fin = finalize(flat, o)
            if fin is None:
                app_dies.append((o, tg))      # the application itself refuses to serialize this (clear error)
            else:
                app_entries.append((o, tg, fin))
    nested_app = sorted(ex_app.tagged_helpers)
    nested_tags = []
    for h in nested_app:
        for (tg, flat) in ex_app.expand_fn(h, None):
            if tg not in nested_tags:
                nested_tags.append(tg)

    # ---- checker side
    w2 = Walker(names)
    chk_ir_src = {}
    for d in chk_docs:
        b = fn_body(d)
        if b is None:
            continue
        if d.get("kind") == "FunctionDecl" and d.get("name") == "deserialize_transition":
            chk_ir_src["deserialize_transition"] = d
        elif d.get("kind") == "CXXConstructorDecl" and "Channel" in d.get("type", {}).get("qualType", ""):
            chk_ir_src["ctor:" + d["name"]] = d
    if "deserialize_transition" not in chk_ir_src:
        raise Untranslatable("deserialize_transition not found")
    w2.helpers.add("deserialize_transition")
    chk_ir = {}
    for name, d in chk_ir_src.items():
        its = []
        for c in d.get("inner", []):
            if c.get("kind") == "CXXCtorInitializer":
                its += w2.walk(c)
        chk_ir[name] = its + w2.walk(fn_body(d))
    ex_chk = Expander(chk_ir, names, {})
    chk = {}
    for (tg, flat) in ex_chk.expand_fn("deserialize_transition", None):
        fin = finalize(flat, "deserialize_transition[%s]" % tg)
        if tg in chk and chk[tg] != fin:
            raise Untranslatable("deserialize_transition has two different decodings of %s" % tg)
        chk[tg] = fin
    return {"names": names, "app": app_entries, "chk": chk, "nested_tags": nested_tags, "var_tags": var_tags,
            "app_dies": app_dies}


def render(spec):
    names = spec["names"]
    idx = {n: i for i, n in enumerate(names)}
    L = ["(* GENERATED by gen/ser.py from the SimGrid source on every run of C43 - do not edit. *)",
         "From Coq Require Import List ZArith String.", "From SGV Require Import Mc.SerCodec.",
         "Import ListNotations.", "Local Open Scope string_scope.", "",
         "(* Transition::Type enumerators in declaration order; a tag is its index *)",
         "Definition type_names : list string := [" + "; ".join('"%s"' % n for n in names) + "]."]
    L.append("")
    L.append("(* application side: one entry per (observer class, type tag it can pack, packed field sequence) *)")
    L.append("Definition app_table : list (string * nat * list item) := [")
    rows = []
    for (o, tg, items) in spec["app"]:
        rows.append('  ("%s", %d (* %s *), [%s])' % (o, idx[tg], tg, "; ".join(items)))
    L.append(";\n".join(rows))
    L.append("].")
    L.append("")
    L.append("(* checker side: deserialize_transition + constructors; None = the checker dies with a clear message *)")
    L.append("Definition checker_table : list (nat * option (list item)) := [")
    rows = []
    for n in names:
        v = spec["chk"].get(n)
        rows.append("  (%d (* %s *), %s)" % (idx[n], n, "None" if v is None else "Some [%s]" % "; ".join(v)))
    L.append(";\n".join(rows))
    L.append("].")
    L.append("")
    L.append("(* tags that are only used out of the model checker (never issued when the checker is attached) *)")
    L.append("Definition nomc_tags : list nat := [%s]." % "; ".join(str(i) for i, n in enumerate(names) if n.endswith("_NOMC")))
    L.append("")
    L.append("(* tags the application packs for the elements of a TestAny/WaitAny list *)")
    L.append("Definition nested_tags : list nat := [%s]." % "; ".join(str(idx[t]) for t in spec["nested_tags"]))
    L.append("")
    return "\n".join(L)


def write_if_changed(path, text):
    old = open(path).read() if os.path.exists(path) else None
    if old != text:
        os.makedirs(os.path.dirname(path), exist_ok=True)
        open(path + ".tmp", "w").write(text)
        os.replace(path + ".tmp", path)
        return True
    return False


if __name__ == "__main__":
    repo, coq, build = sys.argv[1], sys.argv[2], sys.argv[3]
    sg = sys.argv[4] if len(sys.argv) > 4 else os.path.join(build, "sg")
    spec = extract(repo, os.path.join(build, "ser_cache"), sg)
    txt = render(spec)
    ch = write_if_changed(os.path.join(coq, "theories", "Gen", "SerSpec.v"), txt)
    print(txt)
    print("(* %s *)" % ("rewritten" if ch else "unchanged"))
