#!/usr/bin/env python3
"""gen/deplut.py — translator for C39.

Re-executes, in Python, the compile-time DependencyTableBuilder chain of src/mc/transition/Transition.cpp
(.cross_indep/.fill_group/.rule/.rule_all/.rule_all_actor_join/.rule_all_actor_create, in source order, with the
builder's own checks: inverted rule, overwrite without the flag, missing cell) and writes the resulting
Type x Type -> DependencyAction table to coq/theories/Gen/DepLut.v.  Also records a digest of the `switch (action)` of
dispatch_depends, whose cases are hand-modelled in Mc/Trans.v (a change there is reported, the K tie decides).

Usage: deplut.py REPO COQDIR      As a module: lut = extract(repo); render(lut) -> text.
"""
import hashlib, os, re, sys


class Untranslatable(Exception):
    pass


def strip_comments(txt):
    txt = re.sub(r"/\*.*?\*/", "", txt, flags=re.S)
    return re.sub(r"//[^\n]*", "", txt)


def parse_type_enum(repo):
    txt = open(os.path.join(repo, "src/mc/transition/Transition.hpp")).read()
    m = re.search(r"XBT_DECLARE_ENUM_CLASS\(\s*Type\s*,(.*?)\);", txt, flags=re.S)
    if not m:
        raise Untranslatable("Transition::Type enum not found in Transition.hpp")
    names = [x.strip() for x in strip_comments(m.group(1)).split(",") if x.strip()]
    for n in names:
        if not re.fullmatch(r"[A-Z_0-9]+", n):
            raise Untranslatable("odd enumerator %r" % n)
    return names


def extract(repo):
    names = parse_type_enum(repo)
    idx = {n: i for i, n in enumerate(names)}
    N = len(names)
    if names[-1] != "UNKNOWN":
        raise Untranslatable("UNKNOWN is not the last Transition::Type")
    src = open(os.path.join(repo, "src/mc/transition/Transition.cpp")).read()
    code = strip_comments(src)
    m = re.search(r"enum\s+class\s+DependencyAction\s*:\s*uint8_t\s*\{(.*?)\};", code, flags=re.S)
    if not m:
        raise Untranslatable("enum class DependencyAction not found")
    actions = [x.strip() for x in m.group(1).split(",") if x.strip()]
    m = re.search(r"dependency_table\s*=\s*\[\]\(\)\s*consteval\s*\{(.*?)\.build\(\)\s*;", code, flags=re.S)
    if not m:
        raise Untranslatable("dependency_table initialiser not found")
    body = m.group(1)
    groups = {}
    for g in re.finditer(r"constexpr\s+TypeGroup\s+(\w+)\s*=\s*\{\s*Type::(\w+)\s*,\s*Type::(\w+)\s*\}\s*;", body):
        groups[g.group(1)] = (idx[g.group(2)], idx[g.group(3)])
    chain = body[body.index("DependencyTableBuilder<NUM_TYPES>()") + len("DependencyTableBuilder<NUM_TYPES>()"):]
    table = [[None] * N for _ in range(N)]

    def rule(i, j, a, ow, where):
        if j < i:
            raise Untranslatable("inverted rule %s/%s in %s" % (names[i], names[j], where))
        if not ow and table[i][j] is not None:
            raise Untranslatable("rule %s/%s overwritten without the flag in %s" % (names[i], names[j], where))
        table[i][j] = a
        table[j][i] = a

    pos = 0
    calls = list(re.finditer(r"\.\s*(\w+)\s*\(([^()]*)\)", chain))
    # everything between calls must be white space (otherwise we do not understand the chain)
    for c in calls:
        if chain[pos:c.start()].strip():
            raise Untranslatable("unexpected text in the builder chain: %r" % chain[pos:c.start()].strip()[:80])
        pos = c.end()
        fn = c.group(1)
        args = [a.strip() for a in c.group(2).split(",")] if c.group(2).strip() else []
        where = c.group(0).strip()

        def ty(a):
            mm = re.fullmatch(r"Type::(\w+)", a)
            if not mm or mm.group(1) not in idx:
                raise Untranslatable("bad type %r in %s" % (a, where))
            return idx[mm.group(1)]

        def act(a):
            mm = re.fullmatch(r"DependencyAction::(\w+)", a)
            if not mm or mm.group(1) not in actions:
                raise Untranslatable("bad action %r in %s" % (a, where))
            return mm.group(1)

        def flag(rest):
            if not rest:
                return False
            if rest == ["true"]:
                return True
            if rest == ["false"]:
                return False
            raise Untranslatable("bad overwrite flag in %s" % where)

        def grp(a):
            if a not in groups:
                raise Untranslatable("unknown group %r in %s" % (a, where))
            return groups[a]

        if fn == "rule":
            rule(ty(args[0]), ty(args[1]), act(args[2]), flag(args[3:]), where)
        elif fn == "rule_all":
            t, a, ow = ty(args[0]), act(args[1]), flag(args[2:])
            for j in range(N):
                rule(min(t, j), max(t, j), a, ow, where)
        elif fn == "rule_all_actor_join":
            ow, t = flag(args), idx["ACTOR_JOIN"]
            for i in range(N):
                if i < t:
                    rule(i, t, "EVAL_T2_ACTOR_JOIN", ow, where)
                elif i > t:
                    rule(t, i, "EVAL_T1_ACTOR_JOIN", ow, where)
                else:
                    rule(t, t, "EVAL_BOTH_ACTOR_JOIN", ow, where)
        elif fn == "rule_all_actor_create":
            ow, t = flag(args), idx["ACTOR_CREATE"]
            for i in range(N):
                if i < t:
                    rule(i, t, "EVAL_T2_ACTOR_CREATE", ow, where)
                elif i > t:
                    rule(t, i, "EVAL_T1_ACTOR_CREATE", ow, where)
                else:
                    rule(t, t, "EVAL_BOTH_ACTOR_CREATE", ow, where)
        elif fn == "fill_group":
            (a, b), ac, ow = grp(args[0]), act(args[1]), flag(args[2:])
            for i in range(a, b + 1):
                for j in range(i, b + 1):
                    rule(i, j, ac, ow, where)
        elif fn == "cross_indep":
            (a, b), (c2, d), ow = grp(args[0]), grp(args[1]), flag(args[2:])
            for i in range(a, b + 1):
                for j in range(c2, d + 1):
                    rule(i, j, "ALWAYS_INDEP", ow, where)
        else:
            raise Untranslatable("unknown builder call %s" % where)
    if chain[pos:].strip():
        raise Untranslatable("unexpected text at the end of the builder chain: %r" % chain[pos:].strip()[:80])
    for i in range(N):
        for j in range(i, N):
            if table[i][j] is None:
                raise Untranslatable("missing rule %s/%s (the C++ would not compile)" % (names[i], names[j]))
    # the helpers rule_all_actor_join/create are themselves code: check that they still read as modelled above
    for helper, pats in (("rule_all_actor_join", ["EVAL_T2_ACTOR_JOIN", "EVAL_T1_ACTOR_JOIN", "EVAL_BOTH_ACTOR_JOIN"]),
                         ("rule_all_actor_create", ["EVAL_T2_ACTOR_CREATE", "EVAL_T1_ACTOR_CREATE", "EVAL_BOTH_ACTOR_CREATE"])):
        mm = re.search(r"%s\(bool overwrite = false\)\s*\{(.*?)return \*this;" % helper, code, flags=re.S)
        if not mm:
            raise Untranslatable("builder helper %s not found" % helper)
        found = re.findall(r"DependencyAction::(\w+)", mm.group(1))
        if found != pats or not re.search(r"if \(i < \w+\)", mm.group(1)) or not re.search(r"else if \(i > \w+\)", mm.group(1)):
            raise Untranslatable("builder helper %s changed: %s" % (helper, found))
    sw = re.search(r"switch \(action\) \{(.*?)xbt_die\(\"Critical LUT evaluation failure", code, flags=re.S)
    if not sw:
        raise Untranslatable("switch (action) of dispatch_depends not found")
    digest = hashlib.sha1(re.sub(r"\s+", " ", sw.group(1)).encode()).hexdigest()[:16]
    return {"names": names, "actions": actions, "table": table, "switch_digest": digest}


def render(lut):
    names, table = lut["names"], lut["table"]
    L = ["(* GENERATED by gen/deplut.py from src/mc/transition/Transition.cpp on every run of C39 - do not edit. *)",
         "From Coq Require Import List.", "From SGV Require Import Mc.Trans.", "Import ListNotations.", "",
         "(* Transition::Type enumerators, in order: %s *)" % ", ".join("%d=%s" % (i, n) for i, n in enumerate(names)),
         "Definition num_types : nat := %d." % len(names)] + [
         "Definition T_%s : nat := %d." % (n, i) for i, n in enumerate(names) if n not in ("TESTANY", "WAITANY", "BARRIER_ASYNC_LOCK", "BARRIER_WAIT")] + [
         "Definition types_as_in_Trans : bool := Nat.eqb T_TESTANY %d && Nat.eqb T_WAITANY %d && Nat.eqb T_BARRIER_ASYNC_LOCK %d && Nat.eqb T_BARRIER_WAIT %d."
         % (names.index("TESTANY"), names.index("WAITANY"), names.index("BARRIER_ASYNC_LOCK"), names.index("BARRIER_WAIT")), "",
         "(* dependency_table[i][j] as the consteval builder chain computes it *)",
         "Definition dep_table : list (list action) := ["]
    rows = []
    for i, r in enumerate(table):
        rows.append("  (* %2d %-18s *) [%s]" % (i, names[i], "; ".join(r)))
    L.append(";\n".join(rows))
    L.append("].")
    L.append("")
    L.append("(* digest of the switch (action) body of dispatch_depends that Mc/Trans.v models by hand: %s *)" % lut["switch_digest"])
    L.append("")
    return "\n".join(L)


def write_if_changed(path, text):
    old = open(path).read() if os.path.exists(path) else None
    if old != text:
        os.makedirs(os.path.dirname(path), exist_ok=True)
        open(path + ".tmp", "w").write(text)
        os.replace(path + ".tmp", path)
        return True
    return False


if __name__ == "__main__":
    lut = extract(sys.argv[1])
    txt = render(lut)
    ch = write_if_changed(os.path.join(sys.argv[2], "theories", "Gen", "DepLut.v"), txt)
    print(txt)
    print("(* %s *)" % ("rewritten" if ch else "unchanged"))
