"""Translator for C27: src/xbt/xbt_parse_units.cpp -> coq/theories/Gen/UnitsTable.v

Extracted from the source on every run:
  * the prefix vectors and the multiplier of each `case <base>:` of the unit_scale constructor,
  * for every  double xbt_parse_get_<kind>(...)  the initializer of its `static const unit_scale units{...}`
    (std::make_pair(name, constant-expression) or std::make_tuple(name, value, base, abbrev)) and its default unit
    (last argument of the call to xbt_parse_get_value_with_unit).
Constant expressions are decimal literals and products of them; they are converted to exact rationals.
Anything the translator does not understand raises TranslateError (the check reports it; it never guesses)."""
import os, re, sys
from fractions import Fraction
from decimal import Decimal

KINDS = ["time", "size", "bandwidth", "speed"]


class TranslateError(Exception):
    pass


def strip_comments(t):
    t = re.sub(r"/\*.*?\*/", " ", t, flags=re.S)
    return re.sub(r"//[^\n]*", " ", t)


def const_expr(e):
    """product of decimal literals -> Fraction"""
    e = e.strip()
    if not e:
        raise TranslateError("empty constant expression")
    v = Fraction(1)
    for f in e.split("*"):
        f = f.strip()
        if not re.fullmatch(r"[0-9]+(\.[0-9]*)?([eE][-+]?[0-9]+)?|\.[0-9]+([eE][-+]?[0-9]+)?", f):
            raise TranslateError("unsupported constant expression %r" % e)
        v *= Fraction(Decimal(f))
    return v


def split_args(s):
    """split on top-level commas"""
    out, depth, cur, instr = [], 0, "", False
    for ch in s:
        if ch == '"':
            instr = not instr
        if not instr:
            if ch in "({":
                depth += 1
            elif ch in ")}":
                depth -= 1
            elif ch == "," and depth == 0:
                out.append(cur)
                cur = ""
                continue
        cur += ch
    if cur.strip():
        out.append(cur)
    return [x.strip() for x in out]


def cstring(s):
    m = re.fullmatch(r'"((?:[^"\\]|\\.)*)"', s.strip())
    if not m or "\\" in m.group(1):
        raise TranslateError("expected a plain string literal, got %r" % s)
    return m.group(1)


def balanced(t, i, op, cl):
    """t[i] == op; returns index just after the matching close"""
    assert t[i] == op
    d = 0
    for j in range(i, len(t)):
        if t[j] == op:
            d += 1
        elif t[j] == cl:
            d -= 1
            if d == 0:
                return j + 1
    raise TranslateError("unbalanced %s" % op)


def parse(path):
    t = strip_comments(open(path).read())
    res = {"prefixes": {}, "mult": {}, "kinds": {}}
    # --- constructor: switch (base) { case N: mult = X; prefixes = abbrev ? vector{...} : vector{...}; break; ...
    m = re.search(r"unit_scale::unit_scale\s*\(", t)
    if not m:
        raise TranslateError("unit_scale constructor not found")
    b = t.index("{", balanced(t, m.end() - 1, "(", ")"))
    body = t[b:balanced(t, b, "{", "}")]
    for cm in re.finditer(r"case\s+(\d+)\s*:(.*?)break\s*;", body, flags=re.S):
        base, blk = int(cm.group(1)), cm.group(2)
        mm = re.search(r"mult\s*=\s*([^;]+);", blk)
        pm = re.search(r"prefixes\s*=\s*abbrev\s*\?\s*std::vector<std::string>\s*\{([^}]*)\}\s*:\s*std::vector<std::string>\s*\{([^}]*)\}\s*;", blk, flags=re.S)
        if not mm or not pm:
            raise TranslateError("cannot read case %d of the unit_scale constructor" % base)
        res["mult"][base] = const_expr(mm.group(1))
        res["prefixes"][(base, True)] = [cstring(x) for x in split_args(pm.group(1))]
        res["prefixes"][(base, False)] = [cstring(x) for x in split_args(pm.group(2))]
    if not res["mult"]:
        raise TranslateError("no case in the unit_scale constructor")
    # the loop must be the known one: emplace(unit, value); for prefix: value *= mult; emplace(prefix + unit, value)
    loop = re.sub(r"\s+", "", body)
    if "emplace(unit,value);for(constauto&prefix:prefixes){value*=mult;emplace(prefix+unit,value);}" not in loop:
        raise TranslateError("the emplace loop of the unit_scale constructor changed shape")
    # --- per kind
    for k in KINDS:
        m = re.search(r"double\s+xbt_parse_get_%s\s*\(" % k, t)
        if not m:
            raise TranslateError("xbt_parse_get_%s not found" % k)
        b = t.index("{", balanced(t, m.end() - 1, "(", ")"))
        body = t[b:balanced(t, b, "{", "}")]
        um = re.search(r"static\s+const\s+unit_scale\s+units\s*\{", body)
        if not um:
            raise TranslateError("unit table of xbt_parse_get_%s not found" % k)
        ue = balanced(body, um.end() - 1, "{", "}")
        items = split_args(body[um.end():ue - 1])
        pairs, gens = [], []
        for it in items:
            mp = re.fullmatch(r"std::make_pair\s*\((.*)\)", it, flags=re.S)
            mt = re.fullmatch(r"std::make_tuple\s*\((.*)\)", it, flags=re.S)
            if mp:
                a = split_args(mp.group(1))
                if len(a) != 2:
                    raise TranslateError("make_pair with %d arguments" % len(a))
                pairs.append((cstring(a[0]), const_expr(a[1])))
            elif mt:
                a = split_args(mt.group(1))
                if len(a) != 4 or a[3] not in ("true", "false"):
                    raise TranslateError("make_tuple not of the form (unit, value, base, abbrev): %r" % it)
                gens.append((cstring(a[0]), const_expr(a[1]), int(a[2]), a[3] == "true"))
            else:
                raise TranslateError("unsupported initializer %r" % it)
        if pairs and gens:
            raise TranslateError("mixed pair/tuple initializers in xbt_parse_get_%s" % k)
        cm = re.search(r"return\s+xbt_parse_get_value_with_unit\s*\(", body)
        if not cm:
            raise TranslateError("call of xbt_parse_get_value_with_unit not found in xbt_parse_get_%s" % k)
        ce = balanced(body, cm.end() - 1, "(", ")")
        args = split_args(body[cm.end():ce - 1])
        if len(args) != 7 or args[3] != "units":
            raise TranslateError("unexpected arguments of xbt_parse_get_value_with_unit in xbt_parse_get_%s" % k)
        res["kinds"][k] = {"pairs": pairs, "gens": gens, "default": cstring(args[6])}
    return res


def codes(s):
    return "[" + "; ".join(str(ord(c)) for c in s) + "]"


def qlit(f):
    return "(%d # %d)" % (f.numerator, f.denominator)


def render(res):
    o = ["(* GENERATED by gen/units.py from src/xbt/xbt_parse_units.cpp on every run of bin/check C27 - do not edit. *)",
         "From Coq Require Import List ZArith QArith.", "Import ListNotations.", "Local Open Scope Z_scope.", "",
         "(* strings are lists of character codes *)"]
    bases = sorted(res["mult"])
    o.append("Definition gen_bases : list Z := [%s]." % "; ".join(str(b) for b in bases))
    o.append("Definition gen_mult (base : Z) : option Q :=")
    for b in bases:
        o.append("  if base =? %d then Some %s else" % (b, qlit(res["mult"][b])))
    o.append("  None.")
    o.append("Definition gen_prefixes (base : Z) (abbrev : bool) : list (list Z) :=")
    for b in bases:
        for ab in (True, False):
            o.append("  if (base =? %d) && Bool.eqb abbrev %s then [%s] else   (* %s *)" % (
                b, "true" if ab else "false", "; ".join(codes(p) for p in res["prefixes"][(b, ab)]),
                " ".join(res["prefixes"][(b, ab)])))
    o.append("  [].")
    for k in KINDS:
        d = res["kinds"][k]
        o.append("(* xbt_parse_get_%s *)" % k)
        o.append("Definition gen_pairs_%s : list (list Z * Q) := [%s]." % (
            k, "; ".join("(%s, %s)" % (codes(n), qlit(v)) for n, v in d["pairs"])))
        o.append("Definition gen_tuples_%s : list (list Z * Q * Z * bool) := [%s]." % (
            k, "; ".join("(%s, %s, %d, %s)" % (codes(n), qlit(v), b, "true" if ab else "false") for n, v, b, ab in d["gens"])))
        o.append("Definition gen_default_%s : list Z := %s.   (* %s *)" % (k, codes(d["default"]), d["default"]))
    return "\n".join(o) + "\n"


def generate(repo, coq):
    """returns (changed, parsed)"""
    res = parse(os.path.join(repo, "src/xbt/xbt_parse_units.cpp"))
    txt = render(res)
    out = os.path.join(coq, "theories", "Gen", "UnitsTable.v")
    os.makedirs(os.path.dirname(out), exist_ok=True)
    old = open(out).read() if os.path.exists(out) else None
    if old != txt:
        open(out, "w").write(txt)
    return old != txt, res


def all_units(res):
    """every unit name the source table of each kind defines (python side, used only to generate test strings)"""
    out = {}
    for k in KINDS:
        d = res["kinds"][k]
        names = [n for n, _ in d["pairs"]]
        for n, v, b, ab in d["gens"]:
            names.append(n)
            names += [p + n for p in res["prefixes"].get((b, ab), [])]
        seen = []
        for n in names:
            if n not in seen:
                seen.append(n)
        out[k] = seen
    return out


if __name__ == "__main__":
    repo = sys.argv[1] if len(sys.argv) > 1 else "/repo"
    coq = sys.argv[2] if len(sys.argv) > 2 else "/verif/coq"
    ch, r = generate(repo, coq)
    print("changed" if ch else "unchanged", {k: len(v) for k, v in all_units(r).items()})
