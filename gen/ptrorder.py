"""C01 translator: scan the kernel / s4u sources for containers whose iteration order can depend on heap addresses
(ordered or hashed containers keyed by raw pointers, intrusive_ptr or pairs containing pointers; priority queues / heaps whose
elements contain pointers, together with the comparator they use) and write coq/theories/Gen/PtrOrderSites.v.

A site is (file, container, key type, number of declarations in that file); variable names and line numbers are deliberately not
part of it, so renaming or moving a declaration inside its file is not a change."""
import os
import re
import sys

DIRS = ["src/kernel", "src/s4u", "include/simgrid"]
CONTAINERS = ["set", "multiset", "map", "multimap", "unordered_set", "unordered_multiset", "unordered_map", "unordered_multimap"]


def strip_comments(txt):
    txt = re.sub(r"/\*.*?\*/", lambda m: "\n" * m.group(0).count("\n"), txt, flags=re.S)
    return re.sub(r"//[^\n]*", "", txt)


def first_arg(s):
    """s starts right after '<': return (first template argument, whole argument text up to the matching '>')"""
    depth, i, first_end = 0, 0, None
    while i < len(s):
        c = s[i]
        if c == "<":
            depth += 1
        elif c == ">":
            if depth == 0:
                break
            depth -= 1
        elif c == "," and depth == 0 and first_end is None:
            first_end = i
        i += 1
    whole = s[:i]
    return (whole[:first_end] if first_end is not None else whole), whole


def norm(t):
    t = re.sub(r"\s+", " ", t).strip()
    t = re.sub(r"\bconst\b\s*", "", t)
    return t.replace(" *", "*").replace(" ,", ",").replace(", ", ",").strip()


def is_ptr_key(k):
    return k.endswith("*") or k.endswith("Ptr") or "intrusive_ptr" in k or "shared_ptr" in k or ("pair<" in k and ("*" in k or "Ptr" in k))


def scan(repo):
    sites, comps = {}, []
    names, texts = {}, {}          # variable name -> "container<key>";  file -> comment-free text
    files = []
    for d in DIRS:
        for root, _, fs in os.walk(os.path.join(repo, d)):
            for f in fs:
                if f.endswith((".hpp", ".cpp", ".h")) and not f.endswith("_test.cpp"):
                    files.append(os.path.join(root, f))
    for path in sorted(files):
        rel = os.path.relpath(path, repo)
        txt = strip_comments(open(path, errors="replace").read())
        texts[rel] = txt
        aliases = {m.group(1): norm(m.group(2)) for m in re.finditer(r"using\s+(\w+)\s*=\s*(std::pair<[^;]*>)\s*;", txt)}
        aliases.update({m.group(2): norm(m.group(1)) for m in re.finditer(r"typedef\s+(std::pair<[^;]*>)\s+(\w+)\s*;", txt)})
        for m in re.finditer(r"std::(%s)\s*<" % "|".join(CONTAINERS), txt):
            key, whole = first_arg(txt[m.end():])
            key = aliases.get(norm(key), norm(key))
            if is_ptr_key(key):
                k = (rel, "std::" + m.group(1), key)
                sites[k] = sites.get(k, 0) + 1
                v = re.match(r">\s*[&*]?\s*(?:const\s+)?(?:\w+::)*(\w+)\s*[;={(,)]", txt[m.end() + len(whole):])
                if v and v.group(1) not in ("const",):
                    names.setdefault(v.group(1), "std::%s<%s>" % (m.group(1), key))
        for m in re.finditer(r"(std::priority_queue|boost::heap::\w+)\s*<", txt):
            elt, whole = first_arg(txt[m.end():])
            elt = aliases.get(norm(elt), norm(elt))
            if not is_ptr_key(elt):
                continue
            w = norm(whole)
            if "HeapComparator" in w:
                cmpname = "HeapComparator"
            elif "std::greater" in w:
                cmpname = "std::greater"
            elif "std::less" in w or "compare" not in w:
                cmpname = "std::less"
            else:
                cmpname = "custom:" + re.sub(r".*compare<(.*)>.*", r"\1", w)[:60]
            k = (rel, m.group(1) + "/" + cmpname, elt)
            sites[k] = sites.get(k, 0) + 1
    # places where such a container is iterated: range-for over it, or begin()/cbegin() taken
    iters = {}
    for rel, txt in texts.items():
        for name, ty in names.items():
            n = len(re.findall(r"for\s*\([^;{}]*:\s*\*?(?:[\w>.()-]+(?:->|\.))?%s\s*\)" % re.escape(name), txt))
            n += len(re.findall(r"\b%s\s*(?:\.|->)\s*c?begin\s*\(" % re.escape(name), txt))
            if n:
                iters[(rel, ty)] = iters.get((rel, ty), 0) + n
    # the body of the comparator the kernel heaps use
    util = os.path.join(repo, "include/xbt/utility.hpp")
    if os.path.exists(util):
        txt = strip_comments(open(util, errors="replace").read())
        m = re.search(r"class\s+HeapComparator\s*\{.*?operator\(\)\s*\([^)]*\)\s*const\s*\{(.*?)\}", txt, flags=re.S)
        comps.append(("include/xbt/utility.hpp", "HeapComparator", norm(m.group(1)) if m else "<not found>"))
    return sorted((f, c, k, n) for (f, c, k), n in sites.items()), comps, sorted((f, t, n) for (f, t), n in iters.items())


def coq_str(s):
    return '"' + s.replace('"', '""') + '"'


def render(sites, comps, iters):
    out = ["(* GENERATED by gen/ptrorder.py from the simgrid sources - do not edit *)",
           "From Coq Require Import String List.", "Import ListNotations.", "Local Open Scope string_scope.", "",
           "(* (file, container, key type, number of declarations in the file) *)",
           "Definition scanned_sites : list (string * string * string * nat) := ["]
    out.append(";\n".join("  (%s, %s, %s, %d%%nat)" % (coq_str(f), coq_str(c), coq_str(k), n) for f, c, k, n in sites))
    out += ["].", "", "(* (file, comparator, normalised body) *)", "Definition scanned_comparators : list (string * string * string) := ["]
    out.append(";\n".join("  (%s, %s, %s)" % tuple(coq_str(x) for x in c) for c in comps))
    out += ["].", "", "(* (file, type of the container, number of places in the file where it is iterated) *)",
            "Definition scanned_iterations : list (string * string * nat) := ["]
    out.append(";\n".join("  (%s, %s, %d%%nat)" % (coq_str(f), coq_str(t), n) for f, t, n in iters))
    out += ["].", ""]
    return "\n".join(out)


def generate(repo, coqdir):
    sites, comps, iters = scan(repo)
    txt = render(sites, comps, iters)
    p = os.path.join(coqdir, "theories", "Gen", "PtrOrderSites.v")
    os.makedirs(os.path.dirname(p), exist_ok=True)
    if not os.path.exists(p) or open(p).read() != txt:
        open(p, "w").write(txt)
    return sites, comps, iters


if __name__ == "__main__":
    s, c, it = generate(sys.argv[1] if len(sys.argv) > 1 else "/repo", sys.argv[2] if len(sys.argv) > 2 else "/verif/coq")
    for x in s:
        print(x)
    for x in c + it:
        print(x)
