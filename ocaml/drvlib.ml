(* Generic line driver (trusted): one case per input line = space separated decimal integers,
   one answer per output line.  ZA is zarith's Z (decimal I/O only); the model's own Z is the extracted inductive. *)
let rec pos_of_za (n : ZA.t) : positive =
  if ZA.equal n ZA.one then XH
  else if ZA.is_even n then XO (pos_of_za (ZA.shift_right n 1))
  else XI (pos_of_za (ZA.shift_right n 1))
let z_of_za (n : ZA.t) : z =
  if ZA.sign n = 0 then Z0 else if ZA.sign n > 0 then Zpos (pos_of_za n) else Zneg (pos_of_za (ZA.neg n))
let rec za_of_pos (p : positive) : ZA.t =
  match p with XH -> ZA.one | XO q -> ZA.shift_left (za_of_pos q) 1 | XI q -> ZA.succ (ZA.shift_left (za_of_pos q) 1)
let za_of_z (x : z) : ZA.t = match x with Z0 -> ZA.zero | Zpos p -> za_of_pos p | Zneg p -> ZA.neg (za_of_pos p)
let split_ws s = List.filter (fun t -> t <> "") (String.split_on_char ' ' s)
let main (tbl : (string * (z list -> z list)) list) =
  let fn = try List.assoc Sys.argv.(1) tbl with _ ->
    prerr_endline ("unknown function; have: " ^ String.concat " " (List.map fst tbl)); exit 3 in
  (try
    while true do
      let l = input_line stdin in
      let xs = List.map (fun t -> z_of_za (ZA.of_string t)) (split_ws l) in
      let ys = fn xs in
      print_endline (String.concat " " (List.map (fun y -> ZA.to_string (za_of_z y)) ys))
    done
  with End_of_file -> ())
