"""Shared machinery of every check (see DESIGN.md section 1).

A check is a python module checks/Cnn.py with a function  run(ctx).  It uses the helpers below to
  1. rebuild SimGrid (hooks on) from /repo's working tree,
  2. (T) regenerate Coq files from the source,
  3. build the Coq obligations (theories/Props/Properties_Cnn.v) and collect Print Assumptions,
  4. (K/O) run the extracted model and the implementation on the same cases,
  5. report, write evidence/Cnn.json and exit with the contract of MANIFEST.json.
"""
import fcntl, glob, hashlib, json, os, random, re, shlex, subprocess, sys, time

ROOT = os.path.dirname(os.path.dirname(os.path.abspath(__file__)))
REPO = os.environ.get("VERIF_REPO", "/repo")
B = os.environ.get("VERIF_BUILD", os.path.join(ROOT, "build"))      # bin/mutcheck points these three elsewhere
SG = os.path.join(B, "sg")
COQ = os.environ.get("VERIF_COQ", os.path.join(ROOT, "coq"))
OUT = os.environ.get("VERIF_OUT", ROOT)                                # evidence/ and findings/ go here
GUARD = "SIMGRID_VERIF"
NCPU = os.cpu_count() or 4

CMAKE_ARGS = ["-G", "Ninja", "-DCMAKE_CXX_FLAGS=-D%s -Wno-error" % GUARD, "-DCMAKE_C_FLAGS=-D%s" % GUARD,
              "-Denable_lto=OFF", "-Denable_java=OFF", "-Denable_fortran=OFF", "-Denable_python=OFF",
              "-Denable_model-checking=ON", "-Denable_smpi=ON", "-Denable_documentation=OFF",
              "-Denable_compile_warnings=OFF", "-DCMAKE_BUILD_TYPE=RelWithDebInfo"]
if os.environ.get("VERIF_CCACHE"):     # bin/mutcheck slots share a compiler cache
    CMAKE_ARGS += ["-DCMAKE_CXX_COMPILER_LAUNCHER=ccache", "-DCMAKE_C_COMPILER_LAUNCHER=ccache"]
SG_TARGETS = ["simgrid", "simgrid-mc", "smpimain", "sthread", "smpireplaymain"]

FORBIDDEN = re.compile(r"\b(Admitted|admit|Axiom|Axioms|Parameter|Parameters|Conjecture|Admit Obligations)\b|Unset Guard|bypass_check|type-in-type|impredicative-set|Unset Universe Checking|Unset Positivity")


class BuildError(Exception):
    pass


def log(*a):
    print(*a, flush=True)


def _big_stack():
    """extracted models are ordinary (non tail-recursive) OCaml: give them the largest stack the system allows"""
    import resource
    soft, hard = resource.getrlimit(resource.RLIMIT_STACK)
    try:
        resource.setrlimit(resource.RLIMIT_STACK, (hard, hard))
    except (ValueError, OSError):
        pass


def _run(cmd, cwd, timeout, env, inp, merge):
    import signal
    if isinstance(cmd, str):
        cmd = shlex.split(cmd)
    e = dict(os.environ)
    if env:
        e.update(env)
    p = subprocess.Popen(cmd, cwd=cwd, env=e, stdin=subprocess.PIPE if inp is not None else subprocess.DEVNULL,
                         stdout=subprocess.PIPE, stderr=subprocess.STDOUT if merge else subprocess.PIPE,
                         text=True, errors="replace", start_new_session=True,
                         preexec_fn=_big_stack if "/ocaml/" in str(cmd[0]) else None)
    try:
        so, se = p.communicate(inp, timeout=timeout)
        return p.returncode, so or "", se or ""
    except subprocess.TimeoutExpired:
        try:
            os.killpg(p.pid, signal.SIGKILL)      # the whole group: smpirun/simgrid-mc leave grandchildren behind
        except OSError:
            pass
        so, se = p.communicate()
        return 124, so or "", (se or "") + "\n[timeout after %ss]" % timeout


def sh(cmd, cwd=None, timeout=None, env=None, inp=None, check=False):
    """Run a command, return (rc, stdout+stderr)."""
    rc, so, se = _run(cmd, cwd, timeout, env, inp, True)
    out = so + (se if rc == 124 else "")
    if check and rc != 0:
        raise BuildError("command failed (%d): %s\n%s" % (rc, cmd if isinstance(cmd, str) else " ".join(cmd), out[-4000:]))
    return rc, out


def sh2(cmd, cwd=None, timeout=None, env=None, inp=None):
    """Run a command, return (rc, stdout, stderr) separately."""
    return _run(cmd, cwd, timeout, env, inp, False)


class Lock:
    def __init__(self, name):
        os.makedirs(B, exist_ok=True)
        self.path = os.path.join(B, name + ".lock")

    def __enter__(self):
        self.f = open(self.path, "w")
        fcntl.flock(self.f, fcntl.LOCK_EX)
        return self

    def __exit__(self, *a):
        fcntl.flock(self.f, fcntl.LOCK_UN)
        self.f.close()


# ----------------------------------------------------------------------------------------------- SimGrid build

_SG_LOCK = None


def build_simgrid(targets=None):
    """(Re)build /repo's working tree with hooks on in build/sg. Incremental.
    Locking: a check holds a SHARED lock on build/sg.lock until it exits (nobody relinks libsimgrid under a running
    check).  It first asks `ninja -n` whether anything must be rebuilt; only then does it upgrade to an EXCLUSIVE lock
    (waiting for the running checks to finish).  build/sg.gate is held while deciding/building so that newcomers queue
    behind a pending rebuild instead of starving it."""
    global _SG_LOCK
    targets = targets or SG_TARGETS
    os.makedirs(B, exist_ok=True)
    gate = open(os.path.join(B, "sg.gate"), "w")
    fcntl.flock(gate, fcntl.LOCK_EX)
    try:
        if _SG_LOCK is None:
            _SG_LOCK = open(os.path.join(B, "sg.lock"), "w")
        fcntl.flock(_SG_LOCK, fcntl.LOCK_SH)
        fresh = not os.path.exists(os.path.join(SG, "build.ninja"))
        if not fresh:
            rc, out = sh(["ninja", "-C", SG, "-n"] + targets, timeout=600)
            if rc == 0 and "no work to do" in out:
                return True
        fcntl.flock(_SG_LOCK, fcntl.LOCK_EX)
        try:
            if fresh:
                os.makedirs(SG, exist_ok=True)
                sh(["cmake", "-S", REPO, "-B", SG] + CMAKE_ARGS, check=True, timeout=600)
            rc, out = sh(["ninja", "-C", SG] + targets, timeout=3600)
            if rc != 0:
                # a changed CMake file list can need a re-configure; try once
                sh(["cmake", "-S", REPO, "-B", SG] + CMAKE_ARGS, timeout=600)
                rc, out = sh(["ninja", "-C", SG] + targets, timeout=3600)
            if rc != 0:
                raise BuildError("simgrid does not build:\n" + out[-6000:])
        finally:
            fcntl.flock(_SG_LOCK, fcntl.LOCK_SH)
    finally:
        fcntl.flock(gate, fcntl.LOCK_UN)
        gate.close()
    return True


def _newest_header_mtime():
    m = 0.0
    for d in ("include", "src"):
        for root, _, files in os.walk(os.path.join(REPO, d)):
            for f in files:
                if f.endswith((".h", ".hpp")):
                    try:
                        m = max(m, os.path.getmtime(os.path.join(root, f)))
                    except OSError:
                        pass
    return m


def build_harness(name, extra=None):
    """Compile harness/<name>.cpp against build/sg (recompiled when the source or any SimGrid header is newer)."""
    src = os.path.join(ROOT, "harness", name + ".cpp")
    outd = os.path.join(B, "harness")
    os.makedirs(outd, exist_ok=True)
    out = os.path.join(outd, name)
    flagtxt = " ".join(extra or [])
    with Lock("harness_" + name):
        stale = (not os.path.exists(out) or os.path.getmtime(out) < os.path.getmtime(src)
                 or os.path.getmtime(out) < _newest_header_mtime()
                 or os.path.getmtime(out) < os.path.getmtime(os.path.join(ROOT, "harness", "drv.hpp"))
                 or not os.path.exists(out + ".flags") or open(out + ".flags").read() != flagtxt)
        if stale:
            cmd = ["g++", "-std=gnu++17", "-O1", "-g", "-D" + GUARD, "-w", "-I" + REPO, "-I" + REPO + "/include",
                   "-I" + REPO + "/src", "-I" + SG + "/include", "-I" + SG, "-I" + os.path.join(ROOT, "harness"),
                   src, "-o", out + ".tmp", "-L" + SG + "/lib", "-lsimgrid", "-Wl,-rpath," + SG + "/lib",
                   "-lpthread"] + (extra or [])
            rc, o = sh(cmd, timeout=900)
            if rc != 0:
                raise BuildError("harness %s does not compile against the current tree:\n%s" % (name, o[-6000:]))
            os.replace(out + ".tmp", out)
            open(out + ".flags", "w").write(flagtxt)
    return out


def build_smpi_prog(name, lang="c"):
    """Compile harness/<name>.c|.cpp with the in-tree smpicc/smpicxx."""
    ext = ".c" if lang == "c" else ".cpp"
    src = os.path.join(ROOT, "harness", name + ext)
    outd = os.path.join(B, "harness")
    os.makedirs(outd, exist_ok=True)
    out = os.path.join(outd, name)
    cc = os.path.join(SG, "smpi_script", "bin", "smpicc" if lang == "c" else "smpicxx")
    with Lock("harness_" + name):
        stale = (not os.path.exists(out) or os.path.getmtime(out) < os.path.getmtime(src)
                 or os.path.getmtime(out) < _newest_header_mtime())
        if stale:
            rc, o = sh([cc, "-O1", "-g", "-w", "-I" + REPO, "-I" + REPO + "/src", "-I" + SG, src, "-o", out + ".tmp"], timeout=900)
            if rc != 0:
                raise BuildError("smpi program %s does not compile:\n%s" % (name, o[-6000:]))
            os.replace(out + ".tmp", out)
    return out


SMPIRUN = os.path.join(SG, "smpi_script", "bin", "smpirun")
SIMGRID_MC = os.path.join(SG, "bin", "simgrid-mc")
SMALL_PLATFORM = os.path.join(REPO, "examples/platforms/small_platform.xml")


def smpirun(prog, np, args=(), cfg=(), timeout=600, platform=None, inp=None, hostfile=None):
    cmd = [SMPIRUN, "-np", str(np), "-platform", platform or SMALL_PLATFORM, "--cfg=smpi/host-speed:1f",
           "--log=root.thres:critical", "--cfg=smpi/display-timing:no"]
    if hostfile:
        cmd += ["-hostfile", hostfile]
    cmd += ["--cfg=" + c for c in cfg] + [prog] + list(args)
    return sh2(cmd, timeout=timeout, inp=inp)


# ----------------------------------------------------------------------------------------------- Coq

def coq_files():
    fs = []
    for root, _, files in os.walk(os.path.join(COQ, "theories")):
        for f in files:
            if f.endswith(".v") and not f.startswith("Extract_") and not f.startswith("."):
                fs.append(os.path.relpath(os.path.join(root, f), COQ))
    return sorted(fs)


def coq_prepare():
    """(Re)write _CoqProject/Makefile when the set of .v files changed."""
    fs = coq_files()
    proj = "-Q theories SGV\n-arg -w -arg -all\n" + "\n".join(fs) + "\n"
    p = os.path.join(COQ, "_CoqProject")
    old = open(p).read() if os.path.exists(p) else ""
    if old != proj or not os.path.exists(os.path.join(COQ, "Makefile")):
        open(p, "w").write(proj)
        sh(["coq_makefile", "-f", "_CoqProject", "-o", "Makefile"], cwd=COQ, check=True)


def coq_scan_forbidden(paths=None):
    bad = []
    for f in (paths or coq_files() + [os.path.relpath(x, COQ) for x in glob.glob(os.path.join(COQ, "theories", "Extract_*.v"))]):
        txt = open(os.path.join(COQ, f)).read()
        txt = re.sub(r"\(\*.*?\*\)", "", txt, flags=re.S)
        for m in FORBIDDEN.finditer(txt):
            bad.append("%s: %s" % (f, m.group(0)))
    return bad


def coq_make(target_vo, timeout=1800):
    """make one .vo (and what it depends on). Returns (ok, output)."""
    with Lock("coq"):
        coq_prepare()
        rc, out = sh(["make", "-k", "-j%d" % NCPU, target_vo], cwd=COQ, timeout=timeout)
    return rc == 0 and os.path.exists(os.path.join(COQ, target_vo)), out


def coq_compile_props(pid, timeout=900):
    """Build dependencies with make, then (re)compile Properties_<pid>.v itself with coqc to capture Print Assumptions.
    Returns dict(ok, theorems=[..], assumptions={thm: text}, log)."""
    rel = "theories/Props/Properties_%s.v" % pid
    src = os.path.join(COQ, rel)
    txt = open(src).read()
    theorems = re.findall(r"^\s*(?:Theorem|Corollary)\s+([A-Za-z0-9_']+)", txt, flags=re.M)
    res = {"theorems": theorems, "assumptions": {}, "ok": False, "log": "", "discharged": []}
    deps_ok = True
    with Lock("coq"):
        coq_prepare()
        # dependencies: everything the file Requires, through make's own dependency tracking
        rc, out = sh(["make", "-k", "-j%d" % NCPU, rel + "o"], cwd=COQ, timeout=timeout)
        res["log"] = out[-8000:]
        if rc != 0 or not os.path.exists(src + "o"):
            deps_ok = False
        if deps_ok:
            rc, out = sh(["coqc", "-Q", "theories", "SGV", "-w", "-all", rel], cwd=COQ, timeout=timeout)
            res["log"] = out[-8000:]
            if rc == 0:
                res["ok"] = True
                # split Print Assumptions output: sequence of blocks in file order
                blocks = re.split(r"(?=^Closed under the global context|^Axioms:)", out, flags=re.M)
                blocks = [b.strip() for b in blocks if b.strip().startswith(("Closed under", "Axioms:"))]
                pa = re.findall(r"Print Assumptions\s+([A-Za-z0-9_']+)", txt)
                for n, b in zip(pa, blocks):
                    res["assumptions"][n] = " ".join(b.split())
                res["discharged"] = list(theorems)
    if not res["ok"]:
        # which theorems still check?  (best effort: none of this file is believed)
        res["discharged"] = []
    return res


_MODEL_CACHE = {}
_SRC_SHA = None


def _coq_sources_sha():
    global _SRC_SHA
    if True:      # recomputed on every (uncached) build: a translator may have rewritten a Gen file meanwhile
        h = hashlib.sha1()
        fs = []
        for root, _, files in os.walk(os.path.join(COQ, "theories")):
            fs += [os.path.join(root, f) for f in files if f.endswith(".v")]
        for f in sorted(fs) + [os.path.join(ROOT, "ocaml", "drvlib.ml")]:
            h.update(f.encode())
            h.update(open(f, "rb").read())
        _SRC_SHA = h.hexdigest()
    return _SRC_SHA


def build_model(area):
    """Extract theories/Extract_<area>.v and link the generic driver: build/ocaml/<area>/<area>.
    Built at most once per process (translators must run before the first call)."""
    if area in _MODEL_CACHE:
        return _MODEL_CACHE[area]
    d = os.path.join(B, "ocaml", area)
    os.makedirs(d, exist_ok=True)
    exv = os.path.join(COQ, "theories", "Extract_%s.v" % area)
    exe = os.path.join(d, area)
    with Lock("coq"):
        coq_prepare()
        txt = open(exv).read()
        reqs = re.findall(r"SGV\.((?:[A-Za-z0-9_]+\.)*[A-Za-z0-9_]+)", txt)
        vos = ["theories/" + r.replace(".", "/") + ".vo" for r in reqs]
        rc, out = sh(["make", "-k", "-j%d" % NCPU] + vos, cwd=COQ, timeout=1800)
        if rc != 0:
            raise BuildError("model %s does not compile:\n%s" % (area, out[-6000:]))
        # staleness by content (mtimes lie after bin/mutcheck's rsync): hash of every .v source and of the driver
        sha = _coq_sources_sha()
        if os.path.exists(exe) and os.path.exists(exe + ".sha") and open(exe + ".sha").read() == sha:
            _MODEL_CACHE[area] = exe
            return exe
        m = re.search(r'Extraction\s+"([a-z0-9_]+)\.ml"\s+([^.]*)\.', txt, flags=re.S)
        modname, names = m.group(1), m.group(2).split()
        rc, out = sh(["coqc", "-Q", os.path.join(COQ, "theories"), "SGV", "-w", "-all", exv], cwd=d, timeout=900)
        if rc != 0:
            raise BuildError("extraction %s failed:\n%s" % (area, out[-6000:]))
        for junk in glob.glob(os.path.join(COQ, "theories", "Extract_%s.*" % area)) + glob.glob(os.path.join(COQ, "theories", ".Extract_%s.*" % area)):
            if not junk.endswith(".v"):
                os.remove(junk)
        body = open(os.path.join(ROOT, "ocaml", "drvlib.ml")).read()
        table = "; ".join('("%s", %s)' % (n, n) for n in names)
        main = "module ZA = Z\nopen %s\n%s\nlet () = main [ %s ]\n" % (modname.capitalize(), body, table)
        open(os.path.join(d, "main.ml"), "w").write(main)
        rc, out = sh(["ocamlfind", "ocamlopt", "-package", "zarith", "-linkpkg", "-O2" if False else "-inline", "50", "-w", "-a",
                      modname + ".mli", modname + ".ml", "main.ml", "-o", area + ".tmp"], cwd=d, timeout=900)
        if rc != 0:
            raise BuildError("ocaml build %s failed:\n%s" % (area, out[-6000:]))
        os.replace(os.path.join(d, area + ".tmp"), exe)
        open(exe + ".sha", "w").write(sha)
        _MODEL_CACHE[area] = exe
    return exe


def run_model(area, fn, cases, timeout=1800):
    """cases: list of lists of ints.  Returns list of lists of ints (one per case)."""
    exe = build_model(area)
    inp = "\n".join(" ".join(str(int(x)) for x in c) for c in cases) + "\n"
    rc, so, se = sh2([exe, fn], inp=inp, timeout=timeout)
    if rc != 0:
        raise BuildError("model %s/%s failed (rc %d): %s" % (area, fn, rc, se[-2000:]))
    lines = so.split("\n")
    if lines and lines[-1] == "":
        lines.pop()
    if len(lines) != len(cases):
        raise BuildError("model %s/%s: %d answers for %d cases" % (area, fn, len(lines), len(cases)))
    return [[int(t) for t in l.split()] for l in lines]


def run_lines(exe, args, lines, timeout=1800, env=None):
    """Feed text lines to an implementation driver; returns (rc, list of output lines, stderr)."""
    rc, so, se = sh2([exe] + list(args), inp="\n".join(lines) + "\n", timeout=timeout, env=env)
    out = so.split("\n")
    if out and out[-1] == "":
        out.pop()
    return rc, out, se


# ----------------------------------------------------------------------------------------------- known findings

def load_findings():
    """KNOWN_FINDINGS.txt: lines  'finding: property=<id> sig=<signature> <what>'  and
    'fixed: property=<id> <commit> <what>' (the latter suppress nothing)."""
    res = {}
    p = os.path.join(ROOT, "KNOWN_FINDINGS.txt")
    if os.path.exists(p):
        for l in open(p):
            m = re.match(r"finding:\s+property=(\S+)\s+sig=(\S+)\s+(.*)", l)
            if m:
                res.setdefault(m.group(1), {})[m.group(2)] = m.group(3).strip()
    return res


# ----------------------------------------------------------------------------------------------- context

class Ctx:
    def __init__(self, pid, tier, seed, replay=None):
        self.pid, self.tier, self.seed, self.replay = pid, tier, seed, replay
        self.rng = random.Random("%s/%d" % (pid, seed))
        self.t0 = time.time()
        self.level = "proof"
        self.failures = []      # oracle rejections on the implementation: dict(sig, what, case)
        self.broken = []        # proof obligations / correspondences that no longer check: dict(name, detail, case)
        self.cov = {"evaluations": 0, "distinct_nontrivial": 0, "rule": "", "samples": [], "obligations": 0,
                    "discharged": 0, "checker_cmd": "", "trusted_base": []}
        self.assumptions = []
        self.distinct = set()
        self.known = load_findings().get(pid, {})
        self.quick = tier == "quick"
        self.notes = []

    # --- sizes
    def n(self, quick, thorough):
        return quick if self.quick else thorough

    # --- build steps
    def simgrid(self, targets=None):
        build_simgrid(targets)

    def prove(self, extra_trusted=()):
        bad = coq_scan_forbidden()
        r = coq_compile_props(self.pid)
        self.cov["obligations"] = len(r["theorems"])
        self.cov["discharged"] = len(r["discharged"])
        self.cov["checker_cmd"] = "make -C coq theories/Props/Properties_%s.vo (coqc 8.16.1, full .vo build) + forbidden-construct scan" % self.pid
        self.cov["theorems"] = r["theorems"]
        self.cov["print_assumptions"] = r["assumptions"]
        tb = ["Coq 8.16.1 kernel (coqc; vm_compute used, native_compute not used)",
              "extraction: ExtrOcamlBasic directives only; ocaml/drvlib.ml line driver (uses zarith for decimal I/O)",
              "correspondence harness under /verif/harness and generators in checks/%s.py" % self.pid]
        ax = sorted(set(a for a in r["assumptions"].values() if not a.startswith("Closed")))
        tb.append("axioms (Print Assumptions): " + ("none - every theorem closed under the global context" if not ax else "; ".join(ax)))
        self.cov["trusted_base"] = tb + list(extra_trusted)
        if bad:
            self.broken.append({"name": "forbidden-construct-scan", "detail": "; ".join(bad[:10])})
        if r["ok"] and not self.quick:
            # independent re-check of the compiled obligations and everything they depend on
            rc, out = sh(["coqchk", "-o", "-silent", "-Q", "theories", "SGV", "SGV.Props.Properties_%s" % self.pid], cwd=COQ, timeout=1800)
            self.cov["coqchk"] = "ok" if rc == 0 else "FAILED"
            self.cov["coqchk_axioms"] = " ".join(out[out.find("* Axioms"):].split())[:1500] if "* Axioms" in out else out[-300:]
            if rc != 0:
                self.broken.append({"name": "coqchk SGV.Props.Properties_%s" % self.pid, "detail": out[-2000:]})
        if not r["ok"]:
            self.broken.append({"name": "theories/Props/Properties_%s.v" % self.pid,
                                "detail": "proof obligations no longer check:\n" + r["log"][-3000:]})
        return r["ok"] and not bad

    # --- recording
    def case(self, key, nontrivial=True, sample=None):
        """count one evaluated case; key identifies it for distinctness"""
        self.cov["evaluations"] += 1
        if nontrivial:
            h = hashlib.sha1(repr(key).encode()).hexdigest()
            self.distinct.add(h)
        if sample is not None and len(self.cov["samples"]) < 6:
            self.cov["samples"].append(sample)

    def fail(self, sig, what, case):
        """the oracle rejects an implementation observation"""
        self.failures.append({"sig": sig, "what": what, "case": case})

    def mismatch(self, name, detail, case=None):
        """model and implementation disagree (correspondence broken) without an oracle verdict"""
        self.broken.append({"name": name, "detail": detail, "case": case})

    # --- verdict
    def finish(self):
        self.cov["distinct_nontrivial"] = len(self.distinct)
        viol = 0
        os.makedirs(os.path.join(OUT, "findings"), exist_ok=True)
        seen_known = set()
        new_fail = []
        for f in self.failures:
            if f["sig"] in self.known:
                if f["sig"] not in seen_known:
                    seen_known.add(f["sig"])
                    log("KNOWN-FINDING: property=%s %s [%s]" % (self.pid, self.known[f["sig"]], f["sig"]))
            else:
                new_fail.append(f)
        if new_fail:
            sigs = {}
            for f in new_fail:
                sigs.setdefault(f["sig"], f["what"][:300])
            self.cov["unlisted_failure_signatures"] = sigs      # every distinct one (only the first five get a replay file)
            # smallest case first
            new_fail.sort(key=lambda f: len(json.dumps(f["case"], default=str)))
            seen = set()
            for f in new_fail:
                if f["sig"] in seen:
                    continue
                seen.add(f["sig"])
                if len(seen) > 5:
                    break
                h = hashlib.sha1((f["sig"] + json.dumps(f["case"], default=str, sort_keys=True)).encode()).hexdigest()[:10]
                path = os.path.join(OUT, "findings", "%s-%s.json" % (self.pid, h))
                json.dump({"property": self.pid, "kind": "failing-input", "signature": f["sig"], "what": f["what"],
                           "case": f["case"], "seed": self.seed, "tier": self.tier,
                           "replay": "bin/check %s --replay %s" % (self.pid, path)}, open(path, "w"), indent=1, default=str)
                log("VIOLATION property=%s replay=%s" % (self.pid, path))
                log("  " + f["what"][:400])
                viol += 1
        elif self.broken:
            b = self.broken[0]
            h = hashlib.sha1(json.dumps(self.broken, default=str, sort_keys=True).encode()).hexdigest()[:10]
            path = os.path.join(OUT, "findings", "%s-broken-%s.json" % (self.pid, h))
            json.dump({"property": self.pid, "kind": "no-failing-input-found",
                       "no_longer_checks": [x["name"] for x in self.broken], "details": self.broken,
                       "seed": self.seed, "tier": self.tier}, open(path, "w"), indent=1, default=str)
            log("  no longer checks: %s" % b["name"])
            log("  " + str(b["detail"])[:1500])
            log("VIOLATION property=%s replay=%s no-failing-input-found" % (self.pid, path))
            viol += 1
        self.write_evidence(viol)
        log("%s %s tier=%s seed=%d evaluations=%d distinct=%d obligations=%d/%d wall=%.1fs" % (
            self.pid, "FAIL" if viol else "ok", self.tier, self.seed, self.cov["evaluations"],
            self.cov["distinct_nontrivial"], self.cov["discharged"], self.cov["obligations"], time.time() - self.t0))
        return 1 if viol else 0

    def write_evidence(self, viol):
        ev = {"property_id": self.pid, "tier": self.tier, "seed": self.seed, "level": self.level,
              "coverage": self.cov, "assumptions": self.assumptions, "wall_s": round(time.time() - self.t0, 2),
              "violations": viol, "known_findings_seen": sorted(set(f["sig"] for f in self.failures if f["sig"] in self.known)),
              "notes": self.notes}
        os.makedirs(os.path.join(OUT, "evidence"), exist_ok=True)
        p = os.path.join(OUT, "evidence", self.pid + ".json")
        json.dump(ev, open(p + ".tmp", "w"), indent=1, default=str)
        os.replace(p + ".tmp", p)


def main(argv):
    import argparse, importlib
    ap = argparse.ArgumentParser()
    ap.add_argument("pid")
    ap.add_argument("--tier", default=os.environ.get("VERIF_TIER", "quick"), choices=["quick", "thorough"])
    ap.add_argument("--replay")
    a = ap.parse_args(argv)
    seed = int(os.environ.get("VERIF_SEED", "1") or 1)
    sys.path.insert(0, os.path.join(ROOT, "checks"))
    sys.path.insert(0, os.path.join(ROOT, "lib"))
    ctx = Ctx(a.pid, a.tier, seed, a.replay)
    try:
        mod = importlib.import_module(a.pid)
        mod.run(ctx)
        rc = ctx.finish()
    except Exception as e:
        # checks import this file as module `fw` while it runs as `__main__`: match the exception class by name
        if type(e).__name__ != "BuildError":
            raise
        log("ERROR build: %s" % e)
        log("%s makes no claim on a tree that does not build" % a.pid)
        return 2
    return rc


if __name__ == "__main__":
    sys.exit(main(sys.argv[1:]))
