"""bin/setup: SimGrid with hooks on (build/sg), the whole Coq project (full .vo build), every extracted model,
every harness.  Each step is also redone incrementally by the checks themselves."""
import glob, os, sys, time
sys.path.insert(0, os.path.dirname(os.path.abspath(__file__)))
import fw

t0 = time.time()
rc = 0
try:
    fw.build_simgrid()
    print("simgrid built in %.0fs" % (time.time() - t0), flush=True)
except fw.BuildError as e:
    print("ERROR build:", e)
    sys.exit(2)
t1 = time.time()
with fw.Lock("coq"):
    fw.coq_prepare()
    r, out = fw.sh(["make", "-k", "-j%d" % fw.NCPU], cwd=fw.COQ, timeout=7200)
print(out[-3000:] if r else "coq project built in %.0fs" % (time.time() - t1), flush=True)
rc |= r
for ex in sorted(glob.glob(os.path.join(fw.COQ, "theories", "Extract_*.v"))):
    area = os.path.basename(ex)[len("Extract_"):-2]
    try:
        fw.build_model(area)
    except fw.BuildError as e:
        print("ERROR model %s: %s" % (area, e))
        rc |= 1
import concurrent.futures as cf, importlib, re as _re
sys.path.insert(0, os.path.join(fw.ROOT, "checks"))


def _extra_flags(name):
    """the extra compiler flags the owning check passes to build_harness (found by scanning checks/*.py)"""
    for f in glob.glob(os.path.join(fw.ROOT, "checks", "*.py")):
        txt = open(f).read()
        m = _re.search(r'build_harness\(\s*["\']%s["\']\s*,\s*(?:extra\s*=\s*)?(\[[^\]]*\])' % _re.escape(name), txt)
        if m:
            try:
                return eval(m.group(1), {})
            except Exception:
                return None
    return None


def _one(src):
    name, ext = os.path.splitext(os.path.basename(src))
    try:
        if name.startswith("smpi_"):
            fw.build_smpi_prog(name, "c" if ext == ".c" else "cpp")
        elif ext == ".cpp":
            uses = [f for f in glob.glob(os.path.join(fw.ROOT, "checks", "*.py")) if ('"%s"' % name) in open(f).read()]
            fl = _extra_flags(name)
            if fl is None and any(_re.search(r'build_harness\(\s*"%s"\s*,' % _re.escape(name), open(f).read()) for f in uses):
                return None          # flags are computed by the check: let the check build it
            fw.build_harness(name, fl)
        return None
    except fw.BuildError as e:
        return "harness %s: %s" % (name, str(e)[-600:])


# best effort: each check rebuilds its own harness anyway (with the exact flags it wants)
with cf.ThreadPoolExecutor(8) as ex:
    for r in ex.map(_one, sorted(glob.glob(os.path.join(fw.ROOT, "harness", "*.c*")))):
        if r:
            print("WARNING", r)
            rc |= 1
bad = fw.coq_scan_forbidden()
if bad:
    print("forbidden constructs:", bad)
    rc |= 1
print("setup done in %.0fs (%s)" % (time.time() - t0, "with warnings: the checks concerned will report them" if rc else "clean"))
# Only a SimGrid tree that does not build is fatal here: a Coq file or harness that no longer builds is reported by
# the check that owns it (as a broken proof obligation / ERROR build), not by the setup.
sys.exit(0)
