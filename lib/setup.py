"""bin/setup: SimGrid with hooks on (build/sg), the whole Coq project (full .vo build), every extracted model,
every harness.  Each step is also redone incrementally by the checks themselves."""
import glob, os, sys, time
sys.path.insert(0, os.path.dirname(os.path.abspath(__file__)))
import fw

t0 = time.time()
rc = 0
try:
    fw.build_simgrid()
    print("simgrid built in %.0fs" % (time.time() - t0), flush=True)
except fw.BuildError as e:
    print("ERROR build:", e)
    sys.exit(2)
t1 = time.time()
with fw.Lock("coq"):
    fw.coq_prepare()
    r, out = fw.sh(["make", "-k", "-j%d" % fw.NCPU], cwd=fw.COQ, timeout=7200)
print(out[-3000:] if r else "coq project built in %.0fs" % (time.time() - t1), flush=True)
rc |= r
for ex in sorted(glob.glob(os.path.join(fw.COQ, "theories", "Extract_*.v"))):
    area = os.path.basename(ex)[len("Extract_"):-2]
    try:
        fw.build_model(area)
    except fw.BuildError as e:
        print("ERROR model %s: %s" % (area, e))
        rc |= 1
for src in sorted(glob.glob(os.path.join(fw.ROOT, "harness", "*.c*"))):
    name, ext = os.path.splitext(os.path.basename(src))
    try:
        if name.startswith("smpi_"):
            fw.build_smpi_prog(name, "c" if ext == ".c" else "cpp")
        elif ext == ".cpp":
            fw.build_harness(name)
    except fw.BuildError as e:
        print("ERROR harness %s: %s" % (name, e))
        rc |= 1
bad = fw.coq_scan_forbidden()
if bad:
    print("forbidden constructs:", bad)
    rc |= 1
print("setup done in %.0fs (%s)" % (time.time() - t0, "with warnings: the checks concerned will report them" if rc else "clean"))
# Only a SimGrid tree that does not build is fatal here: a Coq file or harness that no longer builds is reported by
# the check that owns it (as a broken proof obligation / ERROR build), not by the setup.
sys.exit(0)
