"""Regenerate MANIFEST.json from the META dictionaries of checks/C*.py and checks/not_claimed.json."""
import glob, importlib, json, os, sys
ROOT = os.path.dirname(os.path.dirname(os.path.abspath(__file__)))
sys.path.insert(0, os.path.join(ROOT, "lib"))
sys.path.insert(0, os.path.join(ROOT, "checks"))
props = [json.loads(l) for l in open(os.path.join(ROOT, "properties.jsonl"))]
ids = [p["id"] for p in props]
checks, claimed = [], set()
for pid in ids:
    f = os.path.join(ROOT, "checks", pid + ".py")
    if not os.path.exists(f):
        continue
    try:
        m = importlib.import_module(pid)
    except Exception as e:           # a check still being written must not break the manifest
        print("skip %s: %s" % (pid, e))
        continue
    meta = getattr(m, "META", None)
    if not meta or not meta.get("claimed", True):
        continue
    claimed.add(pid)
    checks.append({
        "property_id": pid,
        "quick_cmd": "bin/check %s --tier quick" % pid,
        "thorough_cmd": "bin/check %s --tier thorough" % pid,
        "evidence_file": "/verif/evidence/%s.json" % pid,
        "replay_cmd_template": "bin/check %s --replay {path}" % pid,
        "engine": "coq-model+correspondence",
        "level_claimed": {"category": meta.get("level", "proof"), "text": meta["text"], "design_ref": meta.get("design_ref", "DESIGN.md section 3, " + pid)},
        "level_note": meta["note"],
        "technique": meta.get("technique", "Coq proof about an executable Gallina model; model tied to the rebuilt library by a differential correspondence check"),
    })
nc = json.load(open(os.path.join(ROOT, "checks", "not_claimed.json")))
na = [{"property_id": pid, "reason": nc.get(pid, "check not built yet (see DESIGN.md section 3 for the plan); no claim is made")} for pid in ids if pid not in claimed]
hooks_commits = [l.strip() for l in open(os.path.join(ROOT, "checks", "hook_commits.txt"))] if os.path.exists(os.path.join(ROOT, "checks", "hook_commits.txt")) else []
man = {
    "version": 1,
    "setup_cmd": "bin/setup",
    "hooks": {
        "guard": "SIMGRID_VERIF",
        "enable": "cmake -S /repo -B /verif/build/sg -G Ninja -DCMAKE_CXX_FLAGS='-DSIMGRID_VERIF -Wno-error' -DCMAKE_C_FLAGS=-DSIMGRID_VERIF -Denable_lto=OFF -Denable_java=OFF ... (lib/fw.py CMAKE_ARGS); every check runs ninja on that build dir first",
        "baseline_off_cmd": "cmake --build /repo/_build && ctest --test-dir /repo/_build -j8 --timeout 900",
        "source_commits": hooks_commits,
        "add_only": True,
    },
    "engines": [{"name": "coq-model+correspondence", "path": "/verif/lib/fw.py", "serves_properties": sorted(claimed),
                 "kind_free_text": "Coq 8.16.1 project under /verif/coq (theorems in theories/Props), models extracted to OCaml (ExtrOcamlBasic) and run against drivers linked to the rebuilt libsimgrid"}],
    "checks": checks,
    "not_applicable": na,
    "notes": "See DESIGN.md. KNOWN_FINDINGS.txt lists repaired defects (fixed:) and recorded findings (finding:).",
}
json.dump(man, open(os.path.join(ROOT, "MANIFEST.json"), "w"), indent=1)
print("claimed %d, not claimed %d" % (len(checks), len(na)))
