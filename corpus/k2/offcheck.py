"""offcheck.py Cnn <harness binary>: run checks/Cnn.py exactly as bin/check does, except that simgrid is not rebuilt and the
harness binary is the given one (a harness with a mutated translation unit linked in, which interposes the library's)."""
import os, sys
os.environ["VERIF_OUT"] = "/tmp/k2-comm/out"
sys.path.insert(0, "/verif/lib"); sys.path.insert(0, "/verif/checks")
import fw, importlib
pid, binary = sys.argv[1], sys.argv[2]
fw.build_simgrid = lambda *a, **k: True
fw.build_harness = lambda name, extra=None: binary
ctx = fw.Ctx(pid, "quick", 1)
ctx.known = fw.load_findings().get(pid, {})
mod = importlib.import_module(pid)
mod.run(ctx)
sys.exit(ctx.finish())
