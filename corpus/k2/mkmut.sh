#!/bin/sh
# mkmut.sh <patch> <relative source> <harness name> -> builds /tmp/k2-comm/ms/<harness>_<patchname> with the mutated TU linked into the harness
p=$1; src=$2; h=$3; name=$(basename $p .diff)
d=/tmp/k2-comm/ms/$name; rm -rf $d; mkdir -p $d/$(dirname $src)
cp /repo/$src $d/$src
(cd $d && patch -p1 -s < $p) || exit 1
g++ -std=gnu++20 -O1 -g -DSIMGRID_VERIF -w -fno-access-control -I/repo -I/repo/include -I/repo/src -I/verif/build/sg/include -I/verif/build/sg -I/verif/harness \
  /verif/harness/$h.cpp $d/$src -o /tmp/k2-comm/ms/${h}_$name -L/verif/build/sg/lib -lsimgrid -Wl,-rpath,/verif/build/sg/lib -lpthread
